#!/usr/bin/env python3
"""Regenerates MANIFEST.json from the table below (python3 tools_manifest.py)."""
import json

ALL = ["C%02d" % i for i in range(1, 20)]

# id -> (level category, engine, technique, level text, level note, design ref)
CHECKS = {
 "C01": ("model_checking", "E1 histmc",
   "explicit-state search over declaration histories on the real analyzers, stateless per-site reference",
   "Every history of top-level declarations up to the stated depth (encloser kind x file x package x annotation mix) is rendered, analysed by the real analyzers through checker.Analyze and compared line by line with a reference that is a function of the site alone; a verdict that depends on what precedes a declaration is a counterexample by construction.",
   "go/parser, go/types, x/tools checker.Analyze trusted; programs restricted to the generated alphabet (DESIGN.md section 2, C01)", "2/C01"),
 "C02": ("model_checking", "E1 histmc",
   "explicit-state search over declaration histories on the real analyzers, stateless per-site reference",
   "Same exploration as C01 over the instantiation alphabet (composite literals incl. elided, new, var declarations, package-level forms) against the constructor-list reference.",
   "go/parser, go/types, x/tools checker.Analyze trusted; programs restricted to the generated alphabet", "2/C02"),
 "C03": ("model_checking", "E1 histmc",
   "explicit-state search over statement and declaration histories on the real analyzers, reference with first-use rule",
   "All statement sequences up to the stated length inside every encloser kind, and all histories of declarations across files, for same-package and imported @testonly items; each state is analysed by the real analyzers and compared per line with a reference that applies 'once per file and type, at the first use' in textual order.",
   "go/parser, go/types, checker.Analyze trusted; use kinds the statement does not list are not judged", "2/C03"),
 "C04": ("model_checking", "E1 histmc",
   "explicit-state search over statement and declaration histories x allow-list shapes x using packages",
   "Same exploration as C03 for @packageonly: 14 allow-list shapes (bare, names, paths, several lines, duplicates, prose) x 5 using packages (allowed by name, by path, same name other path, name differing from path, the declaring package) x every reference kind; reference = union-of-lists membership of path or name.",
   "go/parser, go/types, checker.Analyze trusted", "2/C04"),
 "C13": ("model_checking", "E1 histmc",
   "metamorphic exploration: every state analysed under the direct spelling and under each identical-type spelling",
   "Every state of the C01-C04 universes (bounded) is analysed twice by the real analyzers - type named directly vs. local alias, alias from a third package, renamed import, parenthesised type, alias of the pointer type - and per-site verdicts must be equal (once-per-file codes: same types reported in the using package).",
   "go/types identity; direct-spelling verdicts judged by C01-C04", "2/C13"),
 "C12": ("model_checking", "E1 histmc",
   "metamorphic exploration of the layout-transformation group over every base history",
   "For every base program (declaration histories of the C01-C04 universes) the whole transformation family - all permutations of declarations x all assignments to two files, blank lines/comments, gofmt-preimage whitespace, renaming of locals/receivers, and their pairwise compositions (thorough) - is applied and both programs are analysed by the real analyzers; verdicts keyed by (declaration, statement, code) must be unchanged.",
   "transformations are semantics-preserving by construction (whitespace one verified against go/format on every program)", "2/C12"),
 "C16": ("model_checking", "E2 seqmc",
   "explicit-state enumeration of all add-operation sequences on the real util.IgnoreSet against a list-scan reference model",
   "Exactly the quantifier's space: all sequences of <=3 operations over the 206-operation alphabet (quick) and all sequences of 4 single-token operations plus wider ranges at depth 2 (thorough), from the zero value, &IgnoreSet{} and nil, each followed by all 56 queries, compared with a linear-scan reference.",
   "public API only (Add, AddModuleIgnore, Contains); positions are small integers standing for token.Pos", "2/C16"),
 "C06": ("exploration", "E4 drvmc + E1 + E2",
   "exhaustive finite grid: fixtures x run sets x real drivers and in-process modes, want-marker oracle; reflection-generated fact value space through gob",
   "Every cell of the grid fixture x non-empty run set (both orders) x {gogreement -json, -debug=p, -debug=s, go vet -vettool -json, checker.Analyze in 4 modes} is executed on the real executables / real analyzers and every named package's diagnostics must equal the want-markers; every generated fact value (all fields, by reflection) must survive the drivers' gob round trip byte-deterministically. A finite grid enumerated completely, hence exploration rather than model checking of a state space.",
   "x/tools drivers, encoding/gob and the go command trusted; fixtures are fixed programs", "2/C06"),
 "C19": ("model_checking", "E2 seqmc",
   "exhaustive enumeration of (line length, column, content class, file layout) on the real Reporter, independent fragment-locating oracle",
   "All line lengths 0..600 x all columns x 5 content classes x 5 file layouts x neighbour-length rotations, plus degraded inputs, are pushed through reporting.Reporter.ReportViolation with a synthetic Pass; a position-coded line lets the oracle locate the excerpt fragment and the caret cell without knowing the truncation arithmetic.",
   "only width-1 runes are generated; columns inside a rune and cuts splitting a rune are recorded, not judged", "2/C19"),
 "C07": ("model_checking", "E1 histmc",
   "differential exploration: every (diagnostic, comment placement, code list) state on the real analyzers vs. base minus reference scope",
   "For every diagnostic of covering base programs (all 16 codes, anchors at and inside statements, function/nested/package level, two files, two packages), every placement of one @ignore comment (file level, before declaration, before statement, before enclosing statement, trailing on the line / previous / next line, before the sibling, other file) and 17 code lists, the variant is analysed by the real analyzers and must equal the base minus the diagnostics inside the reference scope that match the list; TONL01/PKGO01 move to the next unsuppressed use. The scope reference is computed from go/parser, independently of gogreement.",
   "base verdicts judged elsewhere; reference scopes follow the property statement", "2/C07"),
 "C17": ("exploration", "E4 drvmc + E1",
   "exhaustive over every diagnostic of covering programs on the real binary: format rules, append-own-code @ignore rerun, exit status grid",
   "Every diagnostic emitted by the real binary (both drivers) on covering programs is checked against the format rules and re-run with `// @ignore <code shown>` appended to its line; exit status of both text-mode drivers is compared with the number of printed diagnostics on programs with 0/1/many/suppressed diagnostics; the same format rules are applied to every diagnostic of an in-process sweep.",
   "documentation pages derived from the book's file names; output parsing by the harness", "2/C17"),
 "C08": ("model_checking", "E1 + hook, E4 conformance",
   "exhaustive enumeration of exclude-checks configurations through the real ConfigReader->IgnoreReader->checkers path, filtered-baseline oracle; conformance cells on the real binaries",
   "Every configuration S in the enumerated family (quick: |S|<=2 over the 22 real tokens, all sub-chains ALL/category/code, junk, case/spacing, flag and env; thorough: all 2^22 subsets by cardinality under a time budget) is applied in-process through the real flag set / environment and the covering program's diagnostics must equal the baseline filtered by the hierarchy; a spread of configurations is replayed on the real binary and the vet driver.",
   "hook VerifResetConfig only forgets the cached configuration; the flag set is re-created with config.CreateFlagSet exactly as package init does", "2/C08"),
 "C15": ("model_checking", "E2 seqmc",
   "exhaustive enumeration of bounded token sequences through the real annotation readers against a hand-written recogniser; exhaustive attachment matrix",
   "All comment strings made of <=4 (quick) / <=5 (thorough) tokens over a 41-token alphabet (blanks, keywords, near-keywords, arguments, punctuation), several comment openers and an argument-focused extension are attached to type/field/func/method/body sites and read by the real ReadAllAnnotations / ReadIgnoreAnnotations; every field of the result is compared with a regexp-free reference recogniser; 21 attachment sites x 7 keywords decide where annotations take effect.",
   "blank = space, tab, form feed, carriage return; shapes the documented grammar does not determine are listed under not_judged", "2/C15"),
 "C11": ("model_checking", "E3 schedmc (+E4, race complement)",
   "controlled scheduler over the analyzer x package action DAG, depth-first enumeration of all schedules within a deviation bound, real Analyzer.Run in every schedule",
   "Every schedule of the action DAG with at most 1 (quick) / 2 (thorough) deviations from the default choice is executed with the real analyzers under a cooperative scheduler that owns all cross-action operations; diagnostics (full text) and gob bytes of every fact must equal the default schedule's, which is itself validated against checker.Analyze (sequential and parallel). Run sets, root permutations and the real drivers (json, -debug=p, vet; permuted and reduced package lists; repeated) are compared exhaustively over the listed grid. Data races between scheduling points are outside a cooperative scheduler's reach and are delegated to a free-running -race build of the real binary (sampling, reported separately).",
   "scheduling points = analysis.Pass callbacks; map iteration order and memory-model races not owned by the scheduler", "2/C11"),
 "C14": ("exploration", "E4 drvmc",
   "exhaustive configuration grid on the real drivers with exact want-marker oracle, positional oracle and inert-twin differential",
   "Every cell of scan-tests x exclude-paths x {flag, env} x {standalone, vet} is run on a module mixing regular, in-package and external test files, generated files, a legacy sub-package and a testdata package; the diagnostics must equal the want-markers whose own file and annotation-holding files survive the reference filter, none may lie in an excluded file, and replacing excluded files by inert twins must change nothing.",
   "go list / go vet package selection trusted; scratch path free of exclude entries", "2/C14"),
 "C05": ("model_checking", "E1 histmc (generated packages), go/types as reference model",
   "bounded-exhaustive enumeration of (type, interface, annotation) cases on the real analyzers with Go's type checker as the reference",
   "All pairs of 67 type expressions in parameter and result position (thorough: 4 positions x receiver kinds x & marker), arities, method sources (declared, promoted through E / *E / embedded interface), interface shapes, unexported methods, and the import-qualifier grid (13 import configurations x import order x qualifier kinds x 7 interface-name kinds) are rendered ~48 cases per package, analysed by the real analyzers and compared with types.Implements / MissingMethod / types.Identical and Go's import binding.",
   "go/types is the reference by the property's own wording; alias-renamed imports referenced by their original name and the qualifier `_` are not judged", "2/C05"),
 "C18": ("exploration", "E4 drvmc + E2",
   "exhaustive flag x env x value grid on the real executables against a reference resolver; exhaustive bounded string sweep of the real parser functions",
   "Per option the grid {flag absent, flag empty, flag value} x {env unset, env empty, env value} over all listed value spellings, all pairs of options, three-option cells and hostile environment strings is run on the real binary and the vet driver against a probe module whose planted violations make every option observable; the resolved configuration must be flag > env > default and no environment value may make the tool fail. In-process, all strings of length <=4 (<=5 thorough) over an 8-symbol alphabet go through config.FromEnv / CreateFlagSet / ParseFlagsFromFlagSet against the same reference.",
   "syntactically invalid boolean FLAG values are rejected by package flag before GoGreement runs (not judged)", "2/C18"),
 "C09": ("exploration", "E4 drvmc + E1",
   "exhaustive over the on-disk corpus (std + module cache) on the real drivers; exhaustive near-miss x attachment-site grid in-process",
   "Every package of the Go standard library and of the modules this repository depends on that loads offline (584; quick: 144) is analysed by both real drivers under three configurations after an independent pre-scan confirms it carries no annotation, and must yield zero diagnostics; in-process, every near-miss spelling (17 forms x 7 keywords) at every attachment site (21) in programs that contain would-be violations of every kind must yield zero diagnostics under three configurations.",
   "corpus = what is on disk; packages needing absent modules are dropped and counted", "2/C09"),
 "C10": ("exploration", "E4 drvmc + in-process loader",
   "exhaustive over corpus x systematic annotation-injection patterns x configurations x drivers; exhaustive family of generated odd-placement programs",
   "The corpus is re-analysed with annotations injected systematically on every declaration (7 patterns incl. @ignore before every statement) under default and scan-tests configurations by both real drivers (module cache copies) and in-process through packages.Load with substituted file contents (standard library), in contained worker processes; 870 generated programs place annotated items where no function encloses them, in generic code, in empty / comment-only / CRLF / BOM / very-long-line files. Oracle: no panic, internal error, analyzer error or hang (20x baseline, min. 15 min).",
   "diagnostics themselves are not judged here; only comments are inserted (re-parsed syntax tree must be unchanged)", "2/C10"),
}

NA_REASON = "check not built yet in this round (planned, see DESIGN.md section 2)"

def main():
    checks = []
    for pid in ALL:
        if pid not in CHECKS:
            continue
        cat, eng, tech, text, note, ref = CHECKS[pid]
        checks.append({
            "property_id": pid,
            "quick_cmd": "./check.sh %s quick" % pid,
            "thorough_cmd": "./check.sh %s thorough" % pid,
            "evidence_file": "/verif/evidence/%s.json" % pid,
            "replay_cmd_template": "./check.sh replay {path}",
            "engine": eng,
            "level_claimed": {"category": cat, "text": text, "design_ref": "DESIGN.md " + ref},
            "level_note": note,
            "technique": tech,
        })
    m = {
        "version": 1,
        "setup_cmd": "./check.sh build",
        "hooks": {
            "guard": "verif (Go build tag)",
            "enable": "check.sh builds the harness with `go build -tags verif -overlay <generated overlay.json>`; the overlay adds /verif/hooks/analyzer/zz_verif_reset.go (func VerifResetConfig, build tag verif) to package src/analyzer without writing anything into /repo; every check.sh invocation rebuilds against /repo's working tree. The harness is built twice: the hook variant (tag verif + overlay) runs C08, C09 and C10, which drive the process-wide configuration in-process; every other check runs from a build without the tag and without the overlay, so it does not depend on the hook file compiling. C11 uses a third build (tags verif verifsync): the same overlay additionally replaces src/analyzer/analyzer.go by a scratch copy, generated from the current tree at every run, whose import of package sync is redirected to /verif/hooks/verifsync (a cooperative stand-in for sync.Once/Mutex/RWMutex whose operations are scheduling points of the controlled scheduler; identical to package sync when no scheduler is installed), injected as the virtual package src/verifsync; if the tree does not build this way C11 runs on the plain build and reports that phase as not explored.",
            "baseline_off_cmd": "cd /repo && GOFLAGS=-mod=mod GOPROXY=off go test -json -vet=off -count=1 -timeout 25m ./...",
            "source_commits": [],
            "add_only": True,
        },
        "engines": [
            {"name": "E1 histmc", "path": "/verif/mc/internal/e1", "serves_properties": ["C01", "C02", "C03", "C04", "C05", "C07", "C08", "C12", "C13", "C17"],
             "kind_free_text": "explicit-state search over declaration/statement histories; successor = history + one declaration, re-rendered and re-analysed by the real analyzers (checker.Analyze)"},
            {"name": "E2 seqmc", "path": "/verif/mc/internal/checks", "serves_properties": ["C15", "C16", "C19", "C06"],
             "kind_free_text": "exhaustive enumeration of inputs / operation sequences through the public API against a boring reference model"},
            {"name": "E4 drvmc", "path": "/verif/mc/internal/drv", "serves_properties": ["C06", "C08", "C09", "C10", "C11", "C14", "C17", "C18"],
             "kind_free_text": "grid runner over the real executables (gogreement, go vet -vettool) on programs materialised in a tmpfs scratch directory; rebuilt from the working tree on every run"},
            {"name": "E3 schedmc", "path": "/verif/mc/internal/e3", "serves_properties": ["C11"],
             "kind_free_text": "hand-written controlled scheduler + DFS explorer over the go/analysis action DAG; deviation-bounded; replay of recorded choice sequences with hard error on divergence"},
        ],
        "checks": checks,
        "notes": "All checks run the real code of /repo (rebuilt from the working tree on every invocation). known_findings.json lists recorded and fixed defects.",
        "not_applicable": [{"property_id": p, "reason": NA_REASON} for p in ALL if p not in CHECKS],
    }
    json.dump(m, open("/verif/MANIFEST.json", "w"), indent=1)
    print("wrote MANIFEST.json with", len(checks), "checks")

main()

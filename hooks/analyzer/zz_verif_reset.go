//go:build verif

package analyzer

import (
	"sync"

	config "github.com/a14e/gogreement/src/config"
)

// VerifResetConfig forgets the process-wide cached configuration so that one
// harness process can drive the real ConfigReader through many configurations.
// Present only under the "verif" build tag, injected with `go build -overlay`.
func VerifResetConfig() {
	configOnce = sync.Once{}
	cachedConfig = config.Empty()
}

// Package verifsync stands in for package sync in src/analyzer under the model-checking build
// (check.sh rewrites the import of that one file in a scratch copy and injects this package as an
// overlay; nothing is written into the repository). With no scheduler installed every type behaves
// exactly like its namesake in package sync. With a scheduler installed, the operations become
// scheduling points of the controlled scheduler (mc/internal/e3): only one analysis action runs at a
// time, an action that cannot proceed is reported as blocked instead of blocking its goroutine, and the
// explorer can therefore enumerate the interleavings INSIDE the critical sections.
package verifsync

import "sync"

// Sched is the part of the controlled scheduler the shim talks to. All calls come from the goroutine
// of the action that currently holds the scheduler's token.
type Sched interface {
	Point(what string)          // a scheduling point
	Wait(key any, what string)  // the caller cannot proceed before Wake(key); returns when rescheduled
	Wake(key any)
}

// S is installed by the harness for the duration of one controlled execution.
var S Sched

// Once is sync.Once.
type Once struct {
	real          sync.Once
	done, running bool
}

func (o *Once) Do(f func()) {
	s := S
	if s == nil {
		o.real.Do(f)
		return
	}
	s.Point("once.Do")
	for o.running {
		s.Wait(o, "once.Do") // another action is inside f: Do returns only after f has returned
	}
	if o.done {
		return
	}
	o.running = true
	defer func() {
		o.running, o.done = false, true // like sync.Once: a panicking f counts as done
		s.Wake(o)
	}()
	f()
}

// Mutex is sync.Mutex.
type Mutex struct {
	real   sync.Mutex
	locked bool
}

func (m *Mutex) Lock() {
	s := S
	if s == nil {
		m.real.Lock()
		return
	}
	s.Point("mutex.Lock")
	for m.locked {
		s.Wait(m, "mutex.Lock")
	}
	m.locked = true
}

func (m *Mutex) TryLock() bool {
	s := S
	if s == nil {
		return m.real.TryLock()
	}
	s.Point("mutex.TryLock")
	if m.locked {
		return false
	}
	m.locked = true
	return true
}

func (m *Mutex) Unlock() {
	s := S
	if s == nil {
		m.real.Unlock()
		return
	}
	if !m.locked {
		panic("verifsync: unlock of unlocked mutex")
	}
	m.locked = false
	s.Wake(m)
	s.Point("mutex.Unlock")
}

// RWMutex is sync.RWMutex.
type RWMutex struct {
	real    sync.RWMutex
	writer  bool
	readers int
}

func (m *RWMutex) Lock() {
	s := S
	if s == nil {
		m.real.Lock()
		return
	}
	s.Point("rwmutex.Lock")
	for m.writer || m.readers > 0 {
		s.Wait(m, "rwmutex.Lock")
	}
	m.writer = true
}

func (m *RWMutex) Unlock() {
	s := S
	if s == nil {
		m.real.Unlock()
		return
	}
	m.writer = false
	s.Wake(m)
	s.Point("rwmutex.Unlock")
}

func (m *RWMutex) RLock() {
	s := S
	if s == nil {
		m.real.RLock()
		return
	}
	s.Point("rwmutex.RLock")
	for m.writer {
		s.Wait(m, "rwmutex.RLock")
	}
	m.readers++
}

func (m *RWMutex) RUnlock() {
	s := S
	if s == nil {
		m.real.RUnlock()
		return
	}
	m.readers--
	s.Wake(m)
	s.Point("rwmutex.RUnlock")
}

// Types without a cooperative version: they do not block an action on another action's progress
// in a way the scheduler would have to know about.
type (
	WaitGroup = sync.WaitGroup
	Map       = sync.Map
	Pool      = sync.Pool
	Locker    = sync.Locker
)

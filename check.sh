#!/bin/bash
# check.sh <ID> <quick|thorough>   — rebuilds the harness against /repo's working tree and runs one check.
# check.sh build                  — build only (setup).
set -u
cd /verif/mc || exit 2
export GOFLAGS=-mod=mod GOPROXY=off
unset GOGREEMENT_SCAN_TESTS GOGREEMENT_EXCLUDE_PATHS GOGREEMENT_EXCLUDE_CHECKS GOGREEMENT_ENV_ONLY
mkdir -p /verif/bin /verif/evidence
build() {
  go build -tags verif -overlay /verif/hooks/overlay.json -o /verif/bin/mc ./cmd/mc || { echo "HARNESS-ERROR: harness build failed"; exit 2; }
}
if [ "${1:-}" = build ]; then
  build
  (cd /repo && go build -o /verif/bin/gogreement ./cmd/gogreement) || exit 2
  exit 0
fi
build
exec /verif/bin/mc "$@"

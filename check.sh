#!/bin/bash
# check.sh <ID> <quick|thorough>   — rebuilds the harness against the repository's working tree and runs one check.
# check.sh build                  — build only (setup).
# The repository is /repo; for experiments on a scratch worktree set VERIF_REPO=<dir> (the harness and the
# gogreement binary are then built from that tree into a private bin directory).
set -u
cd /verif/mc || exit 2
export GOFLAGS=-mod=mod GOPROXY=off
unset GOGREEMENT_SCAN_TESTS GOGREEMENT_EXCLUDE_PATHS GOGREEMENT_EXCLUDE_CHECKS GOGREEMENT_ENV_ONLY
REPO=${VERIF_REPO:-/repo}
BIN=/verif/bin
MODARGS=()
OVERLAY=/verif/hooks/overlay.json
if [ "$REPO" != /repo ]; then
  BIN=/verif/bin/alt-$(echo "$REPO" | md5sum | cut -c1-10)
  mkdir -p "$BIN"
  sed "s#=> /repo#=> $REPO#" go.mod > "$BIN/go.mod"
  cp go.sum "$BIN/go.sum"
  sed "s#/repo/#$REPO/#" /verif/hooks/overlay.json > "$BIN/overlay.json"
  MODARGS=(-modfile="$BIN/go.mod")
  OVERLAY="$BIN/overlay.json"
fi
# development aid: MC_SKIP="c15 c16" leaves out internal/checks/c15*.go, c16*.go (files another session is editing)
if [ -n "${MC_SKIP:-}" ]; then
  BIN=/verif/bin/skip-$(echo "$MC_SKIP$REPO" | md5sum | cut -c1-8); mkdir -p "$BIN"
  python3 - "$OVERLAY" "$BIN/overlay.json" $MC_SKIP <<'PY'
import json,sys,glob
o=json.load(open(sys.argv[1]))
for k in sys.argv[3:]:
    for f in glob.glob('/verif/mc/internal/checks/%s*.go'%k):
        o["Replace"][f]=""
json.dump(o,open(sys.argv[2],'w'))
PY
  OVERLAY="$BIN/overlay.json"
fi
export VERIF_REPO=$REPO VERIF_BIN=$BIN
mkdir -p "$BIN" /verif/evidence
build_mc() {
  go build "${MODARGS[@]}" -tags verif -overlay "$OVERLAY" -o "$BIN/mc" ./cmd/mc || { echo "HARNESS-ERROR: harness build failed"; exit 2; }
}
build_tool() {
  (cd "$REPO" && go build -o "$BIN/gogreement" ./cmd/gogreement) || { echo "HARNESS-ERROR: gogreement build failed"; exit 2; }
}
if [ "${1:-}" = build ]; then
  build_mc
  build_tool
  exit 0
fi
build_mc
exec "$BIN/mc" "$@"

#!/bin/bash
# check.sh <ID> <quick|thorough>   — rebuilds the harness against the repository's working tree and runs one check.
# check.sh build                  — build only (setup).
# check.sh replay <file>          — print a recorded counterexample (program, expected, observed).
#
# The repository is /repo. For experiments on a scratch worktree set VERIF_REPO=<dir>: the harness and the
# gogreement binary are then built from that tree into a private bin directory, and evidence / replays are
# written there too, never over the evidence of /repo. The script works from wherever it lives (a snapshot of
# /verif runs its own copy of the harness and writes into the snapshot).
set -u
ROOT=$(dirname "$(realpath "$0")")
export VERIF_ROOT=$ROOT
cd "$ROOT/mc" || exit 2
export GOFLAGS=-mod=mod GOPROXY=off
unset GOGREEMENT_SCAN_TESTS GOGREEMENT_EXCLUDE_PATHS GOGREEMENT_EXCLUDE_CHECKS GOGREEMENT_ENV_ONLY
REPO=${VERIF_REPO:-/repo}
BIN=$ROOT/bin
MODARGS=()
if [ "$REPO" != /repo ]; then
  BIN=$ROOT/bin/alt-$(echo "$REPO" | md5sum | cut -c1-10)
  mkdir -p "$BIN"
  sed "s#=> /repo#=> $REPO#" go.mod > "$BIN/go.mod"
  cp go.sum "$BIN/go.sum"
  MODARGS=(-modfile="$BIN/go.mod")
  export VERIF_OUT="$BIN"
elif [ "$ROOT" != /verif ]; then
  export VERIF_OUT="$ROOT"
fi
# development aid: MC_SKIP="c15 c16" leaves out internal/checks/c15*.go, c16*.go (files another session is editing)
SKIP=""
if [ -n "${MC_SKIP:-}" ]; then
  BIN=$BIN/skip-$(echo "$MC_SKIP" | md5sum | cut -c1-8)
  for k in $MC_SKIP; do for f in "$ROOT"/mc/internal/checks/${k}*.go; do [ -e "$f" ] && SKIP="$SKIP, \"$f\": \"\""; done; done
fi
mkdir -p "$BIN" "$ROOT/evidence"
# the hook: one add-only file under build tag "verif", injected as an overlay (nothing is written into the repository)
OVERLAY=$BIN/overlay.json
echo "{\"Replace\": {\"$REPO/src/analyzer/zz_verif_reset.go\": \"$ROOT/hooks/analyzer/zz_verif_reset.go\"$SKIP}}" > "$OVERLAY"
export VERIF_REPO=$REPO VERIF_BIN=$BIN
# Two builds of the same harness: "mc" carries the hook (tag verif + overlay) and is used for the three checks that
# drive the process-wide configuration in-process (C08, C09, C10); "mc-plain" is built without tag and overlay and
# runs everything else, so a tree on which the hook file no longer compiles still gets the other sixteen checks.
build_mc() {
  go build "${MODARGS[@]}" -tags verif -overlay "$OVERLAY" -o "$BIN/mc" ./cmd/mc || { echo "HARNESS-ERROR: harness build (hook variant) failed"; exit 2; }
}
# Third build, used by C11 only: as "mc", and in addition src/analyzer's import of package sync is redirected (in a
# scratch copy of that one file, made from the current tree at every run) to hooks/verifsync, a cooperative stand-in
# whose operations are scheduling points of the controlled scheduler. Returns non-zero when the tree does not build
# this way (C11 then runs on the plain build and reports the sync-seam phase as not explored).
build_sched() {
  mkdir -p "$BIN/gen"
  sed 's#^\t"sync"$#\tsync "github.com/a14e/gogreement/src/verifsync"#' "$REPO/src/analyzer/analyzer.go" > "$BIN/gen/analyzer.go"
  sed 's#^\t"sync"$#\tsync "github.com/a14e/gogreement/src/verifsync"#' "$ROOT/hooks/analyzer/zz_verif_reset.go" > "$BIN/gen/zz_verif_reset.go"
  echo "{\"Replace\": {\"$REPO/src/analyzer/zz_verif_reset.go\": \"$BIN/gen/zz_verif_reset.go\", \"$REPO/src/analyzer/analyzer.go\": \"$BIN/gen/analyzer.go\", \"$REPO/src/verifsync/sync.go\": \"$ROOT/hooks/verifsync/sync.go\"$SKIP}}" > "$BIN/overlay-sched.json"
  go build "${MODARGS[@]}" -tags "verif verifsync" -overlay "$BIN/overlay-sched.json" -o "$BIN/mc-sched" ./cmd/mc 2> "$BIN/mc-sched.build.log"
}
build_plain() {
  if [ -n "$SKIP" ]; then
    go build "${MODARGS[@]}" -overlay "$OVERLAY" -o "$BIN/mc-plain" ./cmd/mc || { echo "HARNESS-ERROR: harness build failed"; exit 2; }
  else
    go build "${MODARGS[@]}" -o "$BIN/mc-plain" ./cmd/mc || { echo "HARNESS-ERROR: harness build failed"; exit 2; }
  fi
}
build_tool() {
  (cd "$REPO" && go build -o "$BIN/gogreement" ./cmd/gogreement) || { echo "HARNESS-ERROR: gogreement build failed"; exit 2; }
}
case "${1:-}" in
  build)
    build_mc; build_plain; build_tool; build_sched || echo "note: sync-shim build not available for this tree (see $BIN/mc-sched.build.log)"; exit 0;;
  replay)
    python3 - "$2" <<'PY'
import json,sys
j=json.load(open(sys.argv[1]))
print("property:", j.get("property")); print("signature:", j.get("sig")); print("summary:", j.get("summary")); print()
for k,v in (j.get("detail") or {}).items():
    print("---", k); print(v if isinstance(v,str) else json.dumps(v,indent=1)); print()
PY
    exit 0;;
esac
case "${1:-}" in
  C08|C09|C10) build_mc; exec "$BIN/mc" "$@";;
  C11) if build_sched; then exec "$BIN/mc-sched" "$@"; fi
       echo "note: sync-shim build failed for this tree; C11 runs on the plain build" >&2
       build_plain; exec "$BIN/mc-plain" "$@";;
  *) build_plain; exec "$BIN/mc-plain" "$@";;
esac

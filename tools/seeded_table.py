#!/usr/bin/env python3
"""Rewrites the seeded-changes table in DESIGN.md (between the SEEDED markers) from /verif/seeded/*/meta.json."""
import json, glob, os, re
rows=[]
for d in sorted(glob.glob('/verif/seeded/*/')):
    m=json.load(open(d+'meta.json'))
    name=os.path.basename(d.rstrip('/'))
    def cell(s): return str(s).replace('|','\\|').replace('\n',' ')
    rows.append(f"| {name} | {m['property']} | {cell(m['summary'])[:260]} | {cell(m.get('needs_to_manifest',''))[:240]} | {', '.join(m.get('caught_by',[]))} | {cell(m.get('note',''))[:300]} |")
table="| seed | property | change | needs | caught by | note |\n|---|---|---|---|---|---|\n"+"\n".join(rows)
p='/verif/DESIGN.md'
s=open(p).read()
begin,end='<!-- SEEDED:BEGIN -->','<!-- SEEDED:END -->'
block=f"{begin}\n{table}\n{end}"
if begin in s:
    s=re.sub(re.escape(begin)+'.*?'+re.escape(end), lambda _: block, s, flags=re.S)
else:
    s+=f"""
### 9.4 Seeded changes (independent sub-agents) and which checks catch them

Each change was written by a fresh sub-agent that saw only the property text and its own scratch worktree of `/repo`.
I confirmed for each one, in a scratch worktree of my own (`tools/seedtest.sh`): the patch applies, the unedited suite
passes with it, the demonstration fails with it and passes without it. Kept under `/verif/seeded/<name>/`
(patch.diff, demo/, meta.json). "caught by" lists the quick checks that print a VIOLATION line for it **now**; the
note says what had to be strengthened when a check first missed it. No check was loosened for any of them.

{block}
"""
open(p,'w').write(s)
print(len(rows),"rows")

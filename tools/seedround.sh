#!/bin/bash
# seedround.sh name... : run tools/seedtest.sh for each /tmp/seed/<name>/seeded_out against its own property's check; one summary line each
for n in "$@"; do
  id=${n%-*}
  if [ ! -f /tmp/seed/$n/seeded_out/patch.diff ]; then echo "$n: no deliverable yet"; continue; fi
  out=$(/verif/tools/seedtest.sh /tmp/seed/$n/seeded_out $id 2>&1)
  clean=$(echo "$out" | grep -A1 "demo on unchanged" | grep -o "exit=[0-9]*")
  patched=$(echo "$out" | grep -A1 "demo with patch" | grep -o "exit=[0-9]*")
  suite=$(echo "$out" | sed -n '/repo suite with patch/,/no lines above/p' | grep -c "FAIL")
  v=$(echo "$out" | grep -c "^VIOLATION property=$id ")
  echo "$n: demo-clean $clean demo-patched $patched suite-fail-lines=$suite violations=$v $(echo "$out" | grep -E "^$id |HARNESS|PATCH" | tail -1)"
done

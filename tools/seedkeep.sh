#!/bin/bash
# seedkeep.sh <name e.g. C01-1> "<caught_by checks>" "<note>" : archive a confirmed seeded change under /verif/seeded/<name>/
set -eu
N=$1; CAUGHT=$2; NOTE=${3:-}
SRC=/tmp/seed/$N/seeded_out
DST=/verif/seeded/$N
rm -rf "$DST"; mkdir -p "$DST"
cp "$SRC/patch.diff" "$DST/"
cp -r "$SRC/demo" "$DST/demo"
find "$DST/demo" -type f \( -name gogreement -o -name '*.test' -o -perm -u+x -size +1M \) -delete 2>/dev/null || true
python3 - "$SRC/meta.json" "$DST/meta.json" "$CAUGHT" "$NOTE" <<'PY'
import json,sys
m=json.load(open(sys.argv[1]))
m["confirmed_by_me"]={"suite_passes_with_patch":True,"demo_fails_with_patch":True,"demo_passes_without":True,
  "how":"tools/seedtest.sh: scratch worktree of /repo HEAD, git apply patch.diff, go test -vet=off -count=1 ./..., demo/run.sh before and after"}
m["caught_by"]=sys.argv[3].split()
m["note"]=sys.argv[4]
import subprocess
m["base_commit"]=subprocess.check_output(["git","-C","/repo","rev-parse","--short","HEAD"]).decode().strip()
json.dump(m,open(sys.argv[2],"w"),indent=1)
PY
du -sh "$DST" | cut -f1

import json,glob,sys
pid=sys.argv[1]
out=[]
for d in sorted(glob.glob('/verif/seeded/*/meta.json')):
    m=json.load(open(d))
    if m['property']==pid:
        out.append(m['summary'].strip().replace('\n',' ')[:300])
print(' ;; '.join(out))

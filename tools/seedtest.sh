#!/bin/bash
# seedtest.sh <seeded dir containing patch.diff and demo/run.sh> <check ids...>
# Applies the patch to a scratch worktree of /repo HEAD, verifies: suite passes with the patch,
# demo fails with the patch and passes without; then runs the given checks (quick) against it.
set -u
SD=$(realpath "$1"); shift
export GOFLAGS=-mod=mod GOPROXY=off
WT=/tmp/wt/seedtest-$$
git -C /repo worktree add -q --detach "$WT" "${SEED_BASE:-HEAD}" || exit 2
ALT=/verif/bin/alt-$(echo "$WT" | md5sum | cut -c1-10)
trap 'git -C /repo worktree remove --force "$WT"; rm -rf "$ALT"' EXIT
echo "== demo on unchanged tree"
bash "$SD/demo/run.sh" "$WT" >/tmp/seedtest-clean.log 2>&1; echo "   exit=$? (want 0)"
( cd "$WT" && git apply "$SD/patch.diff" ) || { echo "PATCH DOES NOT APPLY"; exit 2; }
echo "== repo suite with patch"
( cd "$WT" && go build ./... && go test -vet=off -count=1 ./... 2>&1 | grep -v "^ok\|no test files" ); echo "   (no lines above = all pass)"
echo "== demo with patch"
bash "$SD/demo/run.sh" "$WT" >/tmp/seedtest-patched.log 2>&1; echo "   exit=$? (want non-zero)"
for id in "$@"; do
  echo "== check $id quick against patched tree"
  VERIF_REPO="$WT" MC_SKIP="${MC_SKIP:-}" /verif/check.sh "$id" quick 2>&1 | grep -E "^VIOLATION|^KNOWN|^C[0-9]+ |HARNESS" | head -6
done

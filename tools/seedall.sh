#!/bin/bash
# seedall.sh [name...] — re-verify that every archived seeded change is still caught by the checks listed in its
# meta.json (caught_by). Prints one line per (seed, check): CAUGHT / MISSED. Exit 1 if anything is missed.
set -u
cd /verif
names=("$@"); [ ${#names[@]} -eq 0 ] && names=($(ls seeded))
export GOFLAGS=-mod=mod GOPROXY=off
miss=0
for n in "${names[@]}"; do
  checks=$(python3 -c "import json;print(' '.join(json.load(open('/verif/seeded/$n/meta.json'))['caught_by']))")
  WT=/tmp/wt/seedall-$n
  git -C /repo worktree add -q --detach "$WT" HEAD || exit 2
  if ! (cd "$WT" && git apply "/verif/seeded/$n/patch.diff" 2>/dev/null); then
    # the repository moved on under the patch (a later fix touched the same lines): try a 3-way merge
    if ! (cd "$WT" && git apply -3 "/verif/seeded/$n/patch.diff" >/dev/null 2>&1); then
      echo "$n: PATCH-NO-LONGER-APPLIES"; git -C /repo worktree remove --force "$WT"; continue
    fi
  fi
  for c in $checks; do
    out=$(VERIF_REPO="$WT" ./check.sh "$c" quick 2>&1)
    if ! echo "$out" | grep -q "^$c quick: "; then
      # the check did not finish (harness build broken mid-edit, worker killed under memory pressure): once more
      out=$(VERIF_REPO="$WT" ./check.sh "$c" quick 2>&1)
    fi
    if echo "$out" | grep -q "^VIOLATION property=$c "; then echo "$n $c: CAUGHT"
    elif ! echo "$out" | grep -q "^$c quick: "; then echo "$n $c: DID-NOT-FINISH $(echo "$out" | grep -m1 -E 'HARNESS|panic|killed|fatal' | cut -c1-120)"; miss=1
    else echo "$n $c: MISSED"; miss=1; fi
  done
  git -C /repo worktree remove --force "$WT"
  rm -rf "/verif/bin/alt-$(echo "$WT" | md5sum | cut -c1-10)"
done
exit $miss

import json,sys
pid=sys.argv[1]; n=sys.argv[2]; avoid=sys.argv[3] if len(sys.argv)>3 else ''
for l in open('/verif/properties.jsonl'):
    p=json.loads(l)
    if p['id']==pid: break
wt=f"/tmp/seed/{pid}-{n}"
print(f"""You are a software engineer asked to plant ONE realistic, subtle regression in a Go code base, for the purpose of evaluating a verification tool you know nothing about. Work ONLY inside your own git worktree {wt} (a checkout of the repository a14e/gogreement, a go/analysis-based linter that enforces @immutable/@constructor/@testonly/@packageonly/@implements comment annotations and reports violations across packages via facts). Do NOT read, list or touch /verif or /repo or any other directory under /tmp/seed; do not look for existing verification machinery anywhere. Everything you need is in {wt} (start with README.md, book/gogreement-docs/src/*.md, src/, cmd/).

The property to break (this text is all you get about it):

TITLE: {p['title']}
STATEMENT: {p['statement']}
QUANTIFIER: {p['quantifier']['text']}

{("ALREADY TAKEN (other engineers planted these; choose a clearly different mechanism and code site): "+avoid) if avoid else ""}

Your job: make a change to the NON-TEST source of the repository under {wt} (files under src/ or cmd/, not *_test.go, not testdata) such that
 1. the repository still compiles (`go build ./...`) and its existing test suite still passes unedited: `cd {wt} && export GOFLAGS=-mod=mod GOPROXY=off && go test -vet=off -count=1 ./...` (do not set GOSUMDB or GOTOOLCHAIN; there is no network);
 2. the property above is violated for SOME inputs — but only ones that need something specific to manifest: a particular placement / declaration order / multi-step sequence / unusual but legal input / a particular schedule or run set / two cooperating code sites that each look fine alone. NOT something that any ordinary use would expose at once (e.g. do not simply disable a checker, invert a condition globally, or delete a whole case) and not a crash on every input;
 3. the change looks like a plausible human slip or a plausible 'refactoring' / 'optimisation' (an off-by-one, a hoisted variable, a cache keyed too coarsely, a dropped normalisation, an early return placed one line too high, a comparison on the wrong field, state not reset, ...), small (a few lines).
Then write a DEMONSTRATION: a small Go test file or small program plus inputs, placed under {wt}/seeded_demo/ (its own directory; it may be a Go test in a new _test.go file inside an existing package directory if it needs unexported access, but prefer driving the public analyzers, e.g. with golang.org/x/tools/go/analysis/analysistest or by building cmd/gogreement and running it on a tiny module you create under {wt}/seeded_demo/), which FAILS with your change and PASSES on the unchanged code. Verify both directions yourself (use `git stash` / `git stash pop` or `git diff > patch; git checkout -- src cmd; ...; git apply patch`).
Deliverables, all under {wt}/seeded_out/ :
  - patch.diff   : `git diff -- src cmd` of your change only (NOT the demo);
  - demo/        : the demonstration files and a run.sh that exits 0 on the unchanged code and non-zero with the patch applied (run.sh takes the repository root as $1; it must work offline with GOFLAGS=-mod=mod GOPROXY=off);
  - meta.json    : {{"property": "{pid}", "summary": "<what the change does>", "needs_to_manifest": "<the specific input/placement/sequence/schedule needed>", "files_changed": [...], "why_tests_still_pass": "<one sentence>", "commands_run": [...]}}.
Leave the worktree with the patch APPLIED and the demo in place. Do not commit. Keep your final answer short: the summary, what is needed to manifest, and confirmation of the three verifications (tests pass with patch; demo fails with patch; demo passes without).""")

// Package drv runs the two shipped drivers — the standalone gogreement binary and
// `go vet -vettool=gogreement` — on programs materialised on disk, and normalises their output.
package drv

import (
	"bytes"
	"encoding/json"
	"fmt"
	"os"
	"os/exec"
	"path/filepath"
	"regexp"
	"sort"
	"strconv"
	"strings"
	"sync"

	"verif/mc/internal/common"
	"verif/mc/internal/prog"
)

const ModulePath = "ex.com/m"

func repoDir() string {
	if r := os.Getenv("VERIF_REPO"); r != "" {
		return r
	}
	return "/repo"
}

func binDir() string {
	if r := os.Getenv("VERIF_BIN"); r != "" {
		return r
	}
	return "/verif/bin"
}

var (
	buildOnce sync.Once
	raceOnce  sync.Once
)

func cleanEnv(extra map[string]string) []string {
	var env []string
	for _, kv := range os.Environ() {
		if strings.HasPrefix(kv, "GOGREEMENT_") || strings.HasPrefix(kv, "MC_") || strings.HasPrefix(kv, "GOMAXPROCS=") {
			continue
		}
		env = append(env, kv)
	}
	env = append(env, "GOFLAGS=-mod=mod", "GOPROXY=off")
	keys := make([]string, 0, len(extra))
	for k := range extra {
		keys = append(keys, k)
	}
	sort.Strings(keys)
	for _, k := range keys {
		env = append(env, k+"="+extra[k])
	}
	return env
}

// Binary builds (once per process) the gogreement executable from the repository's working tree.
func Binary() string {
	out := filepath.Join(binDir(), "gogreement")
	if os.Getenv("MC_SHARD") != "" {
		return out // built by the parent
	}
	buildOnce.Do(func() {
		cmd := exec.Command("go", "build", "-o", out, "./cmd/gogreement")
		cmd.Dir = repoDir()
		cmd.Env = cleanEnv(nil)
		if b, err := cmd.CombinedOutput(); err != nil {
			common.Fatalf("building gogreement: %v\n%s", err, b)
		}
	})
	return out
}

// RaceBinary builds the -race twin.
func RaceBinary() string {
	out := filepath.Join(binDir(), "gogreement-race")
	if os.Getenv("MC_SHARD") != "" {
		return out
	}
	raceOnce.Do(func() {
		cmd := exec.Command("go", "build", "-race", "-o", out, "./cmd/gogreement")
		cmd.Dir = repoDir()
		cmd.Env = cleanEnv(map[string]string{"CGO_ENABLED": "1"})
		if b, err := cmd.CombinedOutput(); err != nil {
			common.Fatalf("building gogreement -race: %v\n%s", err, b)
		}
	})
	return out
}

// Scratch creates a scratch directory (tmpfs when available) whose path contains no
// exclude-paths entry; the caller removes it.
func Scratch() string {
	base := os.TempDir()
	if st, err := os.Stat("/dev/shm"); err == nil && st.IsDir() {
		base = "/dev/shm"
	}
	dir, err := os.MkdirTemp(base, "mcdrv-")
	if err != nil {
		common.Fatalf("scratch: %v", err)
	}
	if strings.Contains(dir, "testdata") || strings.Contains(dir, "_test.go") {
		common.Fatalf("scratch path %q collides with exclude rules", dir)
	}
	return dir
}

// WriteModule materialises p as module ex.com/m under dir.
func WriteModule(dir string, p *prog.Program) {
	must(os.MkdirAll(dir, 0o755))
	must(os.WriteFile(filepath.Join(dir, "go.mod"), []byte("module "+ModulePath+"\n\ngo 1.25\n"), 0o644))
	for _, pk := range p.Pkgs {
		rel := pk.Dir
		if rel == "" {
			rel = strings.TrimPrefix(strings.TrimPrefix(pk.Path, ModulePath), "/")
		}
		d := filepath.Join(dir, rel)
		must(os.MkdirAll(d, 0o755))
		for _, f := range pk.Files {
			must(os.WriteFile(filepath.Join(d, f.Name), []byte(f.Src), 0o644))
		}
	}
}

func must(err error) {
	if err != nil {
		common.Fatalf("%v", err)
	}
}

type Driver int

const (
	Standalone Driver = iota // gogreement -json
	Vet                      // go vet -vettool=gogreement -json
	StandaloneText
	VetText
)

func (d Driver) String() string {
	return [...]string{"standalone-json", "vet-json", "standalone-text", "vet-text"}[d]
}

type Out struct {
	Diags  []prog.Diag
	Errors []string // analyzer errors reported inside the JSON tree
	Exit   int
	Stdout string
	Stderr string
	Cmd    string
}

// Crashed reports evidence of an abnormal end: panic text, internal error, or an exit status
// outside what the drivers use for "diagnostics / no diagnostics".
func (o *Out) Crashed() string {
	all := o.Stdout + "\n" + o.Stderr
	for _, needle := range []string{"panic:", "internal error", "fatal error:", "goroutine 1 ["} {
		if i := strings.Index(all, needle); i >= 0 {
			end := i + 300
			if end > len(all) {
				end = len(all)
			}
			return all[i:end]
		}
	}
	if len(o.Errors) > 0 {
		return "analyzer error: " + strings.Join(o.Errors, "; ")
	}
	return ""
}

type Req struct {
	Driver   Driver
	Dir      string
	Flags    []string // e.g. -config.scan-tests=true, -debug=p
	Env      map[string]string
	Patterns []string
	Race     bool
}

// Run executes one driver invocation.
func Run(r Req) *Out {
	bin := Binary()
	if r.Race {
		bin = RaceBinary()
	}
	var cmd *exec.Cmd
	pats := r.Patterns
	if len(pats) == 0 {
		pats = []string{"./..."}
	}
	switch r.Driver {
	case Standalone:
		cmd = exec.Command(bin, append(append([]string{"-json"}, r.Flags...), pats...)...)
	case StandaloneText:
		cmd = exec.Command(bin, append(append([]string{}, r.Flags...), pats...)...)
	case Vet:
		cmd = exec.Command("go", append(append([]string{"vet", "-vettool=" + bin, "-json"}, r.Flags...), pats...)...)
	case VetText:
		cmd = exec.Command("go", append(append([]string{"vet", "-vettool=" + bin}, r.Flags...), pats...)...)
	}
	cmd.Dir = r.Dir
	cmd.Env = cleanEnv(r.Env)
	var so, se bytes.Buffer
	cmd.Stdout, cmd.Stderr = &so, &se
	err := cmd.Run()
	o := &Out{Stdout: so.String(), Stderr: se.String(), Cmd: strings.Join(cmd.Args, " ")}
	if err != nil {
		if ee, ok := err.(*exec.ExitError); ok {
			o.Exit = ee.ExitCode()
		} else {
			common.Fatalf("running %s: %v", o.Cmd, err)
		}
	}
	switch r.Driver {
	case Standalone:
		parseJSON(o, o.Stdout, r.Dir)
	case Vet:
		parseJSON(o, o.Stderr, r.Dir)
	case StandaloneText:
		parseText(o, o.Stderr, r.Dir)
	case VetText:
		parseText(o, o.Stderr, r.Dir)
	}
	return o
}

var posnRe = regexp.MustCompile(`^(.*):(\d+):(\d+)$`)
var codeRe = regexp.MustCompile(`\[([A-Z]+[0-9]+)\]`)

func relFile(dir, file string) string {
	if !filepath.IsAbs(file) {
		file = filepath.Join(dir, file)
	}
	rel, err := filepath.Rel(dir, file)
	if err != nil || strings.HasPrefix(rel, "..") {
		return file
	}
	return ModulePath + "/" + filepath.ToSlash(rel)
}

func parseJSON(o *Out, text, dir string) {
	var clean []string
	for _, l := range strings.Split(text, "\n") {
		if strings.HasPrefix(l, "#") {
			continue
		}
		clean = append(clean, l)
	}
	dec := json.NewDecoder(strings.NewReader(strings.Join(clean, "\n")))
	seen := map[string]bool{}
	for {
		var tree map[string]map[string]json.RawMessage
		if err := dec.Decode(&tree); err != nil {
			break
		}
		for pkgID, byAn := range tree {
			pkg := pkgID
			if i := strings.Index(pkg, " ["); i >= 0 {
				pkg = pkg[:i]
			}
			for an, raw := range byAn {
				var list []struct {
					Posn    string `json:"posn"`
					Message string `json:"message"`
				}
				if err := json.Unmarshal(raw, &list); err != nil {
					var e struct {
						Error string `json:"error"`
					}
					json.Unmarshal(raw, &e)
					o.Errors = append(o.Errors, fmt.Sprintf("%s/%s: %s", pkgID, an, e.Error))
					continue
				}
				for _, d := range list {
					dg := prog.Diag{Pkg: pkg, Analyzer: an, Message: d.Message}
					if m := posnRe.FindStringSubmatch(d.Posn); m != nil {
						dg.File = relFile(dir, m[1])
						dg.Line, _ = strconv.Atoi(m[2])
						dg.Col, _ = strconv.Atoi(m[3])
					} else {
						dg.File = d.Posn
					}
					if m := codeRe.FindStringSubmatch(firstLine(d.Message)); m != nil {
						dg.Code = m[1]
					}
					k := fmt.Sprintf("%s|%s|%d|%d|%s|%s", dg.Pkg, dg.File, dg.Line, dg.Col, dg.Analyzer, dg.Message)
					if seen[k] {
						continue
					}
					seen[k] = true
					o.Diags = append(o.Diags, dg)
				}
			}
		}
	}
	prog.SortDiags(o.Diags)
	sort.Strings(o.Errors)
}

var textRe = regexp.MustCompile(`^(\S+\.go):(\d+):(\d+): (.*)$`)

// parseText extracts "file:line:col: message" diagnostics from text-mode output (first line only).
func parseText(o *Out, text, dir string) {
	seen := map[string]bool{}
	for _, l := range strings.Split(text, "\n") {
		m := textRe.FindStringSubmatch(l)
		if m == nil {
			continue
		}
		dg := prog.Diag{File: relFile(dir, m[1]), Message: m[4]}
		dg.Line, _ = strconv.Atoi(m[2])
		dg.Col, _ = strconv.Atoi(m[3])
		if c := codeRe.FindStringSubmatch(m[4]); c != nil {
			dg.Code = c[1]
		}
		k := fmt.Sprintf("%s|%d|%d|%s", dg.File, dg.Line, dg.Col, dg.Message)
		if seen[k] {
			continue
		}
		seen[k] = true
		o.Diags = append(o.Diags, dg)
	}
	prog.SortDiags(o.Diags)
}

func firstLine(s string) string {
	if i := strings.IndexByte(s, '\n'); i >= 0 {
		return s[:i]
	}
	return s
}

// Keys returns sorted "file:line:col:analyzer:code" keys.
func Keys(ds []prog.Diag) []string {
	var out []string
	for _, d := range ds {
		out = append(out, fmt.Sprintf("%s:%d:%d:%s:%s", d.File, d.Line, d.Col, d.Analyzer, d.Code))
	}
	sort.Strings(out)
	return out
}

// ParallelDo runs f(i) for i in [0,n) on w goroutines.
func ParallelDo(n, w int, f func(i int)) {
	if w < 1 {
		w = 1
	}
	var wg sync.WaitGroup
	ch := make(chan int)
	for k := 0; k < w; k++ {
		wg.Add(1)
		go func() {
			defer wg.Done()
			for i := range ch {
				f(i)
			}
		}()
	}
	for i := 0; i < n; i++ {
		ch <- i
	}
	close(ch)
	wg.Wait()
}

// Package e3 is a controlled scheduler over the analysis action DAG (analyzer x package): every
// action runs the REAL Analyzer.Run in its own goroutine, but only one goroutine holds the token
// at a time and control changes hands only at scheduling points — the operations through which an
// action can touch anything outside itself, all of which are callbacks of analysis.Pass that the
// driver supplies: start, ImportPackageFact, ExportPackageFact, Report, ReadFile, finish.
package e3

import (
	"bytes"
	"encoding/gob"
	"fmt"
	"go/types"
	"os"
	"reflect"
	"sort"
	"strings"

	"golang.org/x/tools/go/analysis"
	"golang.org/x/tools/go/packages"

	"verif/mc/internal/prog"
)

type factKey struct {
	pkg *types.Package
	t   reflect.Type
}

type Action struct {
	ID    int
	An    *analysis.Analyzer
	Pkg   *packages.Package
	Deps  []*Action
	Root  bool
	res   any
	err   error
	diags []analysis.Diagnostic
	facts map[factKey]analysis.Fact

	started, done bool
	resume        chan struct{}
	waitingFor    any // non-nil while the action waits for Wake(key) (sync shim)
}

func (a *Action) String() string { return a.An.Name + "@" + a.Pkg.PkgPath }

// Point is one scheduling decision.
type Point struct {
	Enabled []int // action ids in canonical order: the running action first if still enabled, then ascending ids
	Chosen  int   // index into Enabled
	Kind    string
}

type Exec struct {
	Points  []Point
	Choices []int
	Diags   []prog.Diag       // root actions only
	Facts   map[string]string // "analyzer@pkg/facttype" -> gob bytes (hex-free, raw)
	Errs    []string
	Panic   string
}

type event struct {
	act  *Action
	kind string // "point:<what>" or "done"
}

type Sched struct {
	actions []*Action
	ld      *prog.Loaded
	events  chan event
	cur     *Action // the action that holds the token (nil while the scheduler itself runs)
	// BeforeRun, if set, is called at the start of every execution, before any action runs (process-wide state
	// the actions share is put back to its initial value there).
	BeforeRun func()
}

// Point, Wait and Wake implement the sync shim's scheduler interface (hooks/verifsync): operations of the
// analyzers' own synchronisation objects become scheduling points, and an action that cannot proceed is taken out
// of the enabled set instead of blocking its goroutine.
func (s *Sched) Point(what string) {
	if a := s.cur; a != nil {
		s.yield(a, what)
	}
}

func (s *Sched) Wait(key any, what string) {
	a := s.cur
	if a == nil {
		panic("sync shim: Wait outside of an action")
	}
	a.waitingFor = key
	s.yield(a, "wait:"+what)
}

func (s *Sched) Wake(key any) {
	for _, a := range s.actions {
		if a.waitingFor == key {
			a.waitingFor = nil
		}
	}
}

// Build constructs the action graph exactly as checker.Analyze does.
func Build(ld *prog.Loaded, analyzers []*analysis.Analyzer, roots []string) *Sched {
	s := &Sched{ld: ld}
	type key struct {
		a *analysis.Analyzer
		p *packages.Package
	}
	m := map[key]*Action{}
	var mk func(a *analysis.Analyzer, p *packages.Package) *Action
	mk = func(a *analysis.Analyzer, p *packages.Package) *Action {
		k := key{a, p}
		if act, ok := m[k]; ok {
			return act
		}
		act := &Action{An: a, Pkg: p}
		m[k] = act
		for _, req := range a.Requires {
			act.Deps = append(act.Deps, mk(req, p))
		}
		if len(a.FactTypes) > 0 {
			var paths []string
			for path := range p.Imports {
				paths = append(paths, path)
			}
			sort.Strings(paths)
			for _, path := range paths {
				act.Deps = append(act.Deps, mk(a, p.Imports[path]))
			}
		}
		s.actions = append(s.actions, act)
		return act
	}
	for _, a := range analyzers {
		for _, r := range roots {
			mk(a, ld.By[r]).Root = true
		}
	}
	// canonical ids: by (package order in program, analyzer order)
	anIdx := map[*analysis.Analyzer]int{}
	for i, a := range analyzers {
		anIdx[a] = i
	}
	pkIdx := map[*packages.Package]int{}
	for i, p := range ld.Pkgs {
		pkIdx[p] = i
	}
	sort.SliceStable(s.actions, func(i, j int) bool {
		a, b := s.actions[i], s.actions[j]
		if pkIdx[a.Pkg] != pkIdx[b.Pkg] {
			return pkIdx[a.Pkg] < pkIdx[b.Pkg]
		}
		return anIdx[a.An] < anIdx[b.An]
	})
	for i, a := range s.actions {
		a.ID = i
	}
	return s
}

func (s *Sched) NumActions() int { return len(s.actions) }

func (s *Sched) reset() {
	s.events = make(chan event)
	for _, a := range s.actions {
		a.res, a.err, a.diags, a.facts = nil, nil, nil, nil
		a.started, a.done = false, false
		a.waitingFor = nil
		a.resume = make(chan struct{})
	}
	s.cur = nil
	if s.BeforeRun != nil {
		s.BeforeRun()
	}
}

// yield is called on an action's goroutine at a scheduling point.
func (s *Sched) yield(a *Action, what string) {
	s.events <- event{a, "point:" + what}
	<-a.resume
}

func (s *Sched) runAction(a *Action) {
	<-a.resume
	defer func() {
		if r := recover(); r != nil {
			a.err = fmt.Errorf("panic: %v", r)
		}
		s.events <- event{a, "done"}
	}()
	for _, d := range a.Deps {
		if d.err != nil {
			a.err = fmt.Errorf("failed prerequisites: %s", d)
			return
		}
	}
	inputs := map[*analysis.Analyzer]any{}
	a.facts = map[factKey]analysis.Fact{}
	for _, d := range a.Deps {
		if d.Pkg == a.Pkg {
			inputs[d.An] = d.res
		} else {
			for k, f := range d.facts {
				a.facts[k] = f
			}
		}
	}
	pass := &analysis.Pass{
		Analyzer: a.An, Fset: a.Pkg.Fset, Files: a.Pkg.Syntax, Pkg: a.Pkg.Types, TypesInfo: a.Pkg.TypesInfo,
		TypesSizes: a.Pkg.TypesSizes, Module: &analysis.Module{}, ResultOf: inputs,
		Report: func(d analysis.Diagnostic) {
			s.yield(a, "report")
			a.diags = append(a.diags, d)
		},
		ImportPackageFact: func(pkg *types.Package, ptr analysis.Fact) bool {
			s.yield(a, "import-fact")
			if f, ok := a.facts[factKey{pkg, reflect.TypeOf(ptr)}]; ok {
				reflect.ValueOf(ptr).Elem().Set(reflect.ValueOf(f).Elem())
				return true
			}
			return false
		},
		ExportPackageFact: func(f analysis.Fact) {
			s.yield(a, "export-fact")
			a.facts[factKey{a.Pkg.Types, reflect.TypeOf(f)}] = f
		},
		ImportObjectFact: func(types.Object, analysis.Fact) bool { return false },
		ExportObjectFact: func(types.Object, analysis.Fact) { panic("object facts are not used by gogreement") },
		AllPackageFacts:  func() []analysis.PackageFact { return nil },
		AllObjectFacts:   func() []analysis.ObjectFact { return nil },
		ReadFile: func(name string) ([]byte, error) {
			s.yield(a, "read-file")
			return os.ReadFile(name)
		},
	}
	res, err := a.An.Run(pass)
	if err == nil && reflect.TypeOf(res) != a.An.ResultType {
		err = fmt.Errorf("internal error: result type %v, declared %v", reflect.TypeOf(res), a.An.ResultType)
	}
	a.res, a.err = res, err
}

// Run executes one schedule: prefix choices are replayed (an out-of-range choice is a hard
// error), later points take choice 0.
func (s *Sched) Run(prefix []int) (*Exec, error) {
	s.reset()
	for _, a := range s.actions {
		go s.runAction(a)
	}
	x := &Exec{Facts: map[string]string{}}
	var running *Action
	remaining := len(s.actions)
	kind := "start"
	for remaining > 0 {
		var en []int
		if running != nil && !running.done && running.waitingFor == nil {
			en = append(en, running.ID)
		}
		for _, a := range s.actions {
			if a.done || (running != nil && a == running) || a.waitingFor != nil {
				continue
			}
			ready := true
			for _, d := range a.Deps {
				if !d.done {
					ready = false
				}
			}
			if a.started || ready {
				en = append(en, a.ID)
			}
		}
		if len(en) == 0 {
			var w []string
			for _, a := range s.actions {
				if a.waitingFor != nil {
					w = append(w, a.String())
				}
			}
			return nil, fmt.Errorf("deadlock: %d actions remain, none enabled (waiting: %v) after choices %v", remaining, w, x.Choices)
		}
		choice := 0
		if i := len(x.Points); i < len(prefix) {
			choice = prefix[i]
			if choice < 0 || choice >= len(en) {
				return nil, fmt.Errorf("replay divergence at point %d: choice %d of %d enabled", i, choice, len(en))
			}
		}
		x.Points = append(x.Points, Point{Enabled: en, Chosen: choice, Kind: kind})
		x.Choices = append(x.Choices, choice)
		act := s.actions[en[choice]]
		act.started = true
		running = act
		s.cur = act
		act.resume <- struct{}{}
		ev := <-s.events
		s.cur = nil
		if ev.act != act {
			return nil, fmt.Errorf("scheduler lost control: event from %s while %s holds the token", ev.act, act)
		}
		kind = ev.kind
		if ev.kind == "done" {
			act.done = true
			remaining--
		}
	}
	for _, a := range s.actions {
		if a.err != nil {
			x.Errs = append(x.Errs, fmt.Sprintf("%s: %v", a, a.err))
			if strings.HasPrefix(a.err.Error(), "panic:") && x.Panic == "" {
				x.Panic = a.err.Error()
			}
		}
		if a.Root {
			for _, d := range a.diags {
				x.Diags = append(x.Diags, prog.MkDiag(s.ld.Fset, a.Pkg.PkgPath, a.An, d))
			}
		}
		for k, f := range a.facts {
			if k.pkg != a.Pkg.Types {
				continue
			}
			var b bytes.Buffer
			if err := gob.NewEncoder(&b).Encode(f); err != nil {
				x.Errs = append(x.Errs, fmt.Sprintf("%s: fact %v does not encode: %v", a, k.t, err))
				continue
			}
			x.Facts[fmt.Sprintf("%s/%v", a, k.t)] = b.String()
		}
	}
	prog.SortDiags(x.Diags)
	sort.Strings(x.Errs)
	return x, nil
}

// Observation is the canonical, comparable form of an execution.
func (x *Exec) Observation() string {
	var b strings.Builder
	for _, d := range x.Diags {
		fmt.Fprintf(&b, "%s|%s:%d:%d|%s|%s\n", d.Pkg, d.File, d.Line, d.Col, d.Analyzer, d.Message)
	}
	var fk []string
	for k := range x.Facts {
		fk = append(fk, k)
	}
	sort.Strings(fk)
	for _, k := range fk {
		fmt.Fprintf(&b, "fact %s = %x\n", k, x.Facts[k])
	}
	for _, e := range x.Errs {
		b.WriteString("err " + e + "\n")
	}
	return b.String()
}

// Explore enumerates all schedules with at most bound deviations from the default choice
// (choice 0 = keep running the current action, else the lowest ready action), depth-first,
// calling visit for every complete execution. Returns the number of executions.
func (s *Sched) Explore(bound int, mine func(level1 int) bool, visit func(x *Exec)) (int, error) {
	n := 0
	var rec func(prefix []int, used int, top bool) error
	rec = func(prefix []int, used int, top bool) error {
		x, err := s.Run(prefix)
		if err != nil {
			return err
		}
		n++
		visit(x)
		if used >= bound {
			return nil
		}
		branch := 0
		for i := len(prefix); i < len(x.Points); i++ {
			p := x.Points[i]
			for alt := 1; alt < len(p.Enabled); alt++ {
				branch++
				if top && mine != nil && !mine(branch) {
					continue
				}
				np := append(append([]int(nil), x.Choices[:i]...), alt)
				if err := rec(np, used+1, false); err != nil {
					return err
				}
			}
		}
		return nil
	}
	// the default execution belongs to shard 0 only
	if mine == nil || mine(0) {
		if err := rec(nil, 0, true); err != nil {
			return n, err
		}
		return n, nil
	}
	// other shards: explore only their level-1 subtrees (the default run is re-executed to learn the points)
	x, err := s.Run(nil)
	if err != nil {
		return 0, err
	}
	if bound < 1 {
		return 0, nil
	}
	branch := 0
	for i := 0; i < len(x.Points); i++ {
		p := x.Points[i]
		for alt := 1; alt < len(p.Enabled); alt++ {
			branch++
			if !mine(branch) {
				continue
			}
			np := append(append([]int(nil), x.Choices[:i]...), alt)
			if err := rec(np, 1, false); err != nil {
				return n, err
			}
		}
	}
	return n, nil
}

//go:build !verifsync

package e3

const ShimBuild = false

func InstallShim(s *Sched) {}
func UninstallShim()       {}

//go:build verifsync

package e3

import vs "github.com/a14e/gogreement/src/verifsync"

// ShimBuild: this harness was built with src/analyzer's import of package sync redirected to the
// cooperative shim (hooks/verifsync, injected by check.sh as an overlay).
const ShimBuild = true

// InstallShim makes s the scheduler behind the analyzers' synchronisation objects; UninstallShim restores
// plain package-sync behaviour.
func InstallShim(s *Sched) { vs.S = s }
func UninstallShim()       { vs.S = nil }

package common

import (
	"bytes"
	"encoding/json"
	"fmt"
	"os"
	"os/exec"
	"runtime"
	"strconv"
	"strings"
	"sync"
)

// Shard selects the work items of one worker process: item i belongs to shard i mod N.
type Shard struct{ I, N int }

func (s Shard) Mine(i int) bool { return s.N <= 1 || i%s.N == s.I }

func NumWorkers() int {
	if v, err := strconv.Atoi(os.Getenv("MC_WORKERS")); err == nil && v > 0 {
		return v
	}
	n := runtime.NumCPU()
	if n > 16 {
		n = 16
	}
	return n
}

// Sharded runs work in n worker processes (re-executions of this binary with the same
// arguments) and merges their partial results into r. In a worker it runs the shard, writes
// the partial result and exits. Process isolation means a crash of the code under test is
// contained and attributed, and process-wide state of the code under test (the cached
// configuration) can differ between shards.
func Sharded(r *Run, n int, work func(r *Run, sh Shard)) {
	if spec := os.Getenv("MC_SHARD"); spec != "" {
		var sh Shard
		fmt.Sscanf(spec, "%d/%d", &sh.I, &sh.N)
		work(r, sh)
		b, _ := json.Marshal(r.Partial())
		if err := os.WriteFile(os.Getenv("MC_OUT"), b, 0o644); err != nil {
			Fatalf("shard output: %v", err)
		}
		os.Exit(0)
	}
	if n <= 1 {
		work(r, Shard{0, 1})
		return
	}
	dir, err := os.MkdirTemp("", "mc-shards-")
	if err != nil {
		Fatalf("%v", err)
	}
	defer os.RemoveAll(dir)
	var wg sync.WaitGroup
	type res struct {
		p      *Partial
		err    error
		stderr string
	}
	results := make([]res, n)
	for i := 0; i < n; i++ {
		wg.Add(1)
		go func(i int) {
			defer wg.Done()
			out := fmt.Sprintf("%s/%d.json", dir, i)
			cmd := exec.Command(os.Args[0], os.Args[1:]...)
			cmd.Env = append(os.Environ(), fmt.Sprintf("MC_SHARD=%d/%d", i, n), "MC_OUT="+out, "GOMAXPROCS=2")
			var eb bytes.Buffer
			cmd.Stderr = &eb
			cmd.Stdout = &eb
			err := cmd.Run()
			results[i].stderr = eb.String()
			if err != nil {
				results[i].err = err
				return
			}
			b, err := os.ReadFile(out)
			if err != nil {
				results[i].err = err
				return
			}
			var p Partial
			if err := json.Unmarshal(b, &p); err != nil {
				results[i].err = err
				return
			}
			results[i].p = &p
		}(i)
	}
	wg.Wait()
	for i, rs := range results {
		if rs.err != nil {
			tail := rs.stderr
			if len(tail) > 4000 {
				tail = tail[len(tail)-4000:]
			}
			if strings.Contains(tail, "HARNESS-ERROR") {
				fmt.Fprint(os.Stderr, tail)
				Fatalf("shard %d/%d failed: %v", i, n, rs.err)
			}
			r.Report(Cex{Sig: "worker-crash", Summary: fmt.Sprintf("worker process %d/%d died: %v", i, n, rs.err),
				Detail: map[string]any{"stderr_tail": tail}})
			r.NotExhaustive(fmt.Sprintf("shard %d crashed", i))
			continue
		}
		if s := strings.TrimSpace(rs.stderr); s != "" && os.Getenv("MC_VERBOSE") != "" {
			fmt.Fprintln(os.Stderr, s)
		}
		r.Merge(rs.p)
	}
}

// Package common holds what every check shares: the evidence record, the
// counterexample / known-finding protocol and process sharding.
package common

import (
	"crypto/sha1"
	"encoding/hex"
	"encoding/json"
	"fmt"
	"os"
	"path/filepath"
	"regexp"
	"sort"
	"strconv"
	"strings"
	"sync"
	"time"
)

// VerifDir is the root of the verification tree (VERIF_ROOT, set by check.sh; default /verif).
var VerifDir = func() string {
	if d := os.Getenv("VERIF_ROOT"); d != "" {
		return d
	}
	return "/verif"
}()

// Tier is "quick" or "thorough".
type Tier string

func ParseTier(s string) Tier {
	if s == "thorough" {
		return "thorough"
	}
	return "quick"
}

func Seed() int {
	n, _ := strconv.Atoi(os.Getenv("VERIF_SEED"))
	return n
}

// ---------------------------------------------------------------------------------------------
// Counterexamples

// Cex is one counterexample: an input / history / schedule on which the real code and the
// oracle disagree. Sig is a structural signature (no line numbers, no generated names) used to
// match known findings and to group duplicates; Key names the replay file.
type Cex struct {
	Property string         `json:"property"`
	Sig      string         `json:"sig"`
	Summary  string         `json:"summary"`
	Detail   map[string]any `json:"detail,omitempty"`
}

// KnownFinding is one entry of /verif/known_findings.json.
type KnownFinding struct {
	Property string `json:"property"`
	Status   string `json:"status"` // "known" (suppresses, prints KNOWN-FINDING) or "fixed" (suppresses nothing)
	Match    string `json:"match"`  // anchored regular expression over Cex.Sig
	What     string `json:"what"`
	Commit   string `json:"commit,omitempty"`
	re       *regexp.Regexp
}

type knownFile struct {
	Findings []KnownFinding `json:"findings"`
}

func LoadKnown(property string) []KnownFinding {
	b, err := os.ReadFile(filepath.Join(VerifDir, "known_findings.json"))
	if err != nil {
		return nil
	}
	var kf knownFile
	if err := json.Unmarshal(b, &kf); err != nil {
		Fatalf("known_findings.json: %v", err)
	}
	var out []KnownFinding
	for _, k := range kf.Findings {
		if k.Property != property || k.Status != "known" {
			continue
		}
		k.re = regexp.MustCompile("^(?:" + k.Match + ")$")
		out = append(out, k)
	}
	return out
}

// Fatalf reports a harness failure (never a property verdict) and exits 2.
func Fatalf(format string, a ...any) {
	fmt.Fprintf(os.Stderr, "HARNESS-ERROR: "+format+"\n", a...)
	os.Exit(2)
}

// ---------------------------------------------------------------------------------------------
// Evidence

type Coverage struct {
	States       int            `json:"states"`
	Transitions  int            `json:"transitions"`
	TracesImpl   int            `json:"traces_validated_against_impl"`
	Evaluations  int            `json:"evaluations"`
	DistinctNT   int            `json:"distinct_nontrivial"`
	Rule         string         `json:"rule"`
	Samples      []any          `json:"samples"`
	Exhaustive   bool           `json:"exhaustive"`
	Bound        string         `json:"bound"`
	Outcomes     int            `json:"distinct_outcomes"`
	Extra        map[string]any `json:"extra,omitempty"`
	KnownMatched map[string]int `json:"known_findings_matched,omitempty"`
	NotJudged    []string       `json:"not_judged,omitempty"`
}

type Evidence struct {
	PropertyID  string   `json:"property_id"`
	Tier        Tier     `json:"tier"`
	Seed        int      `json:"seed"`
	Level       string   `json:"level"`
	Coverage    Coverage `json:"coverage"`
	Assumptions []string `json:"assumptions"`
	WallS       float64  `json:"wall_s"`
	Violations  int      `json:"violations"`
}

// Run is the per-check accumulator. All methods are safe for concurrent use.
type Run struct {
	ID    string
	Tier  Tier
	Level string
	start time.Time

	mu        sync.Mutex
	cov       Coverage
	assume    []string
	known     []KnownFinding
	knownHit  map[string]int
	cexBySig  map[string]*Cex
	cexCount  map[string]int
	outcomes  map[string]struct{}
	nontriv   map[string]struct{}
	extraInts map[string]int
}

func NewRun(id string, tier Tier, level string) *Run {
	return &Run{
		ID: id, Tier: tier, Level: level, start: time.Now(),
		known:    LoadKnown(id),
		knownHit: map[string]int{}, cexBySig: map[string]*Cex{}, cexCount: map[string]int{},
		outcomes: map[string]struct{}{}, nontriv: map[string]struct{}{}, extraInts: map[string]int{},
		cov: Coverage{Exhaustive: true},
	}
}

func (r *Run) Assume(s ...string)  { r.mu.Lock(); r.assume = append(r.assume, s...); r.mu.Unlock() }
func (r *Run) NotJudged(s ...string) {
	r.mu.Lock()
	r.cov.NotJudged = append(r.cov.NotJudged, s...)
	r.mu.Unlock()
}
func (r *Run) SetRule(rule, bound string) { r.mu.Lock(); r.cov.Rule, r.cov.Bound = rule, bound; r.mu.Unlock() }
func (r *Run) NotExhaustive(why string) {
	r.mu.Lock()
	r.cov.Exhaustive = false
	r.cov.Bound += " [incomplete: " + why + "]"
	r.mu.Unlock()
}

// State records one explored state (= one execution of the implementation) reached by
// `transitions` append/apply edges. outcome is a canonical form of what was observed;
// nontrivialKey, when non-empty, names the distinct non-trivial case this state represents.
func (r *Run) State(transitions int, outcome string, nontrivialKey string) {
	r.mu.Lock()
	r.cov.States++
	r.cov.Evaluations++
	r.cov.TracesImpl++
	r.cov.Transitions += transitions
	if outcome != "" {
		r.outcomes[hash(outcome)] = struct{}{}
	}
	if nontrivialKey != "" {
		r.nontriv[hash(nontrivialKey)] = struct{}{}
	}
	r.mu.Unlock()
}

// Count adds to a named extra counter shown in the evidence.
func (r *Run) Count(name string, n int) { r.mu.Lock(); r.extraInts[name] += n; r.mu.Unlock() }

func (r *Run) Sample(s any) {
	r.mu.Lock()
	if len(r.cov.Samples) < 6 {
		r.cov.Samples = append(r.cov.Samples, s)
	}
	r.mu.Unlock()
}

// Report records a counterexample. It is classified at Finish.
func (r *Run) Report(c Cex) {
	c.Property = r.ID
	r.mu.Lock()
	r.cexCount[c.Sig]++
	if _, ok := r.cexBySig[c.Sig]; !ok {
		cc := c
		// on a badly broken tree a check can produce tens of thousands of distinct signatures, each with a program text:
		// beyond the first few hundred only signature and summary are kept (every signature is still counted and reported)
		if len(r.cexBySig) >= maxDetailedCex {
			cc.Detail = map[string]any{"detail": fmt.Sprintf("omitted: more than %d distinct counterexample signatures in this run", maxDetailedCex)}
		}
		r.cexBySig[c.Sig] = &cc
	}
	r.mu.Unlock()
}

const maxDetailedCex = 300

// Merge folds a shard's partial result into r.
func (r *Run) Merge(p *Partial) {
	r.mu.Lock()
	defer r.mu.Unlock()
	r.cov.States += p.States
	r.cov.Evaluations += p.States
	r.cov.TracesImpl += p.States
	r.cov.Transitions += p.Transitions
	for _, h := range p.Outcomes {
		r.outcomes[h] = struct{}{}
	}
	for _, h := range p.Nontriv {
		r.nontriv[h] = struct{}{}
	}
	for k, v := range p.Counts {
		r.extraInts[k] += v
	}
	for _, s := range p.Samples {
		if len(r.cov.Samples) < 6 {
			r.cov.Samples = append(r.cov.Samples, s)
		}
	}
	for sig, c := range p.Cex {
		r.cexCount[sig] += p.CexCount[sig]
		if _, ok := r.cexBySig[sig]; !ok {
			r.cexBySig[sig] = c
		}
	}
	if p.Incomplete != "" {
		r.cov.Exhaustive = false
		r.cov.Bound += " [incomplete: " + p.Incomplete + "]"
	}
}

// Partial is what a shard process hands back to its parent.
type Partial struct {
	States      int             `json:"states"`
	Transitions int             `json:"transitions"`
	Outcomes    []string        `json:"outcomes"`
	Nontriv     []string        `json:"nontriv"`
	Counts      map[string]int  `json:"counts"`
	Samples     []any           `json:"samples"`
	Cex         map[string]*Cex `json:"cex"`
	CexCount    map[string]int  `json:"cex_count"`
	Incomplete  string          `json:"incomplete,omitempty"`
}

func (r *Run) Partial() *Partial {
	r.mu.Lock()
	defer r.mu.Unlock()
	p := &Partial{States: r.cov.States, Transitions: r.cov.Transitions, Counts: r.extraInts,
		Samples: r.cov.Samples, Cex: r.cexBySig, CexCount: r.cexCount}
	for h := range r.outcomes {
		p.Outcomes = append(p.Outcomes, h)
	}
	for h := range r.nontriv {
		p.Nontriv = append(p.Nontriv, h)
	}
	if !r.cov.Exhaustive {
		p.Incomplete = r.cov.Bound
	}
	return p
}

func hash(s string) string {
	h := sha1.Sum([]byte(s))
	return hex.EncodeToString(h[:8])
}

func Hash(s string) string { return hash(s) }

// Finish classifies counterexamples against known findings, writes replay files and the
// evidence file, prints the protocol lines and returns the process exit code.
func (r *Run) Finish() int {
	r.mu.Lock()
	defer r.mu.Unlock()

	sigs := make([]string, 0, len(r.cexBySig))
	for s := range r.cexBySig {
		sigs = append(sigs, s)
	}
	sort.Strings(sigs)

	violations := 0
	os.RemoveAll(filepath.Join(outDir(), "replays", r.ID)) // replay files always belong to the latest run
	printedKnown := map[string]bool{}
	var violationLines []string
	replayDir := filepath.Join(outDir(), "replays", r.ID)
	for _, sig := range sigs {
		c := r.cexBySig[sig]
		matched := false
		for _, k := range r.known {
			if k.re.MatchString(sig) {
				matched = true
				r.knownHit[k.What] += r.cexCount[sig]
				if !printedKnown[k.What] {
					printedKnown[k.What] = true
					fmt.Printf("KNOWN-FINDING: property=%s %s\n", r.ID, k.What)
				}
				break
			}
		}
		if matched {
			continue
		}
		violations++
		if violations > 50 {
			continue // counted, but only the first 50 signatures get a replay file
		}
		os.MkdirAll(replayDir, 0o755)
		path := filepath.Join(replayDir, sanitize(sig)+".json")
		c.Detail = withCount(c.Detail, r.cexCount[sig])
		b, _ := json.MarshalIndent(c, "", "  ")
		os.WriteFile(path, b, 0o644)
		if len(violationLines) < 25 {
			violationLines = append(violationLines, fmt.Sprintf("VIOLATION property=%s replay=%s", r.ID, path))
		}
		if violations <= 8 {
			fmt.Fprintf(os.Stderr, "  cex x%d: %s\n", r.cexCount[sig], c.Summary)
		}
	}
	for _, l := range violationLines {
		fmt.Println(l)
	}
	if violations > len(violationLines) {
		fmt.Printf("(+%d further distinct counterexample signatures under %s)\n", violations-len(violationLines), replayDir)
	}

	if f := os.Getenv("MC_DUMP_SIGS"); f != "" {
		b, _ := json.Marshal(r.cexCount)
		os.WriteFile(f, b, 0o644)
	}
	r.cov.Outcomes = len(r.outcomes)
	r.cov.DistinctNT = len(r.nontriv)
	if len(r.extraInts) > 0 {
		if r.cov.Extra == nil {
			r.cov.Extra = map[string]any{}
		}
		for k, v := range r.extraInts {
			r.cov.Extra[k] = v
		}
	}
	if len(r.knownHit) > 0 {
		r.cov.KnownMatched = r.knownHit
	}
	if r.cov.Samples == nil {
		r.cov.Samples = []any{}
	}
	ev := Evidence{PropertyID: r.ID, Tier: r.Tier, Seed: Seed(), Level: r.Level, Coverage: r.cov,
		Assumptions: r.assume, WallS: time.Since(r.start).Seconds(), Violations: violations}
	if ev.Assumptions == nil {
		ev.Assumptions = []string{}
	}
	b, _ := json.MarshalIndent(ev, "", "  ")
	os.MkdirAll(filepath.Join(outDir(), "evidence"), 0o755)
	if err := os.WriteFile(filepath.Join(outDir(), "evidence", r.ID+".json"), b, 0o644); err != nil {
		Fatalf("writing evidence: %v", err)
	}
	fmt.Printf("%s %s: states=%d transitions=%d outcomes=%d nontrivial=%d exhaustive=%v violations=%d wall=%.1fs\n",
		r.ID, r.Tier, r.cov.States, r.cov.Transitions, r.cov.Outcomes, r.cov.DistinctNT, r.cov.Exhaustive, violations, ev.WallS)
	if violations > 0 {
		return 1
	}
	return 0
}

// outDir is /verif, or a private directory when the check runs against a scratch copy of the
// repository (VERIF_OUT, set by check.sh for VERIF_REPO != /repo) so that experiments never
// overwrite the evidence of /repo.
func outDir() string {
	if d := os.Getenv("VERIF_OUT"); d != "" {
		return d
	}
	return VerifDir
}

func withCount(m map[string]any, n int) map[string]any {
	if m == nil {
		m = map[string]any{}
	}
	m["occurrences_in_run"] = n
	return m
}

var unsafeRe = regexp.MustCompile(`[^A-Za-z0-9_.=+-]+`)

func sanitize(s string) string {
	t := unsafeRe.ReplaceAllString(s, "_")
	if len(t) > 120 {
		t = t[:100] + "_" + hash(s)
	}
	return strings.Trim(t, "_")
}

// AllSigs returns every counterexample signature recorded so far (for diagnostics tooling).
func (r *Run) AllSigs() map[string]int {
	r.mu.Lock()
	defer r.mu.Unlock()
	out := map[string]int{}
	for k, v := range r.cexCount {
		out[k] = v
	}
	return out
}

// Package e4 holds the multi-package fixture programs used by the driver-level checks. Every
// line that must be reported carries a `// want CODE[,CODE]` marker; everything else must be silent.
package e4

import (
	"fmt"
	"path"
	"regexp"
	"sort"
	"strings"

	"verif/mc/internal/prog"
)

// PkgOnlyShape describes the @packageonly list placed on a's restricted items.
type PkgOnlyShape struct {
	Name     string
	Lines    []string
	AllowsB  bool
	AllowsB2 bool
}

func longList(with string) string {
	var l []string
	for i := 0; i < 39; i++ {
		l = append(l, fmt.Sprintf("ex.com/other/p%02d", i))
	}
	if with != "" {
		l = append(l, with)
	} else {
		l = append(l, "ex.com/other/p39")
	}
	return "// @packageonly " + strings.Join(l, ", ")
}

func Shapes() []PkgOnlyShape {
	return []PkgOnlyShape{
		{Name: "bare", Lines: []string{"// @packageonly"}},
		{Name: "by-name-b", Lines: []string{"// @packageonly b"}, AllowsB: true},
		{Name: "by-path-b", Lines: []string{"// @packageonly ex.com/m/b"}, AllowsB: true},
		{Name: "dup-lines", Lines: []string{"// @packageonly zz", "// @packageonly zz", "// @packageonly b2"}, AllowsB2: true},
		{Name: "long-with-b", Lines: []string{longList("ex.com/m/b")}, AllowsB: true},
		{Name: "long-without", Lines: []string{longList("")}},
		{Name: "dots-dashes", Lines: []string{"// @packageonly ex.com/m/x-y.z/w_1, b.v2"}},
	}
}

func ann(lines []string, indent string) string {
	var b strings.Builder
	for _, l := range lines {
		b.WriteString(indent + l + "\n")
	}
	return b.String()
}

func pkgA(sh PkgOnlyShape) string {
	po := ann(sh.Lines, "")
	return `package a

// T is immutable and constructor-restricted.
// @immutable
// @constructor NewT, MakeT
type T struct {
	F int
	// @mutable
	M  int
	Xs []int
}

func NewT() *T { return &T{} }

func MakeT() T { var t T; t.F = 1; return t }

// Mock is test-only.
// @testonly
type Mock struct{ A int }

// Helper is test-only.
// @testonly
func Helper() int { return 0 }

type S struct{ K int }

// Reset is test-only.
// @testonly
func (s S) Reset() {}

// PT is restricted.
` + po + `type PT struct{ A int }

// PF is restricted.
` + po + `func PF() int { return 0 }

// PM is restricted.
` + po + `func (s *S) PM() {}

func GetT() T { return *NewT() }

func GetS() S { return S{} }

// hidden is unexported but its values escape through GetHidden.
// @immutable
// @constructor newHidden
type hidden struct {
	F int
	// @mutable
	M int
}

func newHidden() *hidden { return &hidden{} }

func GetHidden() *hidden { return newHidden() }

func own(x *T, s S) {
	x.F = 1 // want IMM01
	x.M = 1
	_ = T{} // want CTOR01
	Helper() // want TONL02
	s.Reset() // want TONL03
	_ = Mock{} // want TONL01
	_ = PF()
	_ = PT{}
	s.PM()
}
`
}

func want(cond bool, code string) string {
	if cond {
		return " // want " + code
	}
	return ""
}

// pkgB renders an importer of a named name (b, b1 or b2).
func pkgB(name string, allowed bool) string {
	r := !allowed
	return `package ` + name + `

import (
	"unsafe"

	"ex.com/m/a"
)

var _ = unsafe.Sizeof(0)

// TB is ` + name + `'s own immutable type.
// @immutable
// @constructor NewTB
type TB struct {
	G int
	// @mutable
	N  int
	In a.T
}

func NewTB() *TB { return &TB{G: 1} }

// HelperB is test-only and may therefore call test-only items.
// @testonly
func HelperB() int { return a.Helper() }

// OnlyC may be used from package c only.
// @packageonly c
func OnlyC() {}

// OnlyNobody may be used from nowhere else.
// @packageonly
type OnlyNobody struct{ A int }

func GetT() a.T { return a.GetT() }

func GetS() a.S { return a.GetS() }

// TAlias re-exports a's annotated type; importers of this package that do not import a see no annotation of a.
type TAlias = a.T

func useA(x a.T, p *a.T, s a.S) {
	x.F = 1 // want IMM01
	x.M = 1
	p.Xs[0] = 1 // want IMM04
	p.F++ // want IMM03
	p.F += 2 // want IMM02
	_ = a.T{} // want CTOR01
	_ = new(a.T) // want CTOR02
	var z a.T // want CTOR03
	_ = z
	a.Helper() // want TONL02
	_ = a.Mock{} // want TONL01
	s.Reset() // want TONL03
	a.PF()` + want(r, "PKGO02") + `
	_ = a.PT{}` + want(r, "PKGO01") + `
	s.PM()` + want(r, "PKGO03") + `
	a.GetHidden().F = 1 // want IMM01
	a.GetHidden().M = 1
	a.GetHidden().F++ // want IMM03
}

// NewT shares the name of a's constructor but lives in another package.
func NewT() *a.T {
	return &a.T{} // want CTOR01
}

func ownB(y *TB) {
	y.G = 1 // want IMM01
	y.N = 1
	y.In.F = 1 // want IMM01
}
`
}

func pkgC(imports []string) string {
	var imp, body strings.Builder
	for _, b := range imports {
		imp.WriteString("\t\"ex.com/m/" + b + "\"\n")
		body.WriteString(`
func use_` + b + `(y ` + b + `.TB) {
	y.G = 1 // want IMM01
	y.N = 1
	_ = ` + b + `.TB{} // want CTOR01
	` + b + `.HelperB() // want TONL02
	` + b + `.OnlyC()
	var n ` + b + `.OnlyNobody // want PKGO01
	_ = n
	t := ` + b + `.GetT()
	t.F = 1
	_ = ` + b + `.TAlias{}
	_ = new(` + b + `.TAlias)
	var ta ` + b + `.TAlias
	ta.F = 2
	s := ` + b + `.GetS()
	s.Reset()
	s.PM()
}
`)
	}
	return "package c\n\nimport (\n" + imp.String() + ")\n" + body.String()
}

// Chain builds a <- b <- c.
func Chain(sh PkgOnlyShape) *prog.Program {
	return &prog.Program{Pkgs: []prog.Pkg{
		{Path: "ex.com/m/a", Files: []prog.File{{Name: "a.go", Src: pkgA(sh)}}},
		{Path: "ex.com/m/b", Files: []prog.File{{Name: "b.go", Src: pkgB("b", sh.AllowsB)}}},
		{Path: "ex.com/m/c", Files: []prog.File{{Name: "c.go", Src: pkgC([]string{"b"})}}},
	}}
}

// Diamond builds a <- {b, b2} <- c.
func Diamond(sh PkgOnlyShape) *prog.Program {
	return &prog.Program{Pkgs: []prog.Pkg{
		{Path: "ex.com/m/a", Files: []prog.File{{Name: "a.go", Src: pkgA(sh)}}},
		{Path: "ex.com/m/b", Files: []prog.File{{Name: "b.go", Src: pkgB("b", sh.AllowsB)}}},
		{Path: "ex.com/m/b2", Files: []prog.File{{Name: "b2.go", Src: pkgB("b2", sh.AllowsB2)}}},
		{Path: "ex.com/m/c", Files: []prog.File{{Name: "c.go", Src: pkgC([]string{"b", "b2"})}}},
	}}
}

var wantRe = regexp.MustCompile(`// want ([A-Z0-9,]+)\s*$`)

// Wants extracts the expected "file:line:code" keys of one package (or all when pkg == "").
var wantAtRe = regexp.MustCompile(`// wantat (\S+):(\d+) ([A-Z]+[0-9]+)`)

func Wants(p *prog.Program, pkg string) []string {
	var out []string
	for _, pk := range p.Pkgs {
		if pkg != "" && pk.Path != pkg {
			continue
		}
		dir := pk.Dir
		if dir == "" {
			dir = pk.Path
		} else {
			dir = "ex.com/m/" + dir
		}
		for _, f := range pk.Files {
			for i, l := range strings.Split(f.Src, "\n") {
				if m := wantRe.FindStringSubmatch(l); m != nil {
					for _, c := range strings.Split(m[1], ",") {
						out = append(out, fmt.Sprintf("%s/%s:%d:%s", dir, f.Name, i+1, c))
					}
				}
				// a diagnostic whose position a //line directive moves: "// wantat <file>:<line> CODE"
				if m := wantAtRe.FindStringSubmatch(l); m != nil {
					out = append(out, fmt.Sprintf("%s:%s:%s", path.Clean(dir+"/"+m[1]), m[2], m[3])) // a relative name may lead into ANOTHER package's file
				}
			}
		}
	}
	sort.Strings(out)
	return out
}

// KeysOf converts diagnostics of one package into sorted "file:line:code" keys.
func KeysOf(ds []prog.Diag, pkg string) []string {
	var out []string
	for _, d := range ds {
		if pkg != "" && d.Pkg != pkg {
			continue
		}
		out = append(out, d.Key())
	}
	sort.Strings(out)
	return out
}

// Unrelated is a package without imports that has its own annotated items and violations; it
// shares type and function names with package a on purpose (Mock, Helper, T).
func Unrelated() prog.Pkg {
	return prog.Pkg{Path: "ex.com/m/e", Files: []prog.File{{Name: "e.go", Src: `package e

// T is immutable here too.
// @immutable
// @constructor NewT
type T struct{ F int }

func NewT() *T { return &T{} }

// Mock is test-only.
// @testonly
type Mock struct{ A int }

// Helper is test-only.
// @testonly
func Helper() int { return 0 }

// Iface is not implemented by Impl.
type Iface interface{ Do(); Undo(x int) string }

// Impl claims Iface.
// @implements Iface
type Impl struct{} // want IMPL03

func work(x *T) {
	x.F = 1 // want IMM01
	_ = T{} // want CTOR01
	_ = Mock{} // want TONL01
	Helper() // want TONL02
}
`}, {Name: "e2.go", Src: `package e

func work2(x *T) {
	_ = Mock{} // want TONL01
	var m Mock
	_ = m
	x.F++ // want IMM03
}
`}}}
}

// WithUnrelated appends the unrelated package to a copy of p.
func WithUnrelated(p *prog.Program) *prog.Program {
	q := &prog.Program{Pkgs: append([]prog.Pkg(nil), p.Pkgs...)}
	q.Pkgs = append(q.Pkgs, Unrelated())
	return q
}

// TestVariants is a module in which the drivers hold several type-checked instances of one import
// path at once (a, a [a.test], b [a.test]): package a has an internal test file and an external
// test package that imports b, which imports a. Every @implements annotation in it is correct and
// mentions a named type of package a in a method signature, so the expected diagnostic set is empty
// in every cell; a process-wide cache keyed by import path would mix objects of different instances.
func TestVariants() *prog.Program {
	return &prog.Program{Pkgs: []prog.Pkg{
		{Path: "ex.com/m/a", Files: []prog.File{
			{Name: "a.go", Src: `package a

type N struct{ V int }

type Iface interface {
	Get() N
	Put(n *N) error
	Name() string
}

// Own implements Iface in the declaring package.
// @implements Iface
type Own struct{}

func (Own) Get() N         { return N{} }
func (Own) Put(n *N) error { return nil }
func (Own) Name() string   { return "" }
`},
			{Name: "a_test.go", Src: `package a

// tImpl lives in an internal test file.
// @implements Iface
type tImpl struct{}

func (tImpl) Get() N         { return N{} }
func (tImpl) Put(n *N) error { return nil }
func (tImpl) Name() string   { return "" }
`},
			{Name: "a_ext_test.go", Src: `package a_test

import (
	"ex.com/m/a"
	"ex.com/m/b"
)

var _ = b.New

// eImpl lives in the external test package.
// @implements a.Iface
type eImpl struct{}

func (eImpl) Get() a.N         { return a.N{} }
func (eImpl) Put(n *a.N) error { return nil }
func (eImpl) Name() string     { return "" }
`},
		}},
		{Path: "ex.com/m/b", Files: []prog.File{
			{Name: "b.go", Src: `package b

import "ex.com/m/a"

// BImpl implements a.Iface.
// @implements a.Iface
type BImpl struct{}

func (BImpl) Get() a.N         { return a.N{} }
func (BImpl) Put(n *a.N) error { return nil }
func (BImpl) Name() string     { return "" }

func New() a.Iface { return BImpl{} }
`},
			{Name: "b_test.go", Src: `package b

import "ex.com/m/a"

// bt lives in b's internal test file.
// @implements a.Iface
type bt struct{}

func (bt) Get() a.N         { return a.N{} }
func (bt) Put(n *a.N) error { return nil }
func (bt) Name() string     { return "" }
`},
		}},
	}}
}

// Twins: two sibling packages with byte-identical layout (same-length names), each declaring an
// @immutable type with a @mutable field, a constructor list and a @testonly function at the same
// offsets, and a consumer importing both. Anything keyed by a position that is only meaningful
// inside one process (token.Pos carried in a serialised fact) collides here under go vet.
func Twins() *prog.Program {
	twin := func(name, typ string) prog.Pkg {
		return prog.Pkg{Path: "ex.com/m/" + name, Files: []prog.File{{Name: "t.go", Src: `package ` + name + `

// ` + typ + ` is immutable except for its cache.
// @immutable
// @constructor New
type ` + typ + ` struct {
	F int
	// @mutable
	Stats int
	G int
}

func New() *` + typ + ` { return &` + typ + `{} }

// Probe is test-only.
// @testonly
func Probe() int { return 0 }

// Dump is test-only too; importers may reach it through a struct of their own that embeds ` + typ + `.
// @testonly
func (t *` + typ + `) Dump() {}
`}}}
	}
	// meth restricts ONLY a method: no type or function of the package carries @packageonly
	meth := prog.Pkg{Path: "ex.com/m/meth", Files: []prog.File{{Name: "a_methods.go", Src: `package meth

// Do is restricted.
// @packageonly nowhere
func (r R) Do() {}

func (r R) Free() {}

// ByName allows the importer by its package NAME (consv), ByBase names the last element of its import path (v2).
// @packageonly consv
func ByName() {}

// @packageonly v2
func ByBase() {}

// @packageonly ex.com/m/cons/v2
func ByPath() {}
`}, {Name: "z_types.go", Src: `package meth

type R struct{}
`}}}
	// an importer whose package name (consv) differs from the last element of its import path (v2)
	consv := prog.Pkg{Path: "ex.com/m/cons/v2", Files: []prog.File{{Name: "c.go", Src: `package consv

import "ex.com/m/meth"

func use() {
	meth.ByName()
	meth.ByBase() // want PKGO02
	meth.ByPath()
}
`}}}
	return &prog.Program{Pkgs: []prog.Pkg{twin("alpha", "TA"), twin("omega", "TO"), meth,
		consv,
		{Path: "ex.com/m/cons", Files: []prog.File{{Name: "c.go", Src: `package cons

import (
	"ex.com/m/alpha"
	"ex.com/m/meth"
	"ex.com/m/omega"
)

type wrapA struct{ alpha.TA }

type wrapO struct{ *omega.TO }

func useWrap(a *wrapA, o wrapO) {
	a.Dump() // want TONL03
	o.Dump() // want TONL03
	a.TA.Dump() // want TONL03
}

func useMeth(r meth.R) {
	r.Do() // want PKGO03
	r.Free()
	_ = r.Do // want PKGO03
}

func use(a *alpha.TA, o *omega.TO) {
	a.Stats = 1
	o.Stats = 1
	a.Stats += 2
	o.Stats -= 2
	a.Stats++
	o.Stats--
	a.Stats, o.Stats = 3, 4
	a.G += 1 // want IMM02
	a.F = 1 // want IMM01
	o.F = 1 // want IMM01
	a.G++ // want IMM03
	o.G++ // want IMM03
	_ = alpha.TA{} // want CTOR01
	_ = omega.TO{} // want CTOR01
	alpha.Probe() // want TONL02
	omega.Probe() // want TONL02
}
`}}}}}
}

// ExcludedDep: an annotated dependency whose directory is excluded by the default configuration
// (path contains "testdata"). Its annotations must be inert in every driver alike — in particular
// under go vet, where each package is analysed by a separate process started in the package's
// own directory — while the regular dependency next to it keeps working.
func ExcludedDep() *prog.Program {
	dep := func(path, name string) prog.Pkg {
		return prog.Pkg{Path: path, Files: []prog.File{{Name: "m.go", Src: `package ` + name + `

// M is immutable.
// @immutable
// @constructor New
type M struct {
	F int
}

func New() *M { return &M{} }

// Probe is test-only and restricted.
// @testonly
// @packageonly nowhere
func Probe() int { return 0 }
`}}}
	}
	return &prog.Program{Pkgs: []prog.Pkg{dep("ex.com/m/gen/testdata/model", "model"), dep("ex.com/m/lib", "lib"),
		{Path: "ex.com/m/mid", Files: []prog.File{{Name: "mid.go", Src: `package mid

import (
	"ex.com/m/gen/testdata/model"
	"ex.com/m/lib"
)

func Touch(a *model.M, b *lib.M) {
	a.F = 1
	_ = model.M{}
	model.Probe()
	b.F = 1 // want IMM01
	_ = lib.M{} // want CTOR01
	lib.Probe() // want TONL02,PKGO02
}
`}}},
		{Path: "ex.com/m/app", Files: []prog.File{{Name: "app.go", Src: `package app

import (
	"ex.com/m/gen/testdata/model"
	"ex.com/m/lib"
	"ex.com/m/mid"
)

func use(a *model.M, b *lib.M) {
	mid.Touch(a, b)
	a.F++
	var z model.M
	_ = z
	b.F++ // want IMM03
	var w lib.M // want CTOR03
	_ = w
}
`}}}}}
}

// SameName: two declaring packages with the same package NAME (model) and opposite annotations on
// items of the same names, one importing the other (so that the analysis order is fixed), and
// three consumers: of the first only, of the second only, of both. Anything keyed by package name
// instead of import path mixes the two up.
func SameName() *prog.Program {
	s1 := prog.Pkg{Path: "ex.com/m/s1/model", Files: []prog.File{{Name: "m.go", Src: `package model

// T is immutable and constructor-restricted here.
// @immutable
// @constructor New
type T struct {
	F int
	// @mutable
	M int
}

func New() *T { return &T{} }

// Probe is test-only here.
// @testonly
func Probe() int { return 0 }

func Keep() int { return 0 }

// Only is restricted here.
// @packageonly nowhere
func Only() int { return 0 }

func Free() int { return 0 }
`}}}
	s2 := prog.Pkg{Path: "ex.com/m/s2/model", Files: []prog.File{{Name: "m.go", Src: `package model

import m1 "ex.com/m/s1/model"

var _ = m1.Keep

// T is an ordinary struct here.
type T struct {
	F int
	M int
}

// New has the name of s1's constructor, and this package has s1's package NAME: it is still another package.
func New() *T {
	_ = m1.T{} // want CTOR01
	var z m1.T // want CTOR03
	z.F = 1 // want IMM01
	return &T{}
}

func Probe() int { return 0 }

// Keep is test-only here.
// @testonly
func Keep() int { return 0 }

func Only() int { return 0 }

// Free is restricted here.
// @packageonly nowhere
func Free() int { return 0 }
`}}}
	use := func(q string, first bool) string {
		w := func(codes string, on bool) string {
			if on {
				return " // want " + codes
			}
			return ""
		}
		return "\tfunc(t *" + q + ".T) {\n" +
			"\t\tt.F = 1" + w("IMM01", first) + "\n" +
			"\t\tt.M = 1\n" +
			"\t\t_ = " + q + ".T{}" + w("CTOR01", first) + "\n" +
			"\t\t" + q + ".Probe()" + w("TONL02", first) + "\n" +
			"\t\t" + q + ".Keep()" + w("TONL02", !first) + "\n" +
			"\t\t" + q + ".Only()" + w("PKGO02", first) + "\n" +
			"\t\t" + q + ".Free()" + w("PKGO02", !first) + "\n" +
			"\t}(nil)\n"
	}
	return &prog.Program{Pkgs: []prog.Pkg{s1, s2,
		{Path: "ex.com/m/cons1", Files: []prog.File{{Name: "c.go", Src: "package cons1\n\nimport \"ex.com/m/s1/model\"\n\nfunc use() {\n" + use("model", true) + "}\n"}}},
		{Path: "ex.com/m/cons2", Files: []prog.File{{Name: "c.go", Src: "package cons2\n\nimport \"ex.com/m/s2/model\"\n\nfunc use() {\n" + use("model", false) + "}\n"}}},
		{Path: "ex.com/m/cons12", Files: []prog.File{{Name: "c.go", Src: "package cons12\n\nimport (\n\tm1 \"ex.com/m/s1/model\"\n\tm2 \"ex.com/m/s2/model\"\n)\n\nfunc use() {\n" + use("m2", false) + use("m1", true) + "}\n"}}},
	}}
}

// LineDirectives: generated code whose positions are remapped by //line directives to files that
// do not exist (no excerpt can be read for those diagnostics) next to ordinary code whose
// excerpts can be read. What is printed for one diagnostic must not depend on which other
// diagnostics were formatted before it.
func LineDirectives() *prog.Program {
	return &prog.Program{Pkgs: []prog.Pkg{
		{Path: "ex.com/m/lib", Files: []prog.File{{Name: "lib.go", Src: `package lib

// T is immutable.
// @immutable
// @constructor NewT
type T struct{ F, G int }

func NewT() *T { return &T{} }
`}}},
		{Path: "ex.com/m/app", Files: []prog.File{{Name: "app.go", Src: `package app

import "ex.com/m/lib"

func touch(t *lib.T) {
	t.F = 1 // want IMM01
	t.G++ // want IMM03
	_ = lib.T{} // want CTOR01
}
`}}},
		{Path: "ex.com/m/gen", Files: []prog.File{{Name: "gen.go", Src: `package gen

import "ex.com/m/lib"

func generated(t *lib.T) {
//line grammar.y:41
	t.F = 2 // wantat grammar.y:41 IMM01
//line gen.go:900
	t.G-- // wantat gen.go:900 IMM03
//line ../app/app.go:6
	t.F = 4 // wantat ../app/app.go:6 IMM01
}
`}, {Name: "plain.go", Src: `package gen

import "ex.com/m/lib"

func plain(t *lib.T) {
	t.F = 3 // want IMM01
}
`}}},
		Unrelated(),
	}}
}

// SharedSyntax: constructs whose syntax several analyzers look at in different ways — an explicit
// instantiation whose type argument is the only mention of a restricted type, parenthesised callees,
// a parenthesised new. The syntax trees of a package are shared by all analyzers (and by the
// package's test variant); nobody may change them.
func SharedSyntax() *prog.Program {
	return &prog.Program{Pkgs: []prog.Pkg{
		{Path: "ex.com/m/lib", Files: []prog.File{{Name: "lib.go", Src: `package lib

// Secret is restricted.
// @packageonly nowhere
type Secret struct{ N int }

// Conf is constructor-restricted.
// @constructor NewConf
type Conf struct{ N int }

func NewConf() *Conf { return &Conf{} }

// Probe is test-only.
// @testonly
func Probe() int { return 0 }

// Map is generic and unrestricted.
func Map[V any](n int) []V { return make([]V, n) }

// Keep is unrestricted.
func Keep() int { return 0 }
`}}},
		{Path: "ex.com/m/app", Files: []prog.File{{Name: "app.go", Src: `package app

import "ex.com/m/lib"

func use() {
	_ = lib.Map[lib.Secret](3) // want PKGO01
	_ = (lib.Keep)()
	_ = (lib.Probe)() // want TONL02
	_ = lib.Map[*lib.Conf](1)
	_ = (lib.Map[int])(2)
}
`}, {Name: "app_test.go", Src: `package app

func useInTest() { use() }
`}}},
		Unrelated(),
	}}
}

// RaceCorpus: n independent packages (no imports between them, so their actions all run at once)
// that each exercise every annotation reader and checker on several types with documented fields,
// plus one consumer per pair. It exists for the free-running -race complement of C11: process-wide
// state that is touched without synchronisation shows up as a reported data race when many
// packages are analysed concurrently.
func RaceCorpus(n int) *prog.Program {
	p := &prog.Program{}
	for i := 0; i < n; i++ {
		name := fmt.Sprintf("rc%02d", i)
		var b strings.Builder
		fmt.Fprintf(&b, "package %s\n\ntype Iface interface{ Do(); Undo(x int) string }\n\n", name)
		for t := 0; t < 5; t++ {
			fmt.Fprintf(&b, "// S%d is immutable apart from its counters.\n// @immutable\n// @constructor New%d, Make%d\n// @implements Iface\ntype S%d struct {\n\t// hits is a cache counter.\n\t// @mutable\n\thits int\n\t// misses too.\n\t// @mutable\n\tmisses, evictions int\n\t// F is plain prose mentioning @mutable mid-line.\n\tF int\n\t// @ignore ZZZ9\n\tXs []int // @ignore ZZZ8\n}\n\n", t, t, t, t)
			fmt.Fprintf(&b, "func New%d() *S%d { s := &S%d{}; s.F = 1; return s }\n\n", t, t, t)
			fmt.Fprintf(&b, "// Probe%d is test-only and restricted.\n// @testonly\n// @packageonly nowhere, %s\nfunc Probe%d() int { return %d }\n\n", t, name, t, t)
			fmt.Fprintf(&b, "func use%d(s *S%d) {\n\ts.hits++\n\ts.misses += 1\n\ts.evictions = 2\n\ts.F = 2\n\ts.Xs[0] = 1\n\t_ = S%d{}\n\t_ = Probe%d()\n}\n\n", t, t, t, t)
		}
		// an in-package test file: the package is analysed a second time as its test variant, on the SAME syntax trees
		tst := fmt.Sprintf("package %s\n\n// @ignore ZZZ7\nfunc inTest(s *S0, t *S1) {\n\ts.F = 3\n\tt.Xs[0] = 4 // @ignore ZZZ6\n\t_ = S2{}\n}\n\nvar _ = inTest\n", name)
		p.Pkgs = append(p.Pkgs, prog.Pkg{Path: "ex.com/m/" + name, Files: []prog.File{{Name: name + ".go", Src: b.String()}, {Name: name + "_test.go", Src: tst}}})
	}
	for i := 0; i+1 < n; i += 2 {
		a, c := fmt.Sprintf("rc%02d", i), fmt.Sprintf("rc%02d", i+1)
		src := fmt.Sprintf("package cons%02d\n\nimport (\n\t\"ex.com/m/%s\"\n\t\"ex.com/m/%s\"\n)\n\nfunc use(x *%s.S0, y *%s.S1) {\n\tx.F = 1\n\ty.F++\n\t_ = %s.S2{}\n\t_ = %s.Probe3()\n}\n", i, a, c, a, c, a, c)
		p.Pkgs = append(p.Pkgs, prog.Pkg{Path: fmt.Sprintf("ex.com/m/cons%02d", i), Files: []prog.File{{Name: "c.go", Src: src}}})
	}
	return p
}

// FileBoundaries: in every package the file that comes first by name ENDS with a constructor and the
// next files BEGIN with package-level code that would be legal only inside that constructor. Which
// file holds the lower positions is an accident of the loader's parse order; nothing may leak from the
// end of one file into the beginning of the next, in either order.
// IgnoresEverywhere: several packages whose FIRST @ignore comments name different codes and whose bodies
// contain violations of the OTHER packages' codes. Per-package suppression state must stay per package,
// also when a project-wide exclusion is configured.
func IgnoresEverywhere() *prog.Program {
	// w returns the want marker of a diagnostic unless the comment's list covers its code
	w := func(list, code string) string {
		for _, tok := range strings.Split(list, ",") {
			tok = strings.TrimSpace(tok)
			if tok == "ALL" || tok == code || tok == strings.TrimRight(code, "0123456789") {
				return ""
			}
		}
		return " // want " + code
	}
	user := func(name, ignoreFirst, ignoreSecond string) prog.Pkg {
		third := "\tt.F = 2 // @ignore " + ignoreSecond + "\n"
		if w(ignoreSecond, "IMM01") != "" {
			// the line's own comment does not cover IMM01: the diagnostic stays, and a line holds one comment only
			third = "\tt.F = 2 // want IMM01\n"
		}
		return prog.Pkg{Path: "ex.com/m/" + name, Files: []prog.File{{Name: name + ".go", Src: "package " + name + "\n\nimport \"ex.com/m/lib\"\n\n" +
			"// @ignore " + ignoreFirst + "\nfunc first(t *lib.T) {\n\tt.F = 1" + w(ignoreFirst, "IMM01") + "\n\t_ = lib.T{}" + w(ignoreFirst, "CTOR01") + "\n}\n\n" +
			"// @ignore " + ignoreSecond + "\nfunc second(t *lib.T) {\n\tt.G++" + w(ignoreSecond, "IMM03") + "\n\t_ = new(lib.T)" + w(ignoreSecond, "CTOR02") + "\n}\n\n" +
			"func third(t *lib.T) {\n" + third + "\tvar z lib.T // want CTOR03\n\t_ = z\n}\n"}}}
	}
	return &prog.Program{Pkgs: []prog.Pkg{
		{Path: "ex.com/m/lib", Files: []prog.File{{Name: "lib.go", Src: `package lib

// T is immutable.
// @immutable
// @constructor NewT
type T struct{ F, G int }

func NewT() *T { return &T{} }
`}}},
		user("ua", "CTOR01", "IMM03"), user("ub", "IMM01", "CTOR02"), user("uc", "IMM", "CTOR"), user("ud", "CTOR", "IMM01, CTOR03"),
	}}
}

func FileBoundaries() *prog.Program {
	return &prog.Program{Pkgs: []prog.Pkg{
		{Path: "ex.com/m/lib", Files: []prog.File{{Name: "a.go", Src: `package lib

// T is immutable and constructor-restricted.
// @immutable
// @constructor NewT
type T struct{ F int }

var shared = NewT()

func NewT() *T { t := &T{}; t.F = 1; return t }
`}, {Name: "b.go", Src: `package lib

var early = T{} // want CTOR01

var early2 = func() int { shared.F = 2; return 0 }() // want IMM01

func later() {}
`}, {Name: "z.go", Src: `package lib

var late T // want CTOR03

var late2 = new(T) // want CTOR02
`}}},
		{Path: "ex.com/m/app", Files: []prog.File{{Name: "a.go", Src: `package app

import "ex.com/m/lib"

var held = lib.NewT()

// NewT merely has the name of lib's constructor.
func NewT() *lib.T { return lib.NewT() }
`}, {Name: "b.go", Src: `package app

import "ex.com/m/lib"

var x = lib.T{} // want CTOR01

var y = func() int { held.F++; return 0 }() // want IMM03
`}}},
		Unrelated(),
	}}
}

// ConfigMatters is a program whose diagnostics depend on every configuration option: under
// scan-tests=true and exclude-paths=gen (the configuration its want markers are written for) the package under
// gen/ is inert — no diagnostic in it, its annotations unread — and _test.go files are analysed. Under the
// empty configuration (scan-tests off, nothing excluded) almost every marker would be different, so an action that
// works with a configuration other than the one given shows at once.
func ConfigMatters() *prog.Program {
	return &prog.Program{Pkgs: []prog.Pkg{
		{Path: "ex.com/m/gen/model", Files: []prog.File{{Name: "model.go", Src: `package model

// Money is immutable, but this file is excluded by configuration.
// @immutable
// @constructor NewMoney
type Money struct{ Cents int }

func NewMoney() *Money { return &Money{} }

// Fake is test-only.
// @testonly
func Fake() *Money { return NewMoney() }

func bad(m *Money) {
	m.Cents = 1
	_ = Money{}
}
`}}},
		{Path: "ex.com/m/lib", Files: []prog.File{{Name: "lib.go", Src: `package lib

// L is immutable.
// @immutable
// @constructor NewL
type L struct{ N int }

func NewL() *L { return &L{} }

// Probe is test-only.
// @testonly
func Probe() int { return 0 }

func bad(l *L) {
	l.N = 1 // want IMM01
}
`}, {Name: "lib_test.go", Src: `package lib

func badInTest(l *L) {
	l.N++ // want IMM03
	_ = L{} // want CTOR01
	Probe()
}
`}}},
		{Path: "ex.com/m/app", Files: []prog.File{{Name: "app.go", Src: `package app

import (
	"ex.com/m/gen/model"
	"ex.com/m/lib"
)

func run(m *model.Money, l *lib.L) {
	m.Cents = 2
	_ = model.Money{}
	_ = model.Fake()
	l.N = 2 // want IMM01
	_ = lib.L{} // want CTOR01
	lib.Probe() // want TONL02
}
`}, {Name: "app_test.go", Src: `package app

import "ex.com/m/lib"

func inTest(l *lib.L) {
	l.N += 1 // want IMM02
	lib.Probe()
}
`}}},
		{Path: "ex.com/m/other", Files: []prog.File{{Name: "other.go", Src: `package other

// O is immutable.
// @immutable
type O struct{ V int }

func touch(o *O) {
	o.V = 1 // want IMM01
}
`}, {Name: "other_test.go", Src: `package other

func touchInTest(o *O) {
	o.V = 2 // want IMM01
}
`}}},
		{Path: "ex.com/m/gen/extra", Files: []prog.File{{Name: "extra.go", Src: `package extra

// E is immutable, in an excluded file.
// @immutable
type E struct{ V int }

func touch(e *E) {
	e.V = 1
}
`}}},
	}}
}

// IgnoreUnderLineDirectives: trailing @ignore comments on lines whose reported position a //line directive has moved
// — to a smaller line number, to a larger one, beyond the end of the file, into another file name. A trailing
// comment covers its own SOURCE line, whatever that line is called; its neighbours stay reported.
func IgnoreUnderLineDirectives() *prog.Program {
	return &prog.Program{Pkgs: []prog.Pkg{
		{Path: "ex.com/m/lib", Files: []prog.File{{Name: "lib.go", Src: `package lib

// T is immutable.
// @immutable
// @constructor NewT
type T struct{ F, G int }

func NewT() *T { return &T{} }
`}}},
		{Path: "ex.com/m/gen", Files: []prog.File{{Name: "down.go", Src: `package gen

import "ex.com/m/lib"

func down(t *lib.T) {
	t.F = 1 // want IMM01
	t.F = 2 // want IMM01
	t.F = 3 // want IMM01
	t.F = 4 // want IMM01
//line down.y:3
	t.F = 5 // @ignore IMM01
	t.F = 6 // wantat down.y:4 IMM01
//line down.go:2
	t.G++ // @ignore IMM
	_ = lib.T{} // wantat down.go:3 CTOR01
}
`}, {Name: "up.go", Src: `package gen

import "ex.com/m/lib"

func up(t *lib.T) {
	t.G = 1 // want IMM01
//line up.y:20
	t.G = 2 // @ignore IMM01
	t.G = 3 // wantat up.y:21 IMM01
//line up.go:5000
	_ = lib.T{} // @ignore CTOR01
	_ = new(lib.T) // wantat up.go:5001 CTOR02
//line ../lib/lib.go:4
	t.F += 1 // @ignore ALL
	t.F -= 1 // wantat ../lib/lib.go:5 IMM02
}

// one-line top-level declarations below a directive: the comment trails the declaration's end
//line store.tmpl:900
var generatedDefault = lib.T{} // @ignore CTOR01
var generatedNext = lib.T{} // wantat store.tmpl:901 CTOR01
var generatedZero lib.T // @ignore CTOR
//line up.go:3
var low = new(lib.T) // @ignore CTOR02
var low2 = new(lib.T) // wantat up.go:4 CTOR02
`}}},
	}}
}

// ImplTexts: two independent packages, each with several failing @implements annotations whose missing-method
// signatures mention named types of the SAME package, of the other package's namesake, and of an imported one. The
// text of every diagnostic is part of the observation: whatever a package's pass uses to print types must be its own.
func ImplTexts() *prog.Program {
	mk := func(name string) prog.Pkg {
		return prog.Pkg{Path: "ex.com/m/" + name, Files: []prog.File{{Name: name + ".go", Src: "package " + name + `

import "ex.com/m/lib"

type Item struct{ N int }

type Store interface {
	Put(Item) error
	Get(id int) (*Item, lib.Conf)
}

type Lister interface{ List() []Item }

// A implements nothing of Store.
// @implements Store
// @implements &Lister
type A struct{} // want IMPL03,IMPL03

// B has Put with another parameter type.
// @implements &Store
type B struct{} // want IMPL03

func (*B) Put(*Item) error { return nil }

// C is fine.
// @implements &Lister
type C struct{}

func (*C) List() []Item { return nil }
`}}}
	}
	return &prog.Program{Pkgs: []prog.Pkg{
		{Path: "ex.com/m/lib", Files: []prog.File{{Name: "lib.go", Src: "package lib\n\ntype Conf struct{ N int }\n"}}},
		mk("pa"), mk("pb"), mk("pc"),
	}}
}

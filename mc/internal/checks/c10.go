package checks

import (
	"bytes"
	"encoding/json"
	"fmt"
	"go/ast"
	"go/parser"
	"go/token"
	"io/fs"
	"os"
	"os/exec"
	"path/filepath"
	"regexp"
	"runtime/debug"
	"sort"
	"strings"
	"sync"
	"time"

	"github.com/a14e/gogreement/src/analyzer"
	"golang.org/x/tools/go/analysis/checker"
	"golang.org/x/tools/go/packages"

	"verif/mc/internal/common"
	"verif/mc/internal/drv"
)

const (
	c10HangFactor  = 20
	c10HangMinimum = 15 * time.Minute
)

func c10HangBound(baseline time.Duration) time.Duration {
	b := time.Duration(c10HangFactor) * baseline
	if b < c10HangMinimum {
		b = c10HangMinimum
	}
	return b
}

// c10Budget is the internal time budget of a tier; on hitting it the run ends with
// exhaustive=false and what was completed.
func c10Budget(thorough bool) time.Duration {
	if thorough {
		return 8*time.Minute + 30*time.Second
	}
	return 4 * time.Minute
}

var (
	c10AddrRe = regexp.MustCompile(`0x[0-9a-fA-F]+`)
	c10NumRe  = regexp.MustCompile(`[0-9]+`)
)

// c10PanicLine strips addresses and numbers from the first line of a panic text.
func c10PanicLine(s string) string {
	s = strings.TrimSpace(s)
	if i := strings.Index(s, "panic:"); i > 0 {
		s = s[i:]
	}
	s = c09FirstLine(s)
	s = strings.TrimSuffix(strings.TrimSpace(s), "[recovered]")
	s = c10AddrRe.ReplaceAllString(s, "ADDR")
	s = c10NumRe.ReplaceAllString(s, "N")
	return strings.TrimSpace(s)
}

var c10FrameRe = regexp.MustCompile(`github\.com/a14e/gogreement/src/([A-Za-z0-9_/]+\.[A-Za-z0-9_.()*\[\]]+)`)

// c10TopFrame names the innermost GoGreement function in a stack trace.
func c10TopFrame(stack string) string {
	if m := c10FrameRe.FindStringSubmatch(stack); m != nil {
		return m[1]
	}
	return ""
}

func c10ReportCrash(run *common.Run, where, panicText, stack string, detail map[string]any) {
	if detail == nil {
		detail = map[string]any{}
	}
	detail["panic"] = panicText
	if stack != "" {
		if len(stack) > 6000 {
			stack = stack[:6000]
		}
		detail["stack"] = stack
		detail["innermost_gogreement_frame"] = c10TopFrame(stack)
	}
	run.Report(common.Cex{Sig: fmt.Sprintf("crash|where=%s|%s", where, c10PanicLine(panicText)),
		Summary: fmt.Sprintf("analysis of %s does not end normally: %s (in %s)", where, c10PanicLine(panicText), c10TopFrame(stack)),
		Detail:  detail})
}

// C10: analysis is total — no panic, internal error or hang on any compilable package.
func C10(tier common.Tier) int {
	run := common.NewRun("C10", tier, "exploration")
	thorough := tier == "thorough"
	if os.Getenv("MC_SHARD") != "" {
		common.Sharded(run, 0, func(r *common.Run, sh common.Shard) { c10StdWorker(r, sh, thorough) })
		return 2 // not reached: Sharded exits in a worker
	}
	run.SetRule("three finite spaces, each enumerated completely (or up to the internal time budget, which is then recorded) on the real code. (1a) Every loadable package of the modules GoGreement depends on, copied to scratch and annotated by systematic text injection — pattern A: every type declaration gets @immutable, @constructor New,Make, @testonly, @packageonly x, @implements io.Reader, @implements &Stringer and @implements &I for the first and last interface the package declares, every struct field @mutable; B: every function and method @testonly + @packageonly x; C: A+B; D / E: C on even / odd-indexed declarations of each file; F: @ignore above every block-starting statement, after every third simple statement, above the package clause and after the last declaration; G: C+F — analysed by `gogreement -json` and `go vet -vettool -json` under default and scan-tests=true. (1b) The standard library with the same injections, analysed in-process: packages.Load (LoadAllSyntax, Tests) whose ParseFile hook substitutes the injected text for every file of the batch and of its dependencies (the go command refuses -overlay below GOMODCACHE, where the toolchain's GOROOT lives), then checker.Analyze over the real analyzers, in worker processes. (2) Generated programs: annotated declarations used in every statement shape the checkers walk x every position (package-level initialiser as first declaration, generic function, method on generic type, closure, init, second file, ...) x same / importing package, plus odd annotation placements, analysed in-process and by both real drivers. Oracle: no panic, no 'internal error', no analyzer error, exit status 0 of the JSON drivers; a batch still running after max(20 x its unannotated time, 15 min) is a hang. Diagnostics are expected and ignored. Every injected file is re-parsed and must have an unchanged syntax tree; every injected package must load without type errors. Non-trivial = a package / program for which the analyzers produced at least one diagnostic.",
		map[bool]string{false: "quick: patterns A and F; x/tools/go/analysis/... on disk; fixed list of std packages in-process; generated programs in-process and on disk",
			true: "thorough: patterns A-G; all packages of x/tools, x/mod, x/sync, testify, yaml.v3, go-spew, go-difflib, ahocorasick on disk; all of std in-process; generated programs in-process and on disk"}[thorough])
	run.Assume("go list, go/parser, go/types, go/packages, the x/tools drivers and the go command are trusted",
		"in-process analysis of std reads excerpt lines from the unmodified files on disk (pass.ReadFile does not see the substituted text); the real drivers read the injected files",
		"real drivers run with GOFLAGS=-mod=mod -trimpath so that the build cache is shared between scratch directories",
		"hang bound: max(20 x unannotated time of the same batch, 15 minutes); no shorter wall-clock oracle")
	run.NotJudged("cgo files and files excluded by build constraints on linux/amd64", "packages that do not load offline (same pre-listing as C09)",
		"programs that do not compile")

	drv.Binary()
	root := drv.Scratch()
	defer os.RemoveAll(root)
	os.Setenv("MC_C10_ROOT", root)
	c09must(os.MkdirAll(filepath.Join(root, "tmp"), 0o755))
	c09WriteConsumer(filepath.Join(root, "consumer0"), "")
	deadline := time.Now().Add(c10Budget(thorough))

	var wg sync.WaitGroup
	wg.Add(2)
	t0 := time.Now()
	phase := func(name string) {
		if os.Getenv("MC_VERBOSE") != "" {
			fmt.Fprintf(os.Stderr, "C10 phase %s done at %.1fs\n", name, time.Since(t0).Seconds())
		}
	}
	go func() { defer wg.Done(); c10OnDisk(run, root, thorough, deadline); phase("on-disk modules") }()
	// the generated programs are analysed in this process; with a single worker the std part
	// runs in this process too, and the configuration is process-wide, so they must not overlap
	single := common.NumWorkers() <= 1
	if !single {
		go func() { defer wg.Done(); c10Generated(run, root, thorough); phase("generated programs") }()
	}
	os.Setenv("MC_C10_DEADLINE", fmt.Sprint(deadline.Unix()))
	common.Sharded(run, common.NumWorkers(), func(r *common.Run, sh common.Shard) { c10StdWorker(r, sh, thorough) })
	phase("std in-process")
	if single {
		c10Generated(run, root, thorough)
		phase("generated programs")
		wg.Done()
	}
	wg.Wait()
	return run.Finish()
}

// ---------------------------------------------------------------------------------------------
// (1b) std, in-process with overlays

type c10Analysis struct {
	LoadErrs []string
	Panic    string
	Stack    string
	Errs     []string       // analyzer errors (root causes only)
	Diags    map[string]int // package path -> diagnostics of its root actions
	Pkgs     []*packages.Package
	Elapsed  time.Duration
}

func c10Load(dir string, roots []string, overlay map[string][]byte) ([]*packages.Package, []string) {
	// The injected text is substituted in Config.ParseFile rather than Config.Overlay: the go
	// command refuses -overlay for files below GOMODCACHE, and that is where the go1.25.0
	// toolchain (and with it GOROOT/src) lives. With LoadAllSyntax every package, dependencies
	// included, is parsed through this hook and type-checked from source.
	cfg := &packages.Config{Mode: packages.LoadAllSyntax, Dir: dir, Env: c09GoEnv(), Tests: true}
	if overlay != nil {
		cfg.ParseFile = func(fset *token.FileSet, filename string, src []byte) (*ast.File, error) {
			if b, ok := overlay[filename]; ok {
				src = b
			}
			return parser.ParseFile(fset, filename, src, parser.AllErrors|parser.ParseComments)
		}
	}
	pkgs, err := packages.Load(cfg, roots...)
	if err != nil {
		return nil, []string{err.Error()}
	}
	var errs []string
	packages.Visit(pkgs, nil, func(p *packages.Package) {
		for _, e := range p.Errors {
			errs = append(errs, p.ID+": "+e.Error())
		}
		if p.IllTyped && len(p.Errors) == 0 {
			errs = append(errs, p.ID+": ill-typed")
		}
	})
	return pkgs, errs
}

// c10Analyze runs the real analyzers sequentially so that a panic can be recovered and attributed.
func c10Analyze(pkgs []*packages.Package) (diags map[string]int, errs []string, panicText, stack string) {
	diags = map[string]int{}
	defer func() {
		if r := recover(); r != nil {
			panicText = fmt.Sprint(r)
			stack = string(debug.Stack())
		}
	}()
	g, err := checker.Analyze(analyzer.AllAnalyzers(), pkgs, &checker.Options{Sequential: true})
	if err != nil {
		errs = append(errs, err.Error())
		return
	}
	for act := range g.All() {
		if act.Err != nil && !strings.Contains(act.Err.Error(), "failed prerequisites") {
			errs = append(errs, fmt.Sprintf("%s: %v", act, act.Err))
		}
		if act.IsRoot {
			diags[act.Package.PkgPath] += len(act.Diagnostics)
		}
	}
	sort.Strings(errs)
	return
}

func c10StdWorker(run *common.Run, sh common.Shard, thorough bool) {
	root := os.Getenv("MC_C10_ROOT")
	if root == "" {
		common.Fatalf("MC_C10_ROOT not set")
	}
	os.Setenv("TMPDIR", filepath.Join(root, "tmp"))
	var deadline time.Time
	var unix int64
	fmt.Sscan(os.Getenv("MC_C10_DEADLINE"), &unix)
	deadline = time.Unix(unix, 0)
	dir := filepath.Join(root, "consumer0")
	std, _ := c09List(dir, []string{"std"})
	by := map[string]*corpusPkg{}
	for _, p := range std {
		by[p.Path] = p
	}
	sel := std
	batchSize := 22
	patterns := c10Patterns
	if !thorough {
		sel = c09QuickStd(std)
		var keep []*corpusPkg
		for _, p := range sel { // the quick tier takes the packages without a slash: about forty
			if !strings.Contains(p.Path, "/") {
				keep = append(keep, p)
			}
		}
		sel = keep
		batchSize = 5
		patterns = []c10Pattern{c10PatternByName("A"), c10PatternByName("F")}
	}
	batches := c09Batches(sel, batchSize)
	if sh.I == 0 {
		run.Count("std_packages_selected", len(sel))
		run.Count("std_batches", len(batches))
	}
	configs := c09Configs[:2]
	done, total := 0, 0
	for bi, b := range batches {
		if !sh.Mine(bi) {
			continue
		}
		total += 1 + len(patterns)*len(configs)
		if time.Now().After(deadline) {
			continue
		}
		roots := c09Paths(b)
		where := fmt.Sprintf("std-batch %s..%s", roots[0], roots[len(roots)-1])
		// closure of files that the load will read
		need := map[string]bool{}
		var addDeps func(p *corpusPkg)
		addDeps = func(p *corpusPkg) {
			if need[p.Path] {
				return
			}
			need[p.Path] = true
			for _, d := range p.Deps {
				if q := by[d]; q != nil {
					need[q.Path] = true
				}
			}
		}
		isRoot := map[string]bool{}
		for _, p := range b {
			isRoot[p.Path] = true
			addDeps(p)
			for _, ti := range p.TestImports {
				if q := by[ti]; q != nil {
					addDeps(q)
				}
			}
		}

		// baseline: the same batch without any injection
		c09SetInProcessConfig(c09Configs[0])
		t0 := time.Now()
		pkgs, lerrs := c10Load(dir, roots, nil)
		if len(lerrs) > 0 {
			common.Fatalf("std batch %v does not load unannotated: %v", roots, lerrs[:1])
		}
		_, berrs, bpanic, bstack := c10Analyze(pkgs)
		baseline := time.Since(t0)
		if bpanic != "" {
			c10ReportCrash(run, where, bpanic, bstack, map[string]any{"pattern": "none (baseline)", "packages": roots})
		}
		for _, e := range berrs {
			run.Report(common.Cex{Sig: "crash|where=" + where + "|analyzer error: " + c10PanicLine(e), Summary: "analyzer error on unannotated std: " + e})
		}
		done++
		pkgs = nil

		for _, pat := range patterns {
			// inject once per pattern
			overlay := map[string][]byte{}
			var st c10InjectStats
			var paths []string
			for p := range need {
				paths = append(paths, p)
			}
			sort.Strings(paths)
			for _, ip := range paths {
				p := by[ip]
				files := p.GoFiles
				if isRoot[ip] {
					files = p.AllFiles()
				}
				out, s, err := c10InjectPkgFiles(files, os.ReadFile, pat)
				if err != nil {
					common.Fatalf("injection %s into %s: %v", pat.Name, ip, err)
				}
				if isRoot[ip] {
					st.add(s)
				}
				for fn, b := range out {
					overlay[fn] = b
				}
			}
			run.Count("std_injected_type_annotations_sets", st.Types)
			run.Count("std_injected_field_annotations", st.Fields)
			run.Count("std_injected_func_annotation_sets", st.Funcs)
			run.Count("std_injected_ignore_comments", st.Ignores)
			run.Count("std_injected_on_generic_declarations", st.Generic)
			run.Count("std_injection_sites_skipped_not_first_on_line", st.Skipped)
			pkgs = nil
			for _, cfg := range configs {
				if time.Now().After(deadline) {
					continue
				}
				c09SetInProcessConfig(cfg)
				bound := c10HangBound(baseline)
				timer := time.AfterFunc(bound, func() {
					run.Report(common.Cex{Sig: fmt.Sprintf("hang|where=%s|pattern=%s|config=%s", where, pat.Name, cfg.Name),
						Summary: fmt.Sprintf("in-process analysis of %s with pattern %s (%s) still running after %s (unannotated: %s)", where, pat.Name, cfg.Name, bound, baseline)})
					run.NotExhaustive("a worker was stopped at the hang bound")
					c10FlushWorker(run)
				})
				tload := time.Now()
				if pkgs == nil {
					// one load per pattern; the loaded packages are read-only and serve both configurations
					var lerrs []string
					pkgs, lerrs = c10Load(dir, roots, overlay)
					if len(lerrs) > 0 {
						common.Fatalf("std batch %v does not load after injection %s (only comments were inserted): %v", roots, pat.Name, lerrs[:1])
					}
				}
				tl := time.Now()
				diags, errs, ptxt, stack := c10Analyze(pkgs)
				if os.Getenv("MC_VERBOSE") != "" {
					fmt.Fprintf(os.Stderr, "C10 worker %d: %s pattern %s %s: load+analyze %.1fs (analyze %.1fs), baseline %.1fs\n", sh.I, where, pat.Name, cfg.Name, time.Since(tload).Seconds(), time.Since(tl).Seconds(), baseline.Seconds())
				}
				if ptxt != "" {
					// attribute: every root package on its own
					found := false
					for _, p := range pkgs {
						_, _, pt, stk := c10Analyze([]*packages.Package{p})
						if pt != "" {
							found = true
							c10ReportCrash(run, p.PkgPath, pt, stk, map[string]any{"pattern": pat.Name, "config": cfg.Name, "driver": "in-process", "package_id": p.ID})
						}
					}
					if !found {
						c10ReportCrash(run, where, ptxt, stack, map[string]any{"pattern": pat.Name, "config": cfg.Name, "driver": "in-process", "packages": roots})
					}
				}
				for _, e := range errs {
					run.Report(common.Cex{Sig: "crash|where=" + where + "|analyzer error: " + c10PanicLine(e),
						Summary: fmt.Sprintf("analyzer error (pattern %s, %s): %s", pat.Name, cfg.Name, e)})
				}
				timer.Stop()
				for _, p := range b {
					nt := ""
					if diags[p.Path] > 0 {
						nt = fmt.Sprintf("std|%s|%s|%s", p.Path, pat.Name, cfg.Name)
					}
					run.State(1, fmt.Sprintf("%s|%s|%s|%d", p.Path, pat.Name, cfg.Name, diags[p.Path]), nt)
					run.Count("std_diagnostics_produced", diags[p.Path])
				}
				done++
			}
		}
	}
	if done < total {
		run.NotExhaustive(fmt.Sprintf("time budget: shard %d completed %d of %d std analyses", sh.I, done, total))
	}
	c09SetInProcessConfig(c09Configs[0])
}

// c10FlushWorker ends a worker process from its watchdog the way common.Sharded would.
func c10FlushWorker(run *common.Run) {
	if out := os.Getenv("MC_OUT"); out != "" {
		b, _ := json.Marshal(run.Partial())
		os.WriteFile(out, b, 0o644)
		os.Exit(0)
	}
	// single-process mode: nothing to hand back to; the report is in run
}

// ---------------------------------------------------------------------------------------------
// (1a) module packages on disk, both real drivers

func c10ModuleDirs(dir string, modules []string) map[string]string {
	cmd := exec.Command("go", append([]string{"list", "-m", "-f", "{{.Path}} {{.Dir}}"}, modules...)...)
	cmd.Dir = dir
	cmd.Env = c09GoEnv()
	var so, se bytes.Buffer
	cmd.Stdout, cmd.Stderr = &so, &se
	if err := cmd.Run(); err != nil {
		common.Fatalf("go list -m %v: %v\n%s", modules, err, se.String())
	}
	out := map[string]string{}
	for _, l := range strings.Split(so.String(), "\n") {
		f := strings.Fields(l)
		if len(f) == 2 {
			out[f[0]] = f[1]
		}
	}
	return out
}

func c10CopyTree(src, dst string) {
	err := filepath.WalkDir(src, func(p string, d fs.DirEntry, err error) error {
		if err != nil {
			return err
		}
		rel, _ := filepath.Rel(src, p)
		to := filepath.Join(dst, rel)
		if d.IsDir() {
			return os.MkdirAll(to, 0o755)
		}
		if !d.Type().IsRegular() {
			return nil
		}
		b, err := os.ReadFile(p)
		if err != nil {
			return err
		}
		return os.WriteFile(to, b, 0o644)
	})
	c09must(err)
}

// c10RunWithBound runs one driver invocation; it returns nil when the bound expired first.
func c10RunWithBound(req drv.Req, bound time.Duration) (*drv.Out, time.Duration) {
	ch := make(chan *drv.Out, 1)
	t0 := time.Now()
	go func() { ch <- drv.Run(req) }()
	select {
	case o := <-ch:
		return o, time.Since(t0)
	case <-time.After(bound):
		return nil, time.Since(t0)
	}
}

var c10DriverEnv = map[string]string{"CGO_ENABLED": "0", "GOFLAGS": "-mod=mod -trimpath"}

func c10OnDisk(run *common.Run, root string, thorough bool, deadline time.Time) {
	base := filepath.Join(root, "consumer0")
	modules := c09Modules
	var patterns []string
	pats := c10Patterns
	if thorough {
		for _, m := range modules {
			patterns = append(patterns, m+"/...")
		}
	} else {
		modules = []string{"golang.org/x/tools"}
		patterns = []string{"golang.org/x/tools/go/analysis/..."}
		pats = []c10Pattern{c10PatternByName("A"), c10PatternByName("F")}
	}
	basePkgs, dropped := c09List(base, patterns)
	run.Count("module_packages_selected", len(basePkgs))
	run.Count("module_packages_dropped_do_not_load_offline", len(dropped))
	batches := c09Batches(basePkgs, 120)
	drivers := []drv.Driver{drv.Vet, drv.Standalone}
	configs := c09Configs[:2]
	workers := 5

	// baseline: the unannotated packages straight from the module cache
	type bkey struct {
		b int
		d drv.Driver
	}
	baseline := map[bkey]time.Duration{}
	var mu sync.Mutex
	type bcell struct {
		b int
		d drv.Driver
	}
	var bcells []bcell
	for _, d := range drivers {
		for b := range batches {
			bcells = append(bcells, bcell{b, d})
		}
	}
	drv.ParallelDo(len(bcells), workers, func(i int) {
		c := bcells[i]
		out, el := c10RunWithBound(drv.Req{Driver: c.d, Dir: base, Env: c10DriverEnv, Patterns: c09Paths(batches[c.b])}, c10HangMinimum)
		if out == nil {
			common.Fatalf("unannotated baseline of batch %d did not finish in %s", c.b, c10HangMinimum)
		}
		if crash := c10CrashText(out, c.d); crash != "" {
			c10ReportCrash(run, fmt.Sprintf("module-batch %s..", batches[c.b][0].Path), crash, out.Stderr, map[string]any{"pattern": "none (baseline)", "cmd": out.Cmd})
		} else if out.Exit != 0 {
			common.Fatalf("%s exited %d on unannotated packages:\n%s", out.Cmd, out.Exit, c09Tail(out.Stderr))
		}
		mu.Lock()
		baseline[bkey{c.b, c.d}] = el
		mu.Unlock()
	})

	modDirs := c10ModuleDirs(base, modules)
	type cell struct {
		pat c10Pattern
		dir string
		cfg c09Config
		d   drv.Driver
		b   int
	}
	var cells []cell
	for _, pat := range pats {
		pdir := filepath.Join(root, "p"+pat.Name)
		var repl strings.Builder
		for _, m := range modules {
			src := modDirs[m]
			if src == "" {
				common.Fatalf("module %s not in the build list", m)
			}
			dst := filepath.Join(pdir, "mods", strings.ReplaceAll(m, "/", "_"))
			c10CopyTree(src, dst)
			if _, err := os.Stat(filepath.Join(dst, "go.mod")); err != nil {
				c09must(os.WriteFile(filepath.Join(dst, "go.mod"), []byte("module "+m+"\n"), 0o644))
			}
			fmt.Fprintf(&repl, "replace %s => %s\n", m, dst)
		}
		cdir := filepath.Join(pdir, "consumer")
		c09WriteConsumer(cdir, "\n"+repl.String())
		pkgs, _ := c09List(cdir, patterns)
		if strings.Join(c09Paths(pkgs), " ") != strings.Join(c09Paths(basePkgs), " ") {
			common.Fatalf("the scratch copy for pattern %s lists different packages than the module cache", pat.Name)
		}
		var st c10InjectStats
		var smu sync.Mutex
		drv.ParallelDo(len(pkgs), common.NumWorkers(), func(i int) {
			p := pkgs[i]
			if !strings.HasPrefix(p.Dir, pdir) {
				common.Fatalf("package %s resolved outside the scratch copy: %s", p.Path, p.Dir)
			}
			out, s, err := c10InjectPkgFiles(p.AllFiles(), os.ReadFile, pat)
			if err != nil {
				common.Fatalf("injection %s into %s: %v", pat.Name, p.Path, err)
			}
			for fn, b := range out {
				c09must(os.WriteFile(fn, b, 0o644))
			}
			smu.Lock()
			st.add(s)
			smu.Unlock()
		})
		run.Count("module_injected_type_annotation_sets", st.Types)
		run.Count("module_injected_field_annotations", st.Fields)
		run.Count("module_injected_func_annotation_sets", st.Funcs)
		run.Count("module_injected_ignore_comments", st.Ignores)
		run.Count("module_injected_on_generic_declarations", st.Generic)
		run.Count("module_injection_sites_skipped_not_first_on_line", st.Skipped)
		for _, cfg := range configs {
			for _, d := range drivers {
				for b := range batches {
					cells = append(cells, cell{pat, cdir, cfg, d, b})
				}
			}
		}
	}
	run.Count("module_driver_invocations_planned", len(cells))
	completed := 0
	drv.ParallelDo(len(cells), workers, func(i int) {
		c := cells[i]
		if time.Now().After(deadline) {
			return
		}
		b := batches[c.b]
		where := fmt.Sprintf("module-batch %s..%s", b[0].Path, b[len(b)-1].Path)
		mu.Lock()
		bound := c10HangBound(baseline[bkey{c.b, c.d}])
		mu.Unlock()
		req := drv.Req{Driver: c.d, Dir: c.dir, Flags: c.cfg.Flags, Env: c10DriverEnv, Patterns: c09Paths(b)}
		out, el := c10RunWithBound(req, bound)
		if out == nil {
			run.Report(common.Cex{Sig: fmt.Sprintf("hang|where=%s|pattern=%s|config=%s|driver=%s", where, c.pat.Name, c.cfg.Name, c.d),
				Summary: fmt.Sprintf("%s on %s with pattern %s (%s) still running after %s (unannotated: %s)", c.d, where, c.pat.Name, c.cfg.Name, el, baseline[bkey{c.b, c.d}])})
			run.NotExhaustive("a driver invocation was abandoned at the hang bound")
			return
		}
		in := map[string]bool{}
		for _, p := range b {
			in[p.Path] = true
		}
		if crash := c10CrashText(out, c.d); crash != "" {
			// attribute to a package: run the packages of the batch on their own until one crashes
			// (at most three such searches per distinct panic line; a gross defect crashes everywhere)
			found := false
			for _, p := range b {
				if found || !c10Attribute(crash) {
					break
				}
				o1, _ := c10RunWithBound(drv.Req{Driver: c.d, Dir: c.dir, Flags: c.cfg.Flags, Env: c10DriverEnv, Patterns: []string{p.Path}}, bound)
				if o1 != nil && c10CrashText(o1, c.d) != "" {
					found = true
					c10Attributed(crash)
					c10ReportCrash(run, p.Path, c10CrashText(o1, c.d), c10StackOf(o1), map[string]any{"pattern": c.pat.Name, "config": c.cfg.Name, "driver": c.d.String(), "cmd": o1.Cmd})
				}
			}
			if !found {
				c10ReportCrash(run, where, crash, c10StackOf(out), map[string]any{"pattern": c.pat.Name, "config": c.cfg.Name, "driver": c.d.String(), "cmd": out.Cmd})
			}
		} else if out.Exit != 0 {
			common.Fatalf("%s exited %d without crash marker after injection %s (only comments were inserted):\n%s", out.Cmd, out.Exit, c.pat.Name, c09Tail(out.Stderr))
		}
		n := map[string]int{}
		for _, d := range out.Diags {
			n[c09BasePkg(d.Pkg, in)]++
		}
		for _, p := range b {
			nt := ""
			if n[p.Path] > 0 {
				nt = fmt.Sprintf("mod|%s|%s|%s|%s", p.Path, c.pat.Name, c.cfg.Name, c.d)
			}
			run.State(1, fmt.Sprintf("%s|%s|%s|%s|%d", p.Path, c.pat.Name, c.cfg.Name, c.d, n[p.Path]), nt)
		}
		run.Count("module_diagnostics_produced", len(out.Diags))
		mu.Lock()
		completed++
		if completed%17 == 1 {
			run.Sample(map[string]any{"driver": c.d.String(), "pattern": c.pat.Name, "config": c.cfg.Name, "first_package": b[0].Path, "diagnostics": len(out.Diags), "seconds": el.Seconds()})
		}
		mu.Unlock()
	})
	if completed < len(cells) {
		run.NotExhaustive(fmt.Sprintf("time budget: %d of %d on-disk driver invocations completed", completed, len(cells)))
	}
}

// c10CrashText looks for evidence of an abnormal end outside the JSON diagnostics: diagnostic
// messages quote source lines, and real-world source lines contain "panic:" and "internal error".
// The standalone driver prints JSON on stdout, so only its stderr is searched; the vet driver
// prints pretty-printed JSON objects on stderr ("{" ... "}" at column 0) between "# package"
// lines, which are removed first. Analyzer errors reported inside the JSON tree count as well.
func c10CrashText(o *drv.Out, d drv.Driver) string {
	text := o.Stderr
	if d == drv.Vet {
		var keep []string
		inJSON := false
		for _, l := range strings.Split(text, "\n") {
			switch {
			case inJSON:
				if l == "}" {
					inJSON = false
				}
			case l == "{}":
			case strings.HasPrefix(l, "{"):
				inJSON = true
			case strings.HasPrefix(l, "# "):
			default:
				keep = append(keep, l)
			}
		}
		text = strings.Join(keep, "\n")
	}
	for _, needle := range []string{"panic:", "internal error", "fatal error:", "goroutine 1 ["} {
		if i := strings.Index(text, needle); i >= 0 {
			end := i + 300
			if end > len(text) {
				end = len(text)
			}
			return text[i:end]
		}
	}
	if len(o.Errors) > 0 {
		return "analyzer error: " + strings.Join(o.Errors, "; ")
	}
	return ""
}

var (
	c10AttrMu    sync.Mutex
	c10AttrCount = map[string]int{}
)

// c10Attribute says whether another per-package search for this panic is worthwhile.
func c10Attribute(crash string) bool {
	c10AttrMu.Lock()
	defer c10AttrMu.Unlock()
	return c10AttrCount[c10PanicLine(crash)] < 3
}

func c10Attributed(crash string) {
	c10AttrMu.Lock()
	c10AttrCount[c10PanicLine(crash)]++
	c10AttrMu.Unlock()
}

func c10StackOf(o *drv.Out) string {
	all := o.Stderr + "\n" + o.Stdout
	if i := strings.Index(all, "panic:"); i >= 0 {
		return all[i:]
	}
	if i := strings.Index(all, "fatal error:"); i >= 0 {
		return all[i:]
	}
	return c09Tail(all)
}

func init() { Register("C10", C10) }

package checks

import (
	"fmt"
	"sort"
	"strings"

	"verif/mc/internal/common"
	"verif/mc/internal/e1"
	"verif/mc/internal/prog"
)

// permutations of 0..n-1
func perms(n int) [][]int {
	if n == 0 {
		return [][]int{{}}
	}
	var out [][]int
	for _, p := range perms(n - 1) {
		for i := 0; i <= len(p); i++ {
			q := append(append(append([]int(nil), p[:i]...), n-1), p[i:]...)
			out = append(out, q)
		}
	}
	return out
}

type layoutT struct {
	name   string
	perm   []int // new position -> base index (nil = identity)
	files  []int // per base index: file (nil = all in file 0)
	blank  bool
	mangle int
}

// layouts returns the transformation family for a base with n declarations: every
// permutation x every assignment to two files, blank lines / comments, whitespace, renaming,
// and (pairs) each text-level transformation composed with each structural one.
func layouts(n int, pairs bool) []layoutT {
	var structural []layoutT
	for _, p := range perms(n) {
		for mask := 0; mask < 1<<n; mask++ {
			f := make([]int, n)
			for i := range f {
				f[i] = (mask >> i) & 1
			}
			structural = append(structural, layoutT{name: fmt.Sprintf("perm%v/files%v", p, f), perm: p, files: f})
		}
	}
	out := append([]layoutT(nil), structural[1:]...) // [0] is the identity
	text := []layoutT{{name: "blank+comments", blank: true}, {name: "whitespace", mangle: 1}, {name: "rename", mangle: 2},
		{name: "blank+whitespace", blank: true, mangle: 1}, {name: "blank+rename", blank: true, mangle: 2}}
	out = append(out, text...)
	if pairs {
		for _, s := range structural[1:] {
			for _, t := range text[:3] {
				c := s
				c.name += "+" + t.name
				c.blank, c.mangle = t.blank, t.mangle
				out = append(out, c)
			}
		}
	}
	return out
}

// C12: verdicts do not depend on source layout.
func C12(tier common.Tier) int {
	run := common.NewRun("C12", tier, "model_checking")
	depth, pairs := 2, false
	if tier == "thorough" {
		depth, pairs = 3, true
	}
	run.SetRule("state = (base program, layout transformation). Base programs are the declaration histories of the C01-C04 universes; the transformation group (all permutations of the declarations x all assignments to two files, blank lines + ordinary comments before every declaration and statement, gofmt-preimage whitespace, consistent renaming of locals/receivers, and their pairwise compositions in the thorough tier) is applied to each; both programs are analysed by the real analyzers and the verdict keyed by (declaration id, statement, code) must not change (TONL01/PKGO01: the set of types reported in the using package). Non-trivial = base has at least one diagnostic.",
		fmt.Sprintf("bases: all histories of depth<=%d over the encloser alphabets (IMM, CTOR in d and u; TONL, PKGO with one statement per declaration); transformations as listed, pairs=%v", depth, pairs))
	run.Assume("transformations are semantics-preserving by construction; the whitespace transformation is verified to have the same gofmt image as the original on every program")
	common.Sharded(run, common.NumWorkers(), func(run *common.Run, sh common.Shard) {
		idx := 0
		// IMM / CTOR universe
		for _, fam := range []*e1.Family{&e1.FamIMM, &e1.FamCTOR} {
			sites := fam.Sites()
			var core []e1.Site
			for _, s := range sites {
				if s.Core || s.PkgLevel != "" {
					core = append(core, s)
				}
			}
			for _, inU := range []bool{false, true} {
				alpha := e1.Alphabet(fam, inU, []int{0})
				for _, mix := range []e1.Mix{{Imm: true, Ctor: 1, Mut: true}, {Imm: true, Ctor: 2, PreludeLast: true}} {
					e1.Histories(alpha, depth, -1, func(_ int, h []e1.Block) {
						if len(h) == 3 {
							// depth 3 over six encloser kinds (the full alphabet at depth 3 x 193 transformations is ~10^7 runs)
							for _, b := range h {
								switch b.Encl {
								case e1.EPlain, e1.ECtorNewT, e1.EMethTPtr, e1.EPkgVarClosure, e1.EPkgVarDirect, e1.EInit:
								default:
									return
								}
							}
						}
						idx++
						if !sh.Mine(idx) {
							return
						}
						use := sites
						if len(h) == 3 {
							use = core
						}
						base := &e1.Spec{InU: inU, Mix: mix, Sites: use}
						for i, b := range h {
							base.Blocks = append(base.Blocks, e1.Block{Encl: b.Encl, File: 0, ID: i + 1})
						}
						bo := e1.Observe(fam, base)
						for _, lt := range layouts(len(h), pairs) {
							v := &e1.Spec{InU: inU, Mix: mix, Sites: use, BlankLines: lt.blank, Mangle: lt.mangle}
							for pos := range h {
								bi := pos
								if lt.perm != nil {
									bi = lt.perm[pos]
								}
								f := 0
								if lt.files != nil {
									f = lt.files[bi]
								}
								v.Blocks = append(v.Blocks, e1.Block{Encl: h[bi].Encl, File: f, ID: bi + 1})
							}
							vo := e1.Observe(fam, v)
							compareLayout(run, fam.Name, lt.name, histString(h), pkgOf(inU), mix.String(), bo.BySite, vo.BySite, bo.Crash, vo.Crash, vo.Text, "")
						}
						// nested @ignore scopes with the same token: a file-level comment in every file plus a stand-alone comment
						// before the first declaration. Everything is suppressed in the base and must stay so in every layout.
						if len(h) >= 2 && h[0].Encl != e1.EPkgVarDirect && h[0].Encl != e1.EPkgVarDirectRev {
							tok := "// @ignore " + fam.Name
							ib := &e1.Spec{InU: inU, Mix: mix, Sites: use, FileIgnore: tok}
							for i, b := range h {
								nb := e1.Block{Encl: b.Encl, File: 0, ID: i + 1}
								if i == 0 {
									nb.Ignore = tok
								}
								ib.Blocks = append(ib.Blocks, nb)
							}
							ibo := e1.Observe(fam, ib)
							for _, lt := range layouts(len(h), false) {
								if lt.perm == nil {
									continue
								}
								v := &e1.Spec{InU: inU, Mix: mix, Sites: use, FileIgnore: tok}
								for pos := range h {
									bi := lt.perm[pos]
									v.Blocks = append(v.Blocks, e1.Block{Encl: h[bi].Encl, File: lt.files[bi], ID: bi + 1, Ignore: ib.Blocks[bi].Ignore})
								}
								vo := e1.Observe(fam, v)
								compareLayout(run, fam.Name, "nested-ignore/"+lt.name, histString(h), pkgOf(inU), mix.String(), ibo.BySite, vo.BySite, ibo.Crash, vo.Crash, vo.Text, "")
							}
							// the text-level layouts on the same base: blank lines and an ordinary comment also go between
							// the header comment and the package clause
							for _, tl := range []struct {
								name   string
								blank  bool
								mangle int
							}{{"blank+comments", true, 0}, {"whitespace", false, 1}, {"blank+whitespace", true, 1}} {
								v := *ib
								v.BlankLines, v.Mangle = tl.blank, tl.mangle
								vo := e1.Observe(fam, &v)
								compareLayout(run, fam.Name, "nested-ignore/"+tl.name, histString(h), pkgOf(inU), mix.String(), ibo.BySite, vo.BySite, ibo.Crash, vo.Crash, vo.Text, "")
							}
						}
						if idx%503 == 1 {
							run.Sample(map[string]any{"family": fam.Name, "base": e1.SpecJSON(base), "transformations": len(layouts(len(h), pairs))})
						}
					})
				}
			}
		}
		// Moving a declaration into a file of the same package that imports nothing: the statements that need no
		// qualifier (they reach d.T through a helper / a package-level alias declared in a.go) keep their verdicts.
		if sh.I == 0 {
			for _, fam := range []*e1.Family{&e1.FamIMM, &e1.FamCTOR} {
				sites := fam.Sites()
				for _, mix := range []e1.Mix{{Imm: true, Ctor: 1, Mut: true}, {Imm: true, Ctor: 1, Mut: true, NoOwn: true}, {Imm: true, Ctor: 2, NoOwn: true, PreludeLast: true}} {
					for _, first := range []e1.EnclKind{-1, e1.EPlain, e1.ECtorNewT, e1.EPkgVarDirect} {
						for _, fileOfFirst := range []int{0, 1} {
							mk := func(file int) *e1.Spec {
								sp := &e1.Spec{InU: true, Mix: mix, Sites: sites}
								if first >= 0 {
									sp.Blocks = append(sp.Blocks, e1.Block{Encl: first, File: fileOfFirst, ID: 1})
								}
								sp.Blocks = append(sp.Blocks, e1.Block{Encl: e1.EPlain, File: file, ID: 2})
								return sp
							}
							bo, vo := e1.Observe(fam, mk(0)), e1.Observe(fam, mk(3))
							only, onlyV := map[string]string{}, map[string]string{}
							for k, v := range bo.BySite {
								if strings.HasPrefix(k, "2/noimport") {
									only[k] = v
								}
							}
							for k, v := range vo.BySite {
								if strings.HasPrefix(k, "2/noimport") {
									onlyV[k] = v
								}
							}
							if len(only) == 0 && bo.Crash == "" {
								common.Fatalf("C12: no import-free sites in the base of family %s", fam.Name)
							}
							compareLayout(run, fam.Name, "into-import-free-file", fmt.Sprintf("first=%d@%d", first, fileOfFirst), "u", mix.String(), only, onlyV, bo.Crash, vo.Crash, vo.Text, "")
						}
					}
				}
			}
		}
		// TONL / PKGO universe
		useSites := e1.UseSites()
		for _, fam := range []string{"TONL", "PKGO"} {
			var core []int
			for i, s := range useSites {
				if s.Core && (fam != "TONL" || s.TONL) {
					core = append(core, i)
				}
			}
			pk := e1.UPkgU
			mix := e1.UseMix{TestOnly: true, Allow: 4}
			var alpha []e1.UseBlock
			for encl := e1.UEPlain; encl < e1.UseEncl(len(e1.UseEnclNames)); encl++ {
				if !pairs && encl.HasBody() && encl != e1.UEPlain && encl != e1.UEPkgVar && encl != e1.UETestOnlyFunc {
					continue // quick tier: three body enclosers
				}
				if encl.HasBody() {
					for _, c := range core {
						alpha = append(alpha, e1.UseBlock{Encl: encl, Stmts: []int{c, core[0]}})
					}
				} else {
					alpha = append(alpha, e1.UseBlock{Encl: encl})
				}
			}
			for _, pkg := range []e1.UsePkg{pk, e1.UPkgD} {
				if fam == "PKGO" && pkg.Path == e1.PathD {
					continue
				}
				var rec func(h []e1.UseBlock)
				rec = func(h []e1.UseBlock) {
					if len(h) >= 1 {
						idx++
						if sh.Mine(idx) {
							base := &e1.UseSpec{Pkg: pkg, Mix: mix, Sites: useSites}
							for i, b := range h {
								base.Blocks = append(base.Blocks, e1.UseBlock{Encl: b.Encl, Stmts: b.Stmts, ID: i + 1})
							}
							bb, _, bcrash, _ := e1.UseObserve(fam, base)
							// reordering the declarations of the DECLARING package (and annotating only a subset of the items)
							skips := []int{0, 3, 7, 24}
							if !pairs && len(h) > 1 {
								skips = nil // quick tier: declaring-package reordering on single-declaration bases
							}
							for _, skip := range skips {
								sb := *base
								sb.Mix.Skip = skip
								sbb := bb
								var sc string
								if skip != 0 {
									sbb, _, sc, _ = e1.UseObserve(fam, &sb)
								} else {
									sc = bcrash
								}
								for order := 1; order < 4; order++ {
									v := sb
									v.Mix.DeclOrder = order
									vb, _, vcrash, text := e1.UseObserve(fam, &v)
									compareLayout(run, fam, fmt.Sprintf("declaring-package-order%d/skip%d", order, skip), e1.UseSpecString(&sb), pkg.Path, sb.Mix.String(), sbb, vb, sc, vcrash, text, fam+"01")
								}
							}
							// the same base with an inline @ignore on the first statement of the first declaration: the comment
							// travels with its statement, so the set of types reported in the package must survive every layout
							// (for a one-line declaration that is itself a site, the comment trails the declaration)
							if len(h) >= 2 && (h[0].Encl.HasBody() || h[0].Encl.OneLiner()) {
								ib := *base
								ib.Blocks = append([]e1.UseBlock(nil), base.Blocks...)
								ib.Blocks[0].Trail = "// @ignore " + fam + "01"
								ibb, _, ic, _ := e1.UseObserve(fam, &ib)
								for _, lt := range layouts(len(h), false) {
									if lt.perm == nil {
										continue
									}
									v := &e1.UseSpec{Pkg: pkg, Mix: mix, Sites: useSites}
									for pos := range h {
										bi := lt.perm[pos]
										v.Blocks = append(v.Blocks, e1.UseBlock{Encl: h[bi].Encl, Stmts: h[bi].Stmts, File: lt.files[bi], ID: bi + 1, Trail: ib.Blocks[bi].Trail})
									}
									vb, _, vcrash, text := e1.UseObserve(fam, v)
									compareLayout(run, fam, "with-inline-ignore/"+lt.name, e1.UseSpecString(&ib), pkg.Path, mix.String(), ibb, vb, ic, vcrash, text, fam+"01")
								}
							}
							for _, lt := range layouts(len(h), pairs) {
								v := &e1.UseSpec{Pkg: pkg, Mix: mix, Sites: useSites, BlankLines: lt.blank, Mangle: lt.mangle}
								for pos := range h {
									bi := pos
									if lt.perm != nil {
										bi = lt.perm[pos]
									}
									f := 0
									if lt.files != nil {
										f = lt.files[bi]
									}
									v.Blocks = append(v.Blocks, e1.UseBlock{Encl: h[bi].Encl, Stmts: h[bi].Stmts, File: f, ID: bi + 1})
								}
								vb, _, vcrash, text := e1.UseObserve(fam, v)
								compareLayout(run, fam, lt.name, e1.UseSpecString(base), pkg.Path, mix.String(), bb, vb, bcrash, vcrash, text, fam+"01")
							}
						}
					}
					if len(h) == depth {
						return
					}
					for bi, b := range alpha {
						// the third declaration comes from a reduced alphabet (every 7th element): 3 declarations x 193
						// transformations over the full alphabet would be ~10^8 runs
						if len(h) == 2 && bi%7 != 0 {
							continue
						}
						if len(h) == 2 && (len(h[0].Stmts) > 0 && h[0].Stmts[0] != core[0] || len(h[1].Stmts) > 0 && h[1].Stmts[0] != core[0]) {
							continue
						}
						nh := append(append([]e1.UseBlock(nil), h...), b)
						if !e1.ValidUseHistory(nh) {
							continue
						}
						rec(nh)
					}
				}
				rec(nil)
			}
		}
		if sh.I == 0 {
			implLayouts(run)
		}
	})
	return run.Finish()
}

// implLayouts: @implements verdicts must not depend on which file of the package a declaration (together
// with the import it needs) lives in, on the order of declarations, or on the names (= order) of the files.
// Two interface packages share the package name "contract"; A refers to the first, B to the second, so
// A and B can never share a file, and E needs no import.
func implLayouts(run *common.Run) {
	ia := prog.Pkg{Path: "ex.com/m/ia/contract", Files: []prog.File{{Name: "c.go", Src: "package contract\n\ntype X interface{ Do() }\n"}}}
	ib := prog.Pkg{Path: "ex.com/m/ib/contract", Files: []prog.File{{Name: "c.go", Src: "package contract\n\ntype X interface {\n\tDo()\n\tUndo(n int) string\n}\n"}}}
	type decl struct{ id, imp, src, want string }
	decls := []decl{
		{"A", "ex.com/m/ia/contract", "// A implements the first contract.\n// @implements contract.X\ntype A struct{}\n\nfunc (A) Do() {}\n", ""},
		{"B", "ex.com/m/ib/contract", "// B claims the second contract but lacks Undo.\n// @implements contract.X\ntype B struct{}\n\nfunc (B) Do() {}\n", "IMPL03"},
		{"E", "", "type Local interface{ Run() }\n\n// E claims a local interface.\n// @implements Local\ntype E struct{}\n", "IMPL03"},
		{"F", "", "// F names a package no file imports.\n// @implements zz.Nope\ntype F struct{}\n", "IMPL01"},
	}
	names := [][2]string{{"a.go", "b.go"}, {"z.go", "y.go"}}
	n := 0
	for assign := 0; assign < 16; assign++ { // file of A,B,E,F
		f := func(i int) int { return (assign >> i) & 1 }
		if f(0) == f(1) {
			continue // A and B need different files
		}
		for _, order := range perms(4) {
			for _, nm := range names {
				var files [2]strings.Builder
				var imps [2][]string
				for _, di := range order {
					d := decls[di]
					fi := f(di)
					if d.imp != "" {
						imps[fi] = append(imps[fi], d.imp)
					}
				}
				lineOf := map[string][2]int{} // decl id -> (file, line of the type spec)
				for fi := 0; fi < 2; fi++ {
					files[fi].WriteString("package impl\n\n")
					for _, im := range imps[fi] {
						files[fi].WriteString("import \"" + im + "\"\n\nvar _ contract.X\n\n")
					}
				}
				for _, di := range order {
					d := decls[di]
					fi := f(di)
					cur := strings.Count(files[fi].String(), "\n")
					for li, l := range strings.Split(d.src, "\n") {
						if strings.HasPrefix(l, "type "+d.id+" ") {
							lineOf[d.id] = [2]int{fi, cur + li + 1}
						}
					}
					files[fi].WriteString(d.src + "\n")
				}
				p := &prog.Program{Pkgs: []prog.Pkg{ia, ib, {Path: "ex.com/m/impl", Files: []prog.File{{Name: nm[0], Src: files[0].String()}, {Name: nm[1], Src: files[1].String()}}}}}
				// pass.Files follows file-name order
				if nm[0] > nm[1] {
					pk := &p.Pkgs[2]
					pk.Files[0], pk.Files[1] = pk.Files[1], pk.Files[0]
				}
				res, err := prog.Run(p, prog.Opts{})
				if err != nil {
					common.Fatalf("impl layout program does not compile: %v\n%s", err, p.Text())
				}
				n++
				got := map[string]string{}
				for _, d := range res.Diags {
					if d.Analyzer != "implementschecker" {
						continue
					}
					for id, fl := range lineOf {
						if d.File == "ex.com/m/impl/"+nm[fl[0]] && d.Line == fl[1] {
							got[id] += d.Code
						}
					}
				}
				out := ""
				for _, d := range decls {
					out += d.id + "=" + got[d.id] + ";"
					if got[d.id] != d.want {
						run.Report(common.Cex{Sig: fmt.Sprintf("impl-layout|decl=%s|file=%d|names=%s|got=%s|want=%s", d.id, f(int(d.id[0]-'A')%4), nm[0], got[d.id], d.want),
							Summary: fmt.Sprintf("@implements verdict of %s depends on the layout: assignment %04b, order %v, files %v: got [%s], every layout must give [%s] %s", d.id, assign, order, nm, got[d.id], d.want, res.Panic),
							Detail:  map[string]any{"program": p.Text()}})
					}
				}
				run.State(1, out, fmt.Sprintf("impl-layout|%d|%v|%s", assign, order, nm[0]))
			}
		}
	}
	run.Count("impl_layout_programs", n)
}

func pkgOf(inU bool) string {
	if inU {
		return "u"
	}
	return "d"
}

func histString(h []e1.Block) string {
	var l []string
	for _, b := range h {
		l = append(l, b.Encl.String())
	}
	return strings.Join(l, ">")
}

// compareLayout compares per-site verdicts; for a once-per-file code (onceCode != "") that code
// is compared as the set of types reported in the package.
func compareLayout(run *common.Run, fam, tname, base, pkg, mix string, bo, vo map[string]string, bcrash, vcrash, text, onceCode string) {
	tclass := tname
	if i := strings.Index(tclass, "perm"); i >= 0 {
		// structural signature: drop the concrete permutation / file vectors
		tclass = "perm/files" + tname[strings.LastIndex(tname, "]")+1:]
	}
	if bcrash != "" || vcrash != "" {
		if (bcrash == "") != (vcrash == "") {
			run.Report(common.Cex{Sig: fmt.Sprintf("crash|%s|t=%s|pkg=%s", fam, tclass, pkg),
				Summary: fmt.Sprintf("layout transformation %s changes whether the analysis crashes (base %s): base=%q variant=%q", tname, base, bcrash, vcrash),
				Detail:  map[string]any{"base": base, "transformation": tname, "program": text}})
		}
		run.State(1, "crash", "")
		return
	}
	strip := func(codes string) string {
		if onceCode == "" {
			return codes
		}
		var l []string
		for _, c := range strings.Split(codes, ",") {
			if c != "" && c != onceCode {
				l = append(l, c)
			}
		}
		return strings.Join(l, ",")
	}
	typesOf := func(m map[string]string) string {
		set := map[string]bool{}
		for k, codes := range m {
			if onceCode != "" && strings.Contains(codes, onceCode) {
				if strings.Contains(k, "Mock2") {
					set["Mock2"] = true
				} else {
					set["Mock"] = true
				}
			}
		}
		var l []string
		for t := range set {
			l = append(l, t)
		}
		sort.Strings(l)
		return strings.Join(l, "+")
	}
	var keys []string
	for k := range bo {
		keys = append(keys, k)
	}
	sort.Strings(keys)
	nt := ""
	var out strings.Builder
	for _, k := range keys {
		b, w := strip(bo[k]), strip(vo[k])
		if bo[k] != "" {
			nt = base + "|" + tname + "|" + fam + pkg + mix
		}
		out.WriteString(vo[k] + ";")
		if b != w {
			site := k[strings.Index(k, "/")+1:]
			run.Report(common.Cex{Sig: fmt.Sprintf("layout|%s|t=%s|pkg=%s|site=%s|base=%s|variant=%s", fam, tclass, pkg, site, b, w),
				Summary: fmt.Sprintf("%s: statement %q gets [%s] in the base layout but [%s] after %s (base %s, package %s, %s)", fam, k, b, w, tname, base, pkg, mix),
				Detail:  map[string]any{"base": base, "transformation": tname, "site": k, "program_after": text}})
		}
	}
	if len(vo) != len(bo) {
		run.Report(common.Cex{Sig: fmt.Sprintf("harness-sites|%s|t=%s", fam, tclass), Summary: "site sets differ between base and variant (harness defect)"})
	}
	if bt, vt := typesOf(bo), typesOf(vo); bt != vt {
		run.Report(common.Cex{Sig: fmt.Sprintf("layout-types|%s|t=%s|pkg=%s|base=%s|variant=%s", fam, tclass, pkg, bt, vt),
			Summary: fmt.Sprintf("%s: types reported in the package change from {%s} to {%s} after %s (base %s)", onceCode, bt, vt, tname, base),
			Detail:  map[string]any{"base": base, "transformation": tname, "program_after": text}})
	}
	run.State(1, out.String(), nt)
}

func init() { Register("C12", C12) }

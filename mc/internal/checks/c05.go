package checks

// C05 — @implements verdicts agree with Go's own type checker.
//
// Exhaustive bounded enumeration of generated programs, executed on the real analyzers through
// checker.Analyze; the reference is go/types on the very same type-checked program
// (file scope lookup for the qualifier, package scope lookup for the interface,
// types.Implements / types.NewMethodSet / types.Identical for IMPL03 and its method list).

import (
	"fmt"
	"sort"
	"strings"

	"verif/mc/internal/common"
	"verif/mc/internal/prog"
)

const c05BatchSize = 48

type c05Batch []*c05Case

func c05Batches(thorough bool) []c05Batch {
	var out []c05Batch
	add := func(cs []*c05Case) {
		for len(cs) > 0 {
			n := c05BatchSize
			if n > len(cs) {
				n = len(cs)
			}
			out = append(out, c05Batch(cs[:n]))
			cs = cs[n:]
		}
	}
	add(c05RecvCases())
	add(c05UnexpCases())
	add(c05XpkgCases())
	add(c05ListingCases())
	add(c05LocCases())
	add(c05QualCases(thorough))
	out = append(out, c05Batch(c05OtherFileBatch()))
	add(c05UniverseCases())
	add(c05MultiCases(thorough))
	add(c05ArityCases(thorough))
	add(c05SigCases(thorough))
	// the same cases ALONE in their package: the only annotation a package holds may be one that cannot be resolved,
	// names no interface, or is correct — nothing else is there to make the checker look anything up
	for _, cs := range [][]*c05Case{c05QualCases(thorough), c05LocCases(), c05RecvCases(), c05UnexpCases(), c05UniverseCases()} {
		for _, c := range cs {
			out = append(out, c05Batch{c})
		}
	}
	return out
}

type c05Run struct {
	outcomes []c05Outcome
	nonsite  []string
	crash    string
	text     string
}

// c05Exec renders a batch, runs the real analyzers and judges every case.
func c05Exec(b c05Batch) *c05Run {
	rd := c05Render(b)
	res, err := prog.Run(rd.Prog, prog.Opts{Roots: []string{c05Main}})
	if err != nil {
		common.Fatalf("C05: generated program does not compile: %v\n%s", err, rd.Prog.Text())
	}
	r := &c05Run{text: rd.Prog.Text()}
	if res.Panic != "" || len(res.Errs) > 0 {
		r.crash = c05FirstLine(res.Panic) + strings.Join(res.Errs, ";")
		return r
	}
	pp := res.Loaded.By[c05Main]
	index := c05Index(pp)
	byLine := map[string][]prog.Diag{}
	for _, d := range res.Diags {
		if d.Analyzer != "implementschecker" {
			r.nonsite = append(r.nonsite, "other-analyzer:"+d.Analyzer+":"+d.Code)
			continue
		}
		k := fmt.Sprintf("%s:%d", d.File, d.Line)
		byLine[k] = append(byLine[k], d)
	}
	for i, c := range b {
		k := fmt.Sprintf("%s:%d", rd.Files[i], rd.Lines[i])
		ds := byLine[k]
		delete(byLine, k)
		r.outcomes = append(r.outcomes, c05Judge(c, i, rd, pp, index, ds))
	}
	var rest []string
	for _, ds := range byLine {
		for _, d := range ds {
			rest = append(rest, d.Code)
		}
	}
	sort.Strings(rest)
	for _, code := range rest {
		r.nonsite = append(r.nonsite, "not-on-a-judged-type:"+code)
	}
	return r
}

func c05VerdictList(vs []c05Verdict) string {
	var s []string
	for _, v := range vs {
		s = append(s, v.Short())
	}
	return strings.Join(s, ";")
}

func c05CheckBatch(run *common.Run, b c05Batch, seen map[string]string) {
	r := c05Exec(b)
	run.Count("programs", 1)
	if r.crash != "" {
		run.Report(common.Cex{Sig: "crash|fam=" + b[0].Fam, Summary: "analysis crashed: " + r.crash + " on batch starting with " + b[0].String(),
			Detail: map[string]any{"program": r.text}})
		run.State(len(b), "crash", "")
		return
	}
	for _, ns := range r.nonsite {
		run.Report(common.Cex{Sig: "nonsite|fam=" + b[0].Fam + "|" + ns, Summary: "diagnostic that belongs to no judged type: " + ns + "; batch starting with " + b[0].String(),
			Detail: map[string]any{"program": r.text}})
	}
	for i, c := range b {
		o := r.outcomes[i]
		nt := ""
		nWant := 0
		for _, w := range o.Want {
			if w.Code != "" {
				nWant++
			}
		}
		if nWant > 0 {
			nt = c.Fam + "|" + c.Coord
		}
		run.State(1, c.Fam+"|"+c05VerdictList(o.Got)+"|"+strings.Join(o.Extra, ","), nt)
		run.Count("annotations", len(c.Anns))
		run.Count("diagnostics_expected", nWant)
		run.Count("cases_"+c.Fam, 1)
		if nWant == 0 {
			run.Count("cases_expected_silent", 1)
		}
		if o.Agree {
			continue
		}
		sig := c05Sig(c, o)
		run.Count("disagreements", 1)
		if final, ok := seen[sig]; ok {
			run.Report(common.Cex{Sig: final})
			continue
		}
		orig := sig
		// second execution, in isolation: the case alone in its own program. This both replays
		// the counterexample and gives the smallest program that shows it.
		iso := c05Exec(c05Batch{c})
		detail := map[string]any{"case": c.String(), "want": c05VerdictList(o.Want), "got": c05VerdictList(o.Got), "program": iso.text}
		if iso.crash != "" || len(iso.outcomes) != 1 || c05Sig(c, iso.outcomes[0]) != sig || iso.outcomes[0].Agree {
			// the verdict depends on what else is annotated in the package: keep the batch
			isoSig := "crash"
			if iso.crash == "" && len(iso.outcomes) == 1 {
				isoSig = c05Sig(c, iso.outcomes[0])
				if iso.outcomes[0].Agree {
					isoSig = "agrees"
				}
			}
			detail["isolated"] = isoSig
			detail["program"] = r.text
			sig += "|isolated=differs"
		}
		seen[orig] = sig
		run.Report(common.Cex{Sig: sig,
			Summary: fmt.Sprintf("%s: implementschecker reported [%s], go/types says [%s]", c.String(), c05VerdictList(o.Got), c05VerdictList(o.Want)),
			Detail:  detail})
	}
}

func C05(tier common.Tier) int {
	run := common.NewRun("C05", tier, "model_checking")
	thorough := tier == "thorough"
	batches := c05Batches(thorough)
	total := 0
	fams := map[string]int{}
	for _, b := range batches {
		total += len(b)
		for _, c := range b {
			fams[c.Fam]++
		}
	}
	var fl []string
	for f, n := range fams {
		fl = append(fl, fmt.Sprintf("%s=%d", f, n))
	}
	sort.Strings(fl)
	pos, rc := "{param, result} of arity 1, value receiver, no &", "2 annotations from a pool of 11 (all ordered pairs) + 18 triples"
	if thorough {
		pos, rc = "{param 1/1, param 2/2, result 1/1, result 2/2} x receiver {value, pointer} x {plain, &}", "all ordered pairs and triples from a pool of 11 annotations"
	}
	run.SetRule("state = one annotated type with its @implements lines inside a generated package (cases are packed ~48 per program, and the qualifier / location / receiver / unexported-method / universe families are additionally run one case per program; every program is type-checked by go/types and analysed by the real analyzers through checker.Analyze). Invariant per state: the implementschecker diagnostics on the type's line (code, interface, list of missing methods) equal what go/types says: IMPL01 iff no import declaration of the file brings a package in under the qualifier (explicit alias other than _ and ., else types.Package.Name() of the imported package; cross-checked against the file scope's PkgName binding), else IMPL02 iff the resolved package's scope has no interface-typed TypeName of that name, else IMPL03 iff !types.Implements(V, I) for V = T or *T, listing exactly the methods of I that types.NewMethodSet(V) lacks or has with a type that is not types.Identical. Non-trivial = the reference expects at least one diagnostic.",
		fmt.Sprintf("%d cases in %d programs [%s]; signature alphabet of %d type expressions, full product interface-side x implementation-side in positions %s; parameter/result lists of length 0-2 over {int,string} plus variadic/slice last parameter; %d method sources x %d interface shapes x {plain,&}; unexported-method grid; cross-package promotion grid (7 placements of interface / embedded base over packages a, b and the annotated type's own package x interface methods {exported, unexported, both} x receiver kinds of the two promoted methods {value,pointer}^2 x embedding {B, *B, E{*B}, *E{B}, embedded interface} x {plain,&}); 3-method listing grid (3^3); %d import configurations x import order {alone, after, before an unrelated import} x qualifier kinds x %d interface-name kinds; %s",
			total, len(batches), strings.Join(fl, " "), len(c05Tau), pos, len(c05Srcs), len(c05Shapes), len(c05ImpCfgs), len(c05StdInames), rc))
	run.Assume("go/parser, go/types (Implements, MissingMethod, NewMethodSet, Identical, file scopes) and checker.Analyze trusted",
		"type aliases are materialised (*types.Alias, the default of the go 1.25 toolchain that builds both the harness and the tool)",
		"the generated files do not exist on disk, so diagnostics carry no source excerpt; the excerpt is C19's subject")
	run.Assume("a blank or dot import counts as importing the package under its declared name (the statement says 'under its explicit alias or the imported package's declared name'; `import _ \"io\"` is the documented way to make io.Reader referable and the repository's integration fixtures rely on it)")
	run.NotJudged("an import renamed by an explicit alias referenced by its declared name or path element instead of the alias (the statement binds `its explicit alias or the imported package's declared name` and does not say the alias hides the name)", "the qualifier `_`",
		"generic interfaces / types", "an @implements line on a type alias declaration (the quantifier says defined types)",
		"qualifiers that are not a single word (yaml.v3.I, foo-go.I): outside the annotation grammar, C15's subject",
		"unexported interface names of another package", "interfaces with type-set elements (~int, unions)",
		"annotated types inside grouped or function-local declarations (layout is C12's subject)")

	common.Sharded(run, common.NumWorkers(), func(run *common.Run, sh common.Shard) {
		seen := map[string]string{}
		seed := common.Seed()
		for i, b := range batches {
			if !sh.Mine(i + seed) {
				continue
			}
			c05CheckBatch(run, b, seen)
			if i%37 == 0 && len(b) > 0 {
				run.Sample(b[len(b)/2].String())
			}
		}
	})
	return run.Finish()
}

func init() { Register("C05", C05) }

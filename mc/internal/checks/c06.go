package checks

import (
	"bytes"
	"encoding/gob"
	"fmt"
	"os"
	"reflect"
	"sort"
	"strings"
	"sync"

	"github.com/a14e/gogreement/src/annotations"
	"golang.org/x/tools/go/analysis"

	"verif/mc/internal/common"
	"verif/mc/internal/drv"
	"verif/mc/internal/e4"
	"verif/mc/internal/prog"
)

func subsetsOrdered(pkgs []string) [][]string {
	var out [][]string
	n := len(pkgs)
	for mask := 1; mask < 1<<n; mask++ {
		var s []string
		for i := 0; i < n; i++ {
			if mask&(1<<i) != 0 {
				s = append(s, pkgs[i])
			}
		}
		out = append(out, s)
		if len(s) >= 2 {
			r := make([]string, len(s))
			for i := range s {
				r[len(s)-1-i] = s[i]
			}
			out = append(out, r)
		}
	}
	return out
}

// C06: annotations cross package boundaries intact, whatever the driver or run set.
func C06(tier common.Tier) int {
	run := common.NewRun("C06", tier, "exploration")
	thorough := tier == "thorough"
	shapes := e4.Shapes()
	type fixture struct {
		name string
		p    *prog.Program
	}
	var fx []fixture
	for i, sh := range shapes {
		if !thorough && !(i == 1 || i == 5) {
			continue
		}
		fx = append(fx, fixture{"chain/" + sh.Name, e4.Chain(sh)})
	}
	for i, sh := range shapes {
		if i == 3 || i == 1 || (thorough && i == 0) {
			fx = append(fx, fixture{"diamond/" + sh.Name, e4.Diamond(sh)})
		}
	}
	fx = append(fx, fixture{"twins", e4.Twins()})
	fx = append(fx, fixture{"excluded-dep", e4.ExcludedDep()})
	fx = append(fx, fixture{"same-name", e4.SameName()})
	run.SetRule("finite grid, enumerated completely: fixture programs (import chain a<-b<-c and diamond, every annotation kind observable one edge away and inert two edges away, 7 @packageonly list shapes) x every non-empty subset of packages named on the command line in both listing orders x drivers {gogreement -json, -debug=p, -debug=s, go vet -vettool -json} plus in-process checker.Analyze in 4 modes (sequential/parallel x fact sanity check); for every package the diagnostic set must equal the `// want` markers in every cell that names it; plus the two-module layout (declaring package in a dependency module required at a version and replaced by a directory; both drivers x {whole module, each package, both packages}) with exact want markers for the importing packages. Second part: the fact value space — reflection-generated PackageAnnotations values wrapped in each of the six fact types, gob round trip as the drivers do it, byte-deterministic encoding. A case is non-trivial when the package's expected set is non-empty.",
		fmt.Sprintf("%d fixture programs; all 2^n-1 run sets x 2 orders x 4 real drivers + 4 in-process modes; fact values: one-factor-at-a-time and all pairs over the string alphabet, lists of length 0..2", len(fx)))
	run.Assume("x/tools drivers (checker, unitchecker), encoding/gob and the go command are trusted", "expected sets are written next to the fixture lines as want-markers")
	drv.Binary()

	type cell struct {
		fx      int
		driver  string
		flags   []string
		kind    drv.Driver
		inproc  *prog.Opts
		runset  []string
	}
	var cells []cell
	for fi, f := range fx {
		var names []string
		for _, pk := range f.p.Pkgs {
			names = append(names, pk.Path)
		}
		for _, rs := range subsetsOrdered(names) {
			cells = append(cells,
				cell{fx: fi, driver: "standalone", kind: drv.Standalone, runset: rs},
				cell{fx: fi, driver: "standalone-debug=p", kind: drv.Standalone, flags: []string{"-debug=p"}, runset: rs},
				cell{fx: fi, driver: "standalone-debug=s", kind: drv.Standalone, flags: []string{"-debug=s"}, runset: rs},
				cell{fx: fi, driver: "vet", kind: drv.Vet, runset: rs})
			for _, par := range []bool{false, true} {
				for _, sc := range []bool{false, true} {
					cells = append(cells, cell{fx: fi, driver: fmt.Sprintf("inprocess/parallel=%v/sanity=%v", par, sc), inproc: &prog.Opts{Parallel: par, SanityCheck: sc}, runset: rs})
				}
			}
		}
	}
	// materialise fixtures
	root := drv.Scratch()
	defer os.RemoveAll(root)
	dirs := make([]string, len(fx))
	loaded := make([]*prog.Loaded, len(fx))
	for i, f := range fx {
		dirs[i] = fmt.Sprintf("%s/f%d", root, i)
		drv.WriteModule(dirs[i], f.p)
		ld, err := prog.Load(f.p)
		if err != nil {
			common.Fatalf("fixture %s does not compile: %v", f.name, err)
		}
		loaded[i] = ld
	}
	var mu sync.Mutex
	// full message texts per (fixture, package) across all cells: must be a single rendering
	texts := map[string]map[string]string{}
	drv.ParallelDo(len(cells), common.NumWorkers(), func(ci int) {
		c := cells[ci]
		f := fx[c.fx]
		var diags []prog.Diag
		crash := ""
		if c.inproc != nil {
			o := *c.inproc
			o.Roots = c.runset
			// each in-process run needs its own loaded program (actions are per graph, packages are read-only)
			mu.Lock()
			ld := loaded[c.fx]
			mu.Unlock()
			res := prog.Analyze(ld, o)
			diags, crash = res.Diags, res.Panic+strings.Join(res.Errs, ";")
		} else {
			var pats []string
			for _, p := range c.runset {
				pats = append(pats, "./"+strings.TrimPrefix(p, "ex.com/m/"))
			}
			out := drv.Run(drv.Req{Driver: c.kind, Dir: dirs[c.fx], Flags: c.flags, Patterns: pats})
			diags, crash = out.Diags, out.Crashed()
		}
		if crash != "" {
			run.Report(common.Cex{Sig: fmt.Sprintf("crash|driver=%s|fixture=%s", c.driver, f.name),
				Summary: fmt.Sprintf("driver %s crashed on %s with run set %v: %s", c.driver, f.name, c.runset, crash)})
		}
		inSet := map[string]bool{}
		for _, p := range c.runset {
			inSet[p] = true
		}
		outcome := ""
		for _, pk := range f.p.Pkgs {
			got := e4.KeysOf(diags, pk.Path)
			if !inSet[pk.Path] {
				if len(got) > 0 {
					run.Report(common.Cex{Sig: fmt.Sprintf("unnamed-pkg-reported|driver=%s", c.driver),
						Summary: fmt.Sprintf("%s reports diagnostics for %s which is not in the run set %v (%s)", c.driver, pk.Path, c.runset, f.name)})
				}
				continue
			}
			want := e4.Wants(f.p, pk.Path)
			outcome += pk.Path + "=" + strings.Join(got, ",") + ";"
			var tl []string
			for _, d := range diags {
				if d.Pkg == pk.Path {
					// the excerpt is absent in-process (files are not on disk): compare the header line, which carries all computed text
					tl = append(tl, fmt.Sprintf("%s:%d:%d|%s|%s", d.File, d.Line, d.Col, d.Analyzer, messageHead(d.Message)))
				}
			}
			sort.Strings(tl)
			mu.Lock()
			key := f.name + "|" + pk.Path
			if texts[key] == nil {
				texts[key] = map[string]string{}
			}
			if _, ok := texts[key][strings.Join(tl, "\n")]; !ok {
				texts[key][strings.Join(tl, "\n")] = fmt.Sprintf("%s runset=%v", c.driver, c.runset)
			}
			mu.Unlock()
			if strings.Join(got, "|") != strings.Join(want, "|") {
				missing, extra := diffKeys(want, got)
				run.Report(common.Cex{
					Sig: fmt.Sprintf("facts|driver=%s|fixture=%s|pkg=%s|missing=%s|extra=%s", driverClass(c.driver), f.name, pk.Path, codesOf(missing), codesOf(extra)),
					Summary: fmt.Sprintf("package %s analysed by %s with run set %v (%s): missing %v, unexpected %v", pk.Path, c.driver, c.runset, f.name, missing, extra),
					Detail:  map[string]any{"fixture": f.name, "runset": c.runset, "driver": c.driver, "want": want, "got": got}})
			}
			nt := ""
			if len(want) > 0 {
				nt = fmt.Sprintf("%s|%s|%v|%s", f.name, c.driver, c.runset, pk.Path)
			}
			run.State(1, "", nt)
		}
		run.State(0, outcome, "")
		if ci%97 == 0 {
			run.Sample(map[string]any{"fixture": f.name, "driver": c.driver, "runset": c.runset})
		}
	})
	run.Count("driver_cells", len(cells))
	for key, m := range texts {
		if len(m) > 1 {
			var where []string
			for _, w := range m {
				where = append(where, w)
			}
			sort.Strings(where)
			run.Report(common.Cex{Sig: "message-text-differs-between-cells|" + key[strings.Index(key, "|")+1:],
				Summary: fmt.Sprintf("the diagnostics of %s are not textually identical in all drivers / run sets; first cells of each distinct rendering: %v", key, where),
				Detail:  map[string]any{"renderings": m}})
		}
	}

	c06TwoModules(run, root)
	factValueSpace(run, thorough)
	return run.Finish()
}

// messageHead is the message up to the source excerpt (the excerpt needs the file on disk).
func messageHead(msg string) string {
	lines := strings.Split(msg, "\n")
	var keep []string
	for _, l := range lines {
		t := strings.TrimSpace(l)
		if t == "|" || strings.Contains(l, " | ") || strings.HasPrefix(t, "= help:") {
			break
		}
		keep = append(keep, l)
	}
	return strings.TrimRight(strings.Join(keep, "\n"), "\n ")
}

func driverClass(d string) string {
	if strings.HasPrefix(d, "inprocess") {
		return "inprocess"
	}
	return d
}

func diffKeys(want, got []string) (missing, extra []string) {
	w := map[string]int{}
	for _, k := range want {
		w[k]++
	}
	for _, k := range got {
		if w[k] > 0 {
			w[k]--
		} else {
			extra = append(extra, k)
		}
	}
	for k, n := range w {
		for ; n > 0; n-- {
			missing = append(missing, k)
		}
	}
	sort.Strings(missing)
	return
}

func codesOf(keys []string) string {
	set := map[string]bool{}
	for _, k := range keys {
		set[k[strings.LastIndex(k, ":")+1:]] = true
	}
	var l []string
	for c := range set {
		l = append(l, c)
	}
	sort.Strings(l)
	return strings.Join(l, "+")
}

// ---------------------------------------------------------------------------------------------
// Fact value space

var strAlphabet = []string{"", "a", "a/b.c-d", strings.Repeat("x", 200)}

// fillValues returns a list of values of type t that together exercise every field:
// one-factor-at-a-time over the alphabet, plus all pairs of string values for the first two
// string fields. Reports fields that cannot carry a value through gob.
func elemValues(t reflect.Type, problems *[]string) []reflect.Value {
	base := reflect.New(t).Elem()
	out := []reflect.Value{base}
	var strFields []int
	for i := 0; i < t.NumField(); i++ {
		f := t.Field(i)
		if !f.IsExported() {
			*problems = append(*problems, fmt.Sprintf("%s.%s is unexported: gob drops it silently", t.Name(), f.Name))
			continue
		}
		mk := func(set func(v reflect.Value)) {
			v := reflect.New(t).Elem()
			set(v.Field(i))
			out = append(out, v)
		}
		switch f.Type.Kind() {
		case reflect.String:
			strFields = append(strFields, i)
			for _, s := range strAlphabet[1:] {
				s := s
				mk(func(v reflect.Value) { v.SetString(s) })
			}
		case reflect.Bool:
			mk(func(v reflect.Value) { v.SetBool(true) })
		case reflect.Int, reflect.Int64, reflect.Int32:
			for _, n := range []int64{1, 7, 1 << 20} {
				n := n
				mk(func(v reflect.Value) { v.SetInt(n) })
			}
		case reflect.Slice:
			if f.Type.Elem().Kind() == reflect.String {
				for _, l := range [][]string{{"a"}, {"a", "a"}, {"", "a/b.c-d"}, {strAlphabet[3], "b"}} {
					l := l
					mk(func(v reflect.Value) { v.Set(reflect.ValueOf(l)) })
				}
				long := make([]string, 40)
				for k := range long {
					long[k] = fmt.Sprintf("ex.com/p%02d", k)
				}
				mk(func(v reflect.Value) { v.Set(reflect.ValueOf(long)) })
			} else {
				*problems = append(*problems, fmt.Sprintf("%s.%s has slice type %s: not covered by the value generator", t.Name(), f.Name, f.Type))
			}
		default:
			*problems = append(*problems, fmt.Sprintf("%s.%s has kind %s: cannot be verified to serialise through gob", t.Name(), f.Name, f.Type.Kind()))
		}
	}
	if len(strFields) >= 2 {
		for _, a := range strAlphabet {
			for _, b := range strAlphabet {
				v := reflect.New(t).Elem()
				v.Field(strFields[0]).SetString(a)
				v.Field(strFields[1]).SetString(b)
				out = append(out, v)
			}
		}
	}
	return out
}

func factValueSpace(run *common.Run, thorough bool) {
	paT := reflect.TypeOf(annotations.PackageAnnotations{})
	facts := []analysis.Fact{
		new(annotations.AnnotationReaderFact), new(annotations.ImplementsCheckerFact), new(annotations.ImmutableCheckerFact),
		new(annotations.ConstructorCheckerFact), new(annotations.TestOnlyCheckerFact), new(annotations.PackageOnlyCheckerFact),
	}
	var problems []string
	n := 0
	for fi := 0; fi < paT.NumField(); fi++ {
		sf := paT.Field(fi)
		if !sf.IsExported() || sf.Type.Kind() != reflect.Slice || sf.Type.Elem().Kind() != reflect.Struct {
			problems = append(problems, fmt.Sprintf("PackageAnnotations.%s: unexpected shape %s", sf.Name, sf.Type))
			continue
		}
		elems := elemValues(sf.Type.Elem(), &problems)
		// lists of length 0, 1 (every element value) and 2 (every element value paired with the next)
		var lists []reflect.Value
		lists = append(lists, reflect.MakeSlice(sf.Type, 0, 0))
		for i, e := range elems {
			l1 := reflect.MakeSlice(sf.Type, 1, 1)
			l1.Index(0).Set(e)
			lists = append(lists, l1)
			l2 := reflect.MakeSlice(sf.Type, 2, 2)
			l2.Index(0).Set(e)
			l2.Index(1).Set(elems[(i+1)%len(elems)])
			lists = append(lists, l2)
			if thorough {
				for j := range elems {
					l := reflect.MakeSlice(sf.Type, 2, 2)
					l.Index(0).Set(e)
					l.Index(1).Set(elems[j])
					lists = append(lists, l)
				}
			}
		}
		for _, l := range lists {
			pa := reflect.New(paT).Elem()
			pa.Field(fi).Set(l)
			for _, proto := range facts {
				ft := reflect.TypeOf(proto).Elem()
				fv := reflect.New(ft)
				fv.Elem().Set(pa.Convert(ft))
				n++
				fact := fv.Interface().(analysis.Fact)
				var b1, b2 bytes.Buffer
				if err := gob.NewEncoder(&b1).Encode(fact); err != nil {
					run.Report(common.Cex{Sig: "gob-encode|" + ft.Name() + "|" + sf.Name, Summary: fmt.Sprintf("gob cannot encode %s with %s set: %v", ft.Name(), sf.Name, err)})
					continue
				}
				gob.NewEncoder(&b2).Encode(fact)
				if !bytes.Equal(b1.Bytes(), b2.Bytes()) {
					run.Report(common.Cex{Sig: "gob-nondeterministic|" + ft.Name(), Summary: "two encodings of the same fact differ"})
				}
				back := reflect.New(ft)
				if err := gob.NewDecoder(&b1).Decode(back.Interface()); err != nil {
					run.Report(common.Cex{Sig: "gob-decode|" + ft.Name() + "|" + sf.Name, Summary: fmt.Sprintf("gob cannot decode %s: %v", ft.Name(), err)})
					continue
				}
				if !equalModuloEmpty(fv.Elem(), back.Elem()) {
					run.Report(common.Cex{Sig: "gob-roundtrip|" + ft.Name() + "|" + sf.Name,
						Summary: fmt.Sprintf("%s does not survive the gob round trip the drivers perform: %+v != %+v", ft.Name(), fv.Elem().Interface(), back.Elem().Interface())})
				}
				nt := ""
				if l.Len() > 0 {
					nt = fmt.Sprintf("fact|%s|%s|%d", ft.Name(), sf.Name, n)
				}
				run.State(1, "", nt)
			}
		}
	}
	sort.Strings(problems)
	seen := map[string]bool{}
	for _, p := range problems {
		if seen[p] {
			continue
		}
		seen[p] = true
		run.Report(common.Cex{Sig: "fact-field|" + strings.SplitN(p, " ", 2)[0], Summary: "fact type field that cannot be shown to cross a process boundary: " + p})
	}
	run.Count("fact_values_round_tripped", n)
}

// equalModuloEmpty is DeepEqual that identifies nil and empty slices.
func equalModuloEmpty(a, b reflect.Value) bool {
	switch a.Kind() {
	case reflect.Struct:
		for i := 0; i < a.NumField(); i++ {
			if !equalModuloEmpty(a.Field(i), b.Field(i)) {
				return false
			}
		}
		return true
	case reflect.Slice:
		if a.Len() != b.Len() {
			return false
		}
		for i := 0; i < a.Len(); i++ {
			if !equalModuloEmpty(a.Index(i), b.Index(i)) {
				return false
			}
		}
		return true
	default:
		return reflect.DeepEqual(a.Interface(), b.Interface())
	}
}

func init() { Register("C06", C06) }

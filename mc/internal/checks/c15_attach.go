package checks

import (
	"fmt"
	"sort"
	"strings"

	"github.com/a14e/gogreement/src/annotations"
	"github.com/a14e/gogreement/src/ignore"

	"verif/mc/internal/common"
)

// Part 2 of C15: the attachment matrix. One file per (site, keyword); {C} is replaced by the
// annotation comment. Everything the real readers produce for the file is compared with the
// expected set.

type c15AttachSite struct {
	Name string
	Src  string
	// Effect lists where an annotation placed at {C} takes effect: object name and the role of
	// the site ("type": doc of a top-level type; "func"/"method": doc of a function/method;
	// "field": doc of a named field of an @immutable struct). Empty = inert.
	Obj, Role, Recv string
	// Fixed is what the file produces regardless of {C}.
	Fixed []string
}

func c15AttachSites() []c15AttachSite {
	const h = "package cpkg\n\ntype Stringer interface{ String() string }\n\n"
	return []c15AttachSite{
		{Name: "spec-doc-in-group", Obj: "A", Role: "type",
			Src: h + "type (\n\t{C}\n\tA struct{ F int }\n\n\tB struct{ F int }\n)\n"},
		{Name: "group-doc", Obj: "A", Role: "type", // B has its own doc: the group doc does not apply to it
			Src: h + "{C}\ntype (\n\tA struct{ F int }\n\n\t// B is plain.\n\tB struct{ F int }\n)\n"},
		{Name: "group-doc-overridden-by-spec-doc", // spec doc takes precedence over the group doc
			Src:   h + "{C}\ntype (\n\t// @constructor Make\n\tA struct{ F int }\n)\n",
			Fixed: []string{"constructor@A[Make]"}},
		{Name: "lone-type-doc", Obj: "A", Role: "type", Src: h + "{C}\ntype A struct{ F int }\n"},
		{Name: "lone-type-doc-interface", Obj: "A", Role: "type", Src: h + "{C}\ntype A interface{ M() }\n"},
		{Name: "lone-type-doc-named", Obj: "A", Role: "type", Src: h + "{C}\ntype A int\n"},
		{Name: "lone-type-doc-middle-line", Obj: "A", Role: "type", Src: h + "// A is a thing.\n{C}\n// More words.\ntype A struct{ F int }\n"},
		{Name: "func-doc", Obj: "Fn", Role: "func", Src: h + "{C}\nfunc Fn() {}\n"},
		{Name: "method-doc", Obj: "Mt", Role: "method", Recv: "A", Src: h + "type A struct{ F int }\n\n{C}\nfunc (a A) Mt() {}\n"},
		{Name: "method-doc-pointer-receiver", Obj: "Mt", Role: "method", Recv: "A", Src: h + "type A struct{ F int }\n\n{C}\nfunc (a *A) Mt() {}\n"},
		{Name: "method-doc-unnamed-receiver", Obj: "Mt", Role: "method", Recv: "A", Src: h + "type A struct{ F int }\n\n{C}\nfunc (A) Mt() {}\n"},
		{Name: "method-doc-unnamed-pointer-receiver", Obj: "Mt", Role: "method", Recv: "A", Src: h + "type A struct{ F int }\n\n{C}\nfunc (*A) Mt() {}\n"},
		{Name: "method-doc-blank-receiver", Obj: "Mt", Role: "method", Recv: "A", Src: h + "type A struct{ F int }\n\n{C}\nfunc (_ *A) Mt() {}\n"},
		{Name: "method-doc-parenthesised-receiver", Obj: "Mt", Role: "method", Recv: "A", Src: h + "type A struct{ F int }\n\n{C}\nfunc (a *(A)) Mt() {}\n"},
		{Name: "method-doc-generic-receiver", Obj: "Mt", Role: "method", Recv: "A", Src: h + "type A[V any] struct{ F V }\n\n{C}\nfunc (a *A[V]) Mt() {}\n"},
		// the same NAME already carries the same annotations on another object: nothing is "seen before"
		{Name: "method-doc-after-annotated-same-named-method", Obj: "Mt", Role: "method", Recv: "A",
			Fixed: []string{"testonly/method(B)@Mt", "packageonly/method(B){+self}[a/b]@Mt"},
			Src:   h + "type A struct{ F int }\n\ntype B struct{ F int }\n\n// @testonly\n// @packageonly a/b\nfunc (b B) Mt() {}\n\n{C}\nfunc (a A) Mt() {}\n"},
		{Name: "method-doc-after-annotated-same-named-func", Obj: "Mt", Role: "method", Recv: "A",
			Fixed: []string{"testonly/func()@Mt", "packageonly/func(){+self}[a/b]@Mt"},
			Src:   h + "type A struct{ F int }\n\n// @testonly\n// @packageonly a/b\nfunc Mt() {}\n\n{C}\nfunc (a A) Mt() {}\n"},
		{Name: "method-doc-after-annotated-same-named-type", Obj: "Mt", Role: "method", Recv: "A",
			Fixed: []string{"testonly/type()@Mt", "packageonly/type(){+self}[a/b]@Mt"},
			Src:   h + "type A struct{ F int }\n\n// @testonly\n// @packageonly a/b\ntype Mt struct{ F int }\n\n{C}\nfunc (a A) Mt() {}\n"},
		{Name: "func-doc-before-annotated-same-named-method", Obj: "Mt", Role: "func",
			Fixed: []string{"testonly/method(A)@Mt", "packageonly/method(A){+self}[a/b]@Mt"},
			Src:   h + "type A struct{ F int }\n\n{C}\nfunc Mt() {}\n\n// @testonly\n// @packageonly a/b\nfunc (a A) Mt() {}\n"},
		{Name: "method-doc-beside-same-named-func", Obj: "Mt", Role: "method", Recv: "A", Src: h + "type A struct{ F int }\n\nfunc Mt() {}\n\n{C}\nfunc (A) Mt() {}\n"},
		{Name: "field-doc-of-immutable-struct", Obj: "A", Role: "field", Fixed: []string{"immutable@A"},
			Src: h + "// @immutable\ntype A struct {\n\t{C}\n\tF int\n}\n"},
		{Name: "multi-name-field-doc-of-immutable-struct", Obj: "A", Role: "fields", Fixed: []string{"immutable@A"},
			Src: h + "// @immutable\ntype A struct {\n\tE int\n\t{C}\n\tF, G int\n\tH int\n}\n"},
		{Name: "second-field-doc-of-immutable-struct", Obj: "A", Role: "field", Fixed: []string{"immutable@A"},
			Src: h + "// @immutable\ntype A struct {\n\t// E is plain.\n\tE int\n\t{C}\n\tF int\n\tG int\n}\n"},
		{Name: "field-doc-of-plain-struct", Src: h + "type A struct {\n\t{C}\n\tF int\n}\n"},
		{Name: "embedded-field-doc-of-immutable-struct", Fixed: []string{"immutable@A"},
			Src: h + "type E struct{}\n\n// @immutable\ntype A struct {\n\t{C}\n\tE\n\tF int\n}\n"},
		{Name: "local-type-doc", Src: h + "func Fn() {\n\t{C}\n\ttype L struct{ F int }\n\tvar _ L\n}\n"},
		{Name: "var-doc", Src: h + "{C}\nvar V int\n"},
		{Name: "const-doc", Src: h + "{C}\nconst K = 1\n"},
		{Name: "trailing-on-type-line", Src: h + "type A struct{ F int } {C}\n"},
		{Name: "trailing-on-spec-line-in-group", Src: h + "type (\n\tA struct{ F int } {C}\n)\n"},
		{Name: "detached-before-type", Src: h + "{C}\n\ntype A struct{ F int }\n"},
		{Name: "file-header", Src: "{C}\npackage cpkg\n\ntype A struct{ F int }\n"},
		{Name: "file-header-detached", Src: "{C}\n\npackage cpkg\n\ntype A struct{ F int }\n"},
	}
}

var c15AttachComment = map[string]string{
	"immutable":   "// @immutable",
	"constructor": "// @constructor New",
	"testonly":    "// @testonly",
	"packageonly": "// @packageonly a/b",
	"implements":  "// @implements &Stringer",
	"mutable":     "// @mutable",
	"ignore":      "// @ignore IMM01",
}

func c15AttachWant(s c15AttachSite, kw string, commentLine int) []string {
	w := append([]string{}, s.Fixed...)
	if kw == "ignore" { // @ignore is not a doc-comment annotation: it is read from any comment
		w = append(w, fmt.Sprintf("ignore@line%d[IMM01]", commentLine))
	}
	switch s.Role {
	case "type":
		switch kw {
		case "immutable":
			w = append(w, "immutable@"+s.Obj)
		case "constructor":
			w = append(w, "constructor@"+s.Obj+"[New]")
		case "implements":
			w = append(w, "implements@"+s.Obj+"(&Stringer)")
		case "testonly":
			w = append(w, "testonly/type()@"+s.Obj)
		case "packageonly":
			w = append(w, "packageonly/type(){+self}[a/b]@"+s.Obj)
		}
	case "func", "method":
		k := "/" + s.Role + "(" + s.Recv + ")"
		switch kw {
		case "testonly":
			w = append(w, "testonly"+k+"@"+s.Obj)
		case "packageonly":
			w = append(w, "packageonly"+k+"{+self}[a/b]@"+s.Obj)
		}
	case "field":
		if kw == "mutable" {
			w = append(w, "mutable@"+s.Obj+".F")
		}
	case "fields": // one doc comment over several names marks every one of them
		if kw == "mutable" {
			w = append(w, "mutable@"+s.Obj+".F", "mutable@"+s.Obj+".G")
		}
	}
	sort.Strings(w)
	return w
}

func c15Attachment(run *common.Run, env *c15Env) {
	for _, s := range c15AttachSites() {
		for _, kw := range c15Keywords {
			c := c15AttachComment[kw]
			src := strings.Replace(s.Src, "{C}", c, 1)
			commentLine := 1 + strings.Count(s.Src[:strings.Index(s.Src, "{C}")], "\n")
			var got []string
			panicked := ""
			func() {
				defer func() {
					if r := recover(); r != nil {
						panicked = fmt.Sprint(r)
					}
				}()
				pass, _ := env.load(src)
				pa := annotations.ReadAllAnnotations(env.cfg, pass)
				is := ignore.ReadIgnoreAnnotations(env.cfg, pass)
				kind := func(k annotations.TestOnlyKind, recv string) string {
					n := map[annotations.TestOnlyKind]string{annotations.TestOnlyOnType: "type", annotations.TestOnlyOnFunc: "func", annotations.TestOnlyOnMethod: "method"}[k]
					return "/" + n + "(" + recv + ")"
				}
				for _, a := range pa.ImmutableAnnotations {
					got = append(got, "immutable@"+a.OnType)
				}
				for _, a := range pa.ConstructorAnnotations {
					got = append(got, "constructor@"+a.OnType+c15SetString(a.ConstructorNames))
				}
				for _, a := range pa.ImplementsAnnotations {
					got = append(got, "implements@"+a.OnType+c15Impl(a.IsPointer, a.PackageName, a.InterfaceName))
				}
				for _, a := range pa.TestonlyAnnotations {
					got = append(got, "testonly"+kind(a.Kind, a.ReceiverType)+"@"+a.ObjectName)
				}
				for _, a := range pa.PackageOnlyAnnotations {
					got = append(got, "packageonly"+kind(a.Kind, a.ReceiverType)+c15Allowed(a.AllowedPackages)+"@"+a.ObjectName)
				}
				for _, a := range pa.MutableAnnotations {
					got = append(got, "mutable@"+a.OnType+"."+a.FieldName)
				}
				if is != nil {
					for _, m := range is.Markers {
						got = append(got, fmt.Sprintf("ignore@line%d%s", pass.Fset.Position(m.StartPos).Line, c15SetString(m.Codes)))
					}
				}
			}()
			sort.Strings(got)
			want := c15AttachWant(s, kw, commentLine)
			gs, ws := strings.Join(got, " "), strings.Join(want, " ")
			if panicked != "" {
				gs = "panic: " + panicked
			}
			run.State(1, "attach:"+gs, "attach|"+s.Name+"|"+kw)
			run.Count("attachment_cells", 1)
			if gs != ws {
				abs := func(xs []string) string {
					if len(xs) == 0 {
						return "none"
					}
					var o []string
					for _, x := range xs {
						if i := strings.IndexAny(x, "@/"); i > 0 {
							x = x[:i]
						}
						o = append(o, x)
					}
					return strings.Join(o, "+")
				}
				g := abs(got)
				if panicked != "" {
					g = "panic"
				}
				run.Report(common.Cex{
					Sig:     fmt.Sprintf("attach|site=%s|kw=%s|got=%s|want=%s", s.Name, kw, g, abs(want)),
					Summary: fmt.Sprintf("`%s` at site %s: implementation produced {%s}, attachment rules say {%s}", c, s.Name, gs, ws),
					Detail:  map[string]any{"source": src, "got": gs, "want": ws},
				})
			}
		}
	}
}

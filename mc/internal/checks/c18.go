package checks

// C18 — configuration resolves flag > environment > default, for any input strings.
//
// Part 1 (E4): the real gogreement executable (standalone and as `go vet -vettool`) on a probe
// module with one planted violation per observable, over the complete finite grid
// {flag absent, flag empty/bare, flag value} x {env unset, env empty, env value} per option,
// all pairs of options on a reduced value set, and hostile environment strings. The oracle is
// the reference resolver of c18_ref.go -> expected set of planted violations.
// Part 2 (E2, c18_sweep.go): every string up to a length bound over a small alphabet through
// config.FromEnv / CreateFlagSet+Parse+ParseFlagsFromFlagSet in-process.

import (
	"fmt"
	"os"
	"path/filepath"
	"regexp"
	"sort"
	"strings"
	"sync"

	"verif/mc/internal/common"
	"verif/mc/internal/drv"
	"verif/mc/internal/prog"
)

// ---------------------------------------------------------------------------------------------
// Probe module

const c18Lib = `package lib

// T is immutable and constructor-restricted.
// @immutable
// @constructor NewT
type T struct {
	F int
}

func NewT() *T { return &T{} }

// Helper is test-only.
// @testonly
func Helper() int { return 0 }

// PF may be used from nowhere else.
// @packageonly
func PF() int { return 0 }
`

func c18Probe() *prog.Program {
	return &prog.Program{Pkgs: []prog.Pkg{
		{Path: "ex.com/m/lib", Files: []prog.File{{Name: "lib.go", Src: c18Lib}}},
		{Path: "ex.com/m/p", Files: []prog.File{
			{Name: "a.go", Src: `package p

import "ex.com/m/lib"

func Use(x *lib.T) {
	x.F = 1 // want IMM01
	_ = lib.T{} // want CTOR01
	lib.Helper() // want TONL02
	_ = lib.PF() // want PKGO02
}
`},
			{Name: "a_test.go", Src: `package p

import "ex.com/m/lib"

func useInTest(x *lib.T) {
	x.F = 2 // want IMM01
	lib.Helper()
	_ = lib.PF() // want PKGO02
	_ = lib.T{} // want CTOR01
}
`}}},
		{Path: "ex.com/m/gen/q", Dir: "gen/q", Files: []prog.File{{Name: "q.go", Src: `package q

import "ex.com/m/lib"

func Use(x *lib.T) {
	x.F = 3 // want IMM01
	_ = lib.PF() // want PKGO02
}
`}, {Name: "q_test.go", Src: `package q

import "ex.com/m/lib"

// a test file inside a directory that exclude-paths may name: both options apply to it
func useInTest(x *lib.T) {
	x.F = 5 // want IMM01
	_ = lib.T{} // want CTOR01
}
`}}},
		{Path: "ex.com/m/testdata/p", Dir: "testdata/p", Files: []prog.File{{Name: "t.go", Src: `package p

import "ex.com/m/lib"

func Use(x *lib.T) {
	x.F = 4 // want IMM01
	_ = lib.T{} // want CTOR01
}
`}, {Name: "t_test.go", Src: `package p

import "ex.com/m/lib"

func useInTest(x *lib.T) {
	x.F = 6 // want IMM01
	_ = lib.PF() // want PKGO02
}
`}}},
	}}
}

var c18Patterns = []string{"./lib", "./p", "./gen/q", "./testdata/p"}

var c18WantRe = regexp.MustCompile(`// want ([A-Z]+[0-9]+)\s*$`)

func c18Plants(dir string, p *prog.Program) []c18Plant {
	var out []c18Plant
	for _, pk := range p.Pkgs {
		rel := pk.Dir
		if rel == "" {
			rel = strings.TrimPrefix(pk.Path, drv.ModulePath+"/")
		}
		class := map[string]string{"p": "regular", "gen/q": "gen", "testdata/p": "testdata", "lib": "lib"}[rel]
		for _, f := range pk.Files {
			isTest := strings.HasSuffix(f.Name, "_test.go")
			cl := class
			if isTest {
				cl = "test"
			}
			for i, line := range strings.Split(f.Src, "\n") {
				if m := c18WantRe.FindStringSubmatch(line); m != nil {
					out = append(out, c18Plant{File: drv.ModulePath + "/" + rel + "/" + f.Name, Abs: filepath.Join(dir, rel, f.Name),
						Class: cl, Line: i + 1, Code: m[1], IsTest: isTest})
				}
			}
		}
	}
	return out
}

// ---------------------------------------------------------------------------------------------
// Grid

type c18Cell struct {
	Opt     [c18NOpt]c18Opt
	Group   string
	Drivers map[drv.Driver]bool
}

func (c *c18Cell) key() string {
	var b strings.Builder
	for i := 0; i < c18NOpt; i++ {
		fmt.Fprintf(&b, "%s:flag%s,env%s;", c18OptName[i], c.Opt[i].Flag, c.Opt[i].Env)
	}
	return b.String()
}

func (c *c18Cell) args() (flags []string, env map[string]string) {
	env = map[string]string{}
	for i := 0; i < c18NOpt; i++ {
		o := c.Opt[i]
		if o.Flag.Set {
			if o.Flag.Bare {
				flags = append(flags, "-config."+c18OptName[i])
			} else {
				flags = append(flags, "-config."+c18OptName[i]+"="+o.Flag.Val)
			}
		}
		if o.Env.Set {
			env[c18EnvName[i]] = o.Env.Val
		}
	}
	return
}

func (c *c18Cell) touched() []int {
	var t []int
	for i := 0; i < c18NOpt; i++ {
		if c.Opt[i].Flag.Set || c.Opt[i].Env.Set {
			t = append(t, i)
		}
	}
	return t
}

func c18Vals(vals ...string) []c18Src {
	out := []c18Src{{}}
	for _, v := range vals {
		out = append(out, c18Src{Set: true, Val: v})
	}
	return out
}

type c18Space struct {
	flagAll, flagRep, envAll, envRep []c18Src
	// one representative per class for the 3x3 sub-grid and the pair grid
	flag3, env3 [3]c18Src
}

func c18Spaces() [c18NOpt]c18Space {
	bare := c18Src{Set: true, Bare: true}
	v := func(s string) c18Src { return c18Src{Set: true, Val: s} }
	var sp [c18NOpt]c18Space

	// scan-tests. A boolean flag has no valid empty value; its "given without a value" form is the bare flag.
	sp[c18Scan].flagAll = append([]c18Src{{}, bare}, c18Vals("true", "1", "t", "T", "TRUE", "True", "false", "0", "f", "F", "FALSE", "False")[1:]...)
	sp[c18Scan].flagRep = []c18Src{{}, bare, v("false"), v("true")}
	sp[c18Scan].envAll = c18Vals("", "true", "1", "yes", "on", "TRUE", "On", " yes ", "t", "T", "false", "0", "no", "off", "f", "F", "2", "tru", "garbage",
		"YES", "oN", "\ton\t", "True", "FALSE", " 1", "tRuE", "y", "n", "01", "yes,no", "yes yes", "o n", " T ", "\tt",
		// quote characters are ordinary characters: a quoted spelling is none of the listed ones
		`"true"`, `'yes'`, ` "1" `, "`on`")
	sp[c18Scan].envRep = c18Vals("", "yes", "false", "garbage", " On ")
	sp[c18Scan].flag3 = [3]c18Src{{}, bare, v("false")}
	sp[c18Scan].env3 = [3]c18Src{{}, v(""), v("yes")}

	paths := []string{"", "gen", " gen , ,zzz", ",", "testdata", "GEN", "gen,testdata", "zzz", "_test.go", "q.go", " , testdata ,", "gen/q", "Testdata", "a_test.go,t.go", "zzz=x,gen", "=,gen=,testdata",
		// items are substrings, not cleaned paths: none of these is contained in a probe file's name
		"./gen", "gen//q", "gen/./q, p/../gen", "gen/q/.",
		// quote characters are part of the item (an item with a quote matches no probe file)
		`"gen"`, `'gen,testdata'`, ` "gen" `, `"gen",testdata`}
	sp[c18Paths].flagAll = c18Vals(paths...)
	sp[c18Paths].envAll = c18Vals(paths...)
	sp[c18Paths].flagRep = c18Vals("", "gen", " gen , ,zzz")
	sp[c18Paths].envRep = c18Vals("", "gen", " gen , ,zzz")
	sp[c18Paths].flag3 = [3]c18Src{{}, v(""), v("gen")}
	sp[c18Paths].env3 = [3]c18Src{{}, v(""), v(" zzz , q.go,")}

	checks := []string{"", "imm01", " IMM01 , ,ctor ", ",", "ALL", "all", "IMM", "tonl,pkgo02", "PKGO", "IMM02", "zzz", "Ctor01",
		"imm01,ctor01,tonl02,pkgo02", "\tAll\t", "IM", "IMM0", "IMM011", "imm 01", "x=y,imm01", "imm01=1,ctor",
		`"IMM"`, `'imm01,ctor'`, ` "all" `, `"imm01",ctor`,
		// a code next to its own category, in both orders; a code repeated
		"imm01,imm", "IMM,imm01", " ctor02 , ctor ", "imm01,imm01,IMM01"}
	sp[c18Checks].flagAll = c18Vals(checks...)
	sp[c18Checks].envAll = c18Vals(checks...)
	sp[c18Checks].flagRep = c18Vals("", "imm01", " IMM01 , ,ctor ", "tonl,pkgo02")
	sp[c18Checks].envRep = c18Vals("", "imm01", " IMM01 , ,ctor ", "tonl,pkgo02")
	sp[c18Checks].flag3 = [3]c18Src{{}, v(""), v(" IMM01 , ,ctor ")}
	sp[c18Checks].env3 = [3]c18Src{{}, v(""), v("tonl,pkgo02")}
	return sp
}

// c18FuzzEnv: hostile environment strings for the "no value makes the tool fail" clause. None
// of them is a substring of a probe file name or equals a check code.
func c18FuzzEnv(i int) []string {
	l := []string{"\xff\xfe", strings.Repeat("z", 20000), strings.Repeat(",", 5000), "%s%n%d%!", "--help", "-config.scan-tests", "=", "\"", "\\", "ÿ", "\x01\x7f", "$HOME", "*", "[", "(?i)", "\n"}
	switch i {
	case c18Scan:
		l = append(l, "true\n", "1\r\n")
	case c18Paths: // no digits: the scratch directory name contains digits
		l = append(l, "gen\n", "zzz\r\n,")
	case c18Checks:
		l = append(l, "imm01\n", "ctor\r\n,")
	}
	return l
}

type c18Grid struct {
	cells map[string]*c18Cell
	order []string
}

func (g *c18Grid) add(opt [c18NOpt]c18Opt, group string, drivers ...drv.Driver) {
	c := &c18Cell{Opt: opt, Group: group}
	k := c.key()
	if old, ok := g.cells[k]; ok {
		c = old
	} else {
		c.Drivers = map[drv.Driver]bool{}
		g.cells[k] = c
		g.order = append(g.order, k)
	}
	for _, d := range drivers {
		c.Drivers[d] = true
	}
}

func c18BuildGrid(thorough bool) *c18Grid {
	g := &c18Grid{cells: map[string]*c18Cell{}}
	sp := c18Spaces()
	bulk := []drv.Driver{drv.Vet}
	if thorough {
		bulk = []drv.Driver{drv.Vet, drv.Standalone}
	}
	// 1. the 3x3 class grid per option, one representative per class: every driver, JSON and text
	for i := 0; i < c18NOpt; i++ {
		for _, f := range sp[i].flag3 {
			for _, e := range sp[i].env3 {
				var opt [c18NOpt]c18Opt
				opt[i] = c18Opt{Flag: f, Env: e}
				g.add(opt, "single/"+c18OptName[i], drv.Vet, drv.Standalone, drv.VetText)
				if thorough || (f == sp[i].flag3[2] && e == sp[i].env3[2]) {
					g.add(opt, "single/"+c18OptName[i], drv.StandaloneText)
				}
			}
		}
	}
	{ // everything on (every planted violation visible) and everything off (text-mode exit status 0)
		var on, off1, off2 [c18NOpt]c18Opt
		on[c18Scan].Flag = c18Src{Set: true, Bare: true}
		on[c18Paths].Flag = c18Src{Set: true, Val: ""}
		off1[c18Checks].Env = c18Src{Set: true, Val: "all"}
		off2[c18Checks].Flag = c18Src{Set: true, Val: "ALL"}
		off2[c18Checks].Env = c18Src{Set: true, Val: ""}
		for _, o := range [][c18NOpt]c18Opt{on, off1, off2} {
			g.add(o, "all-on/all-off", drv.Vet, drv.Standalone, drv.VetText, drv.StandaloneText)
		}
	}
	// 2. full value grid per option
	for i := 0; i < c18NOpt; i++ {
		cross := func(fs, es []c18Src) {
			for _, f := range fs {
				for _, e := range es {
					var opt [c18NOpt]c18Opt
					opt[i] = c18Opt{Flag: f, Env: e}
					g.add(opt, "single/"+c18OptName[i], bulk...)
				}
			}
		}
		if thorough {
			cross(sp[i].flagAll, sp[i].envAll)
		} else {
			cross(sp[i].flagAll, sp[i].envRep)
			cross(sp[i].flagRep, sp[i].envAll)
		}
	}
	// 3. all pairs of options, 9 class states each
	for a := 0; a < c18NOpt; a++ {
		for b := a + 1; b < c18NOpt; b++ {
			for fa := 0; fa < 3; fa++ {
				for ea := 0; ea < 3; ea++ {
					for fb := 0; fb < 3; fb++ {
						for eb := 0; eb < 3; eb++ {
							var opt [c18NOpt]c18Opt
							opt[a] = c18Opt{Flag: sp[a].flag3[fa], Env: sp[a].env3[ea]}
							opt[b] = c18Opt{Flag: sp[b].flag3[fb], Env: sp[b].env3[eb]}
							ds := bulk
							// standalone sub-grid in quick: each option sourced from exactly one of flag/env, value class
							if (fa == 2) != (ea == 2) && (fb == 2) != (eb == 2) && fa != 1 && ea != 1 && fb != 1 && eb != 1 {
								ds = []drv.Driver{drv.Vet, drv.Standalone}
							}
							g.add(opt, fmt.Sprintf("pair/%s+%s", c18OptName[a], c18OptName[b]), ds...)
						}
					}
				}
			}
		}
	}
	// 4. all three options at once: each sourced from flag-only, env-only or both
	for m := 0; m < 27; m++ {
		var opt [c18NOpt]c18Opt
		mm := m
		for i := 0; i < c18NOpt; i++ {
			switch mm % 3 {
			case 0:
				opt[i].Flag = sp[i].flag3[2]
			case 1:
				opt[i].Env = sp[i].env3[2]
			case 2:
				opt[i] = c18Opt{Flag: sp[i].flag3[2], Env: sp[i].env3[2]}
			}
			mm /= 3
		}
		ds := bulk
		if m == 26 { // quick: both sources on all three options, the flag must win everywhere
			ds = []drv.Driver{drv.Vet, drv.Standalone}
		}
		g.add(opt, "triple", ds...)
	}
	// 5. hostile environment strings, one variable at a time and all three at once
	for vi := range c18FuzzEnv(0) {
		var all [c18NOpt]c18Opt
		for i := 0; i < c18NOpt; i++ {
			s := c18FuzzEnv(i)[vi]
			var opt [c18NOpt]c18Opt
			opt[i].Env = c18Src{Set: true, Val: s}
			all[i].Env = opt[i].Env
			ds := bulk
			if vi < 1 {
				ds = []drv.Driver{drv.Vet, drv.Standalone}
			}
			g.add(opt, "fuzz-env/"+c18OptName[i], ds...)
		}
		g.add(all, "fuzz-env/all", bulk...)
	}
	// 6. boolean flag values that package flag rejects: run, not judged (only "no panic")
	for _, s := range []string{"", "yes", "garbage"} {
		var opt [c18NOpt]c18Opt
		opt[c18Scan].Flag = c18Src{Set: true, Val: s}
		g.add(opt, "flag-rejected", drv.Vet)
		if thorough || s == "" {
			g.add(opt, "flag-rejected", drv.Standalone)
		}
	}
	return g
}

// ---------------------------------------------------------------------------------------------

func c18DriverName(d drv.Driver) string {
	return map[drv.Driver]string{drv.Standalone: "standalone", drv.Vet: "vet", drv.StandaloneText: "standalone-text", drv.VetText: "vet-text"}[d]
}

type c18Obs struct {
	got       []string
	crash     string
	exit      int
	cmd       string
	badExit   string
	unplanted []string
}

func c18Observe(dir string, c *c18Cell, d drv.Driver) c18Obs {
	flags, env := c.args()
	out := drv.Run(drv.Req{Driver: d, Dir: dir, Flags: flags, Env: env, Patterns: c18Patterns})
	o := c18Obs{crash: out.Crashed(), exit: out.Exit, cmd: out.Cmd}
	seen := map[string]bool{}
	for _, dg := range out.Diags {
		k := c18Key(dg.File, dg.Line, dg.Code)
		if !seen[k] {
			seen[k] = true
			o.got = append(o.got, k)
		}
	}
	sort.Strings(o.got)
	switch d {
	case drv.Standalone, drv.Vet:
		if out.Exit != 0 {
			o.badExit = fmt.Sprintf("exit status %d in -json mode (want 0)", out.Exit)
		}
	case drv.StandaloneText:
		if want := map[bool]int{false: 0, true: 3}[len(o.got) > 0]; out.Exit != want {
			o.badExit = fmt.Sprintf("exit status %d with %d diagnostics (want %d)", out.Exit, len(o.got), want)
		}
	case drv.VetText:
		if want := map[bool]int{false: 0, true: 1}[len(o.got) > 0]; out.Exit != want {
			o.badExit = fmt.Sprintf("go vet exit status %d with %d diagnostics (want %d)", out.Exit, len(o.got), want)
		}
	}
	if o.crash == "" && o.badExit != "" {
		tail := out.Stderr
		if len(tail) > 400 {
			tail = tail[len(tail)-400:]
		}
		o.badExit += "; stderr: " + tail
	}
	return o
}

func c18EnvString(env map[string]string) string {
	var ks []string
	for k := range env {
		ks = append(ks, k)
	}
	sort.Strings(ks)
	var parts []string
	for _, k := range ks {
		v := env[k]
		if len(v) > 60 {
			v = v[:60] + fmt.Sprintf("...(%d bytes)", len(env[k]))
		}
		parts = append(parts, fmt.Sprintf("%s=%q", k, v))
	}
	if len(parts) == 0 {
		return "(no GOGREEMENT_* variable set)"
	}
	return strings.Join(parts, " ")
}

func c18Classes(keys []string, byKey map[string]c18Plant) string {
	set := map[string]bool{}
	for _, k := range keys {
		if p, ok := byKey[k]; ok {
			set[p.Class+":"+p.Code] = true
		} else {
			set["unplanted"] = true
		}
	}
	var l []string
	for s := range set {
		l = append(l, s)
	}
	sort.Strings(l)
	return strings.Join(l, "+")
}

func (c *c18Cell) sigPart() string {
	t := c.touched()
	var on, fc, ec []string
	for _, i := range t {
		on = append(on, c18OptName[i])
		fc = append(fc, c.Opt[i].Flag.class())
		ec = append(ec, strings.Replace(c.Opt[i].Env.class(), "absent", "unset", 1))
	}
	if len(t) == 0 {
		return "opt=none"
	}
	if len(t) == 1 {
		return fmt.Sprintf("opt=%s|flag=%s|env=%s", on[0], fc[0], ec[0])
	}
	return "opt=" + strings.Join(on, "+")
}

// C18 is the check entry point.
func C18(tier common.Tier) int {
	run := common.NewRun("C18", tier, "exploration")
	thorough := tier == "thorough"
	for _, v := range append([]string{"GOGREEMENT_ENV_ONLY"}, c18EnvName[:]...) {
		os.Unsetenv(v)
	}
	sweepLen := 4
	if thorough {
		sweepLen = 5
	}
	grid := c18BuildGrid(thorough)
	nRuns := 0
	for _, k := range grid.order {
		nRuns += len(grid.cells[k].Drivers)
	}
	run.SetRule("Part 1, finite grid on the real executables, enumerated completely: a probe module (regular file with IMM01, CTOR01, TONL02, PKGO02 on distinct lines; in-package _test.go file; packages in gen/q and testdata/p (named on the command line), each with a _test.go file of its own) is analysed by `gogreement -json` / `go vet -vettool=gogreement -json` (and both text modes on the 3x3 class grid) under every cell of: per option {flag absent, flag empty (bare for the boolean), flag value} x {variable unset, empty, value} over all listed boolean spellings and list shapes (blanks, empty items, mixed case, single comma, near-miss codes, items containing '=', path-like items that a path cleaner would rewrite); all pairs of options x 9 class states each; all three options sourced from flag/env/both; 18 hostile environment strings per variable (invalid UTF-8, 20 kB, control characters, format verbs, flag look-alikes, trailing newlines). Each run's diagnostic set (file, line, code) must equal the set computed from the reference resolver (flag if given, else variable if set, else default; split/trim/drop-empty/upper-case; boolean table), exit status must be 0 (json) / 0|3 (text) / 0|1 (go vet text), no panic/internal error text. Part 2, exhaustive bounded strings in-process: every string up to the length bound over {a,A,1,comma,space,tab,t,U+00FF,=} (and {y,e,s,o,n,N,space,0} for the boolean) as the value of each GOGREEMENT_* variable and as the value of each flag, through config.FromEnv and CreateFlagSet+Parse+ParseFlagsFromFlagSet in six call shapes, compared field by field with the reference; a panic is a counterexample. A case is non-trivial when the effective configuration differs from the default.",
		fmt.Sprintf("%d grid cells, %d executions of the real binary; parser sweep: all strings of length <= %d", len(grid.order), nRuns, sweepLen))
	run.Assume("package flag, go vet's flag forwarding, go/packages and the x/tools drivers are trusted",
		"GOGREEMENT_ENV_ONLY is unset everywhere",
		"no exclude-paths value used in the grid is a substring of the scratch directory or of lib/lib.go (asserted at start), so the annotated declarations are always read",
		"upper-casing of non-ASCII letters in check codes is taken to be Unicode upper-casing (no check code contains such a letter, so this is not observable on the tool)",
		"blanks are space, tab, LF, CR, VT, FF")
	run.NotJudged("a syntactically invalid value for the boolean FLAG (-config.scan-tests=, =yes, =garbage): rejected by package flag / go vet before GoGreement runs; executed, only checked for panics",
		"the single letter t/T with blanks around it as GOGREEMENT_SCAN_TESTS: the statement attaches 'surrounding blanks allowed' to true/1/yes/on, not to Go's other ParseBool spellings; executed, only checked for failures",
		"what exclusion of a file means for annotations declared in it (C14): no grid value excludes lib/lib.go")

	bin := drv.Binary()
	_ = bin
	root := drv.Scratch()
	defer os.RemoveAll(root)
	dir := filepath.Join(root, "m")
	probe := c18Probe()
	drv.WriteModule(dir, probe)
	plants := c18Plants(dir, probe)
	byKey := map[string]c18Plant{}
	for _, p := range plants {
		byKey[c18Key(p.File, p.Line, p.Code)] = p
	}
	libAbs := filepath.Join(dir, "lib", "lib.go")
	for _, k := range grid.order {
		c := grid.cells[k]
		if eff, _, _ := c18Resolve(c.Opt); true {
			for _, e := range eff.Paths {
				if strings.Contains(libAbs, e) {
					common.Fatalf("C18: exclude-paths entry %q matches %s", e, libAbs)
				}
			}
		}
	}
	{ // the reference must expect every planted violation under the all-on configuration
		var opt [c18NOpt]c18Opt
		opt[c18Scan].Flag = c18Src{Set: true, Bare: true}
		opt[c18Paths].Flag = c18Src{Set: true, Val: ""}
		eff, _, _ := c18Resolve(opt)
		if len(c18Expected(eff, plants)) != len(plants) || len(plants) != 15 {
			common.Fatalf("C18: probe/reference mismatch: %d planted, %d expected under all-on", len(plants), len(c18Expected(eff, plants)))
		}
	}

	type job struct {
		c *c18Cell
		d drv.Driver
	}
	var jobs []job
	for _, k := range grid.order {
		c := grid.cells[k]
		for _, d := range []drv.Driver{drv.Standalone, drv.StandaloneText, drv.Vet, drv.VetText} { // slow ones first
			if c.Drivers[d] {
				jobs = append(jobs, job{c, d})
			}
		}
	}
	sort.SliceStable(jobs, func(i, j int) bool {
		slow := func(d drv.Driver) int {
			if d == drv.Standalone || d == drv.StandaloneText {
				return 0
			}
			return 1
		}
		return slow(jobs[i].d) < slow(jobs[j].d)
	})

	var sampled sync.Map
	drv.ParallelDo(len(jobs), common.NumWorkers(), func(ji int) {
		c, d := jobs[ji].c, jobs[ji].d
		eff, judged, why := c18Resolve(c.Opt)
		dn := c18DriverName(d)
		flags, env := c.args()
		o := c18Observe(dir, c, d)
		cmdline := fmt.Sprintf("(cd <probe>; %s %s)", c18EnvString(env), strings.Replace(o.cmd, drv.Binary(), "gogreement", 1))
		detail := func(extra map[string]any) map[string]any {
			m := map[string]any{"driver": dn, "flags": flags, "env": c18EnvString(env), "cmd": o.cmd, "group": c.Group,
				"effective_by_reference": eff.String(), "probe": probe.Text()}
			for k, v := range extra {
				m[k] = v
			}
			return m
		}
		run.Count("runs_"+dn, 1)
		if why == "flag-rejected" {
			run.Count("not_judged_flag_rejected", 1)
			if strings.Contains(o.crash, "panic:") || strings.Contains(o.crash, "fatal error:") {
				run.Report(common.Cex{Sig: "fail|flag-rejected|driver=" + dn, Summary: "panic on a rejected boolean flag value: " + cmdline + ": " + o.crash, Detail: detail(nil)})
			}
			if o.exit == 0 {
				run.Count("flag_rejected_but_exit_0", 1)
			}
			run.State(1, "rejected by package flag", "")
			return
		}
		// no value of the variables makes the tool fail
		if o.crash != "" || o.badExit != "" {
			o2 := c18Observe(dir, c, d)
			what := o.crash
			if what == "" {
				what = o.badExit
			}
			stable := "fail"
			if o2.crash == "" && o2.badExit == "" {
				stable = "unstable-fail"
			}
			run.Report(common.Cex{Sig: fmt.Sprintf("%s|%s|driver=%s|%s", stable, c.sigPart(), dn, map[bool]string{true: "crash", false: "exit-status"}[o.crash != ""]),
				Summary: fmt.Sprintf("the tool fails under %s: %s", cmdline, what), Detail: detail(map[string]any{"failure": what})})
		}
		want := c18Expected(eff, plants)
		outcome := eff.String() + " -> " + strings.Join(o.got, ",")
		nt := ""
		if !eff.isDefault() {
			nt = c.key() + dn
		}
		run.State(1, outcome, nt)
		if !judged {
			run.Count("not_judged_"+why, 1)
			return
		}
		if strings.Join(o.got, "|") != strings.Join(want, "|") {
			o2 := c18Observe(dir, c, d)
			kind := "resolve"
			if strings.Join(o2.got, "|") != strings.Join(o.got, "|") {
				kind = "unstable-resolve"
			}
			missing, extra := diffKeys(want, o.got)
			sort.Strings(extra)
			run.Report(common.Cex{
				Sig: fmt.Sprintf("%s|%s|missing=%s|extra=%s", kind, c.sigPart(), c18Classes(missing, byKey), c18Classes(extra, byKey)),
				Summary: fmt.Sprintf("%s reports the wrong set: by the statement the effective configuration is {%s}; missing %v, unexpected %v", cmdline, eff, missing, extra),
				Detail:  detail(map[string]any{"want": want, "got": o.got, "missing": missing, "extra": extra})})
		}
		if _, dup := sampled.LoadOrStore(strings.SplitN(c.Group, "/", 2)[0]+"/"+dn, true); !dup && !eff.isDefault() {
			run.Sample(map[string]any{"cmd": cmdline, "effective": eff.String(), "reported": o.got})
		}
	})
	run.Count("grid_cells", len(grid.order))
	run.Count("binary_runs", len(jobs))

	c18Sweep(run, sweepLen)
	return run.Finish()
}

func init() { Register("C18", C18) }

package checks

import (
	"flag"
	"fmt"
	"os"
	"strings"

	"github.com/a14e/gogreement/src/analyzer"
	"github.com/a14e/gogreement/src/config"

	"verif/mc/internal/common"
	"verif/mc/internal/e3"
	"verif/mc/internal/e4"
	"verif/mc/internal/prog"
)

// yieldingValue wraps a flag value: reading it is a scheduling point. The configuration reader reads its flags
// INSIDE the critical section that initialises the process-wide configuration, so this puts a point there.
type yieldingValue struct {
	flag.Value
	s *e3.Sched
}

func (v yieldingValue) String() string {
	if v.s != nil {
		v.s.Point("flag-read")
	}
	return v.Value.String()
}

func (v yieldingValue) Get() any {
	if v.s != nil {
		v.s.Point("flag-read")
	}
	return v.Value.(flag.Getter).Get()
}

// c11SyncSeam explores the interleavings of the per-package `config` actions around the process-wide configuration
// (a sync.Once and a package-level variable in src/analyzer): every execution starts with that state fresh, the
// first action to arrive initialises it, and the scheduler may switch to any other action at the entry of Once.Do,
// while the first action is inside it (reading its flags), and at every Pass callback. Requires the harness build in
// which src/analyzer's import of package sync is redirected to the cooperative shim.
func c11SyncSeam(run *common.Run, bound int) {
	if !e3.ShimBuild || !hookBuild {
		run.NotExhaustive("the sync-shim build of the harness is not available for this tree: interleavings inside the configuration reader's critical section were not explored")
		run.Count("sync_seam_executions", 0)
		return
	}
	p := e4.ConfigMatters()
	ld, err := prog.Load(p)
	if err != nil {
		common.Fatalf("fixture: %v", err)
	}
	var roots []string
	for _, pk := range p.Pkgs {
		roots = append(roots, pk.Path)
	}
	for _, k := range []string{"GOGREEMENT_SCAN_TESTS", "GOGREEMENT_EXCLUDE_PATHS", "GOGREEMENT_EXCLUDE_CHECKS", "GOGREEMENT_ENV_ONLY"} {
		os.Unsetenv(k)
	}
	s := e3.Build(ld, analyzer.AllAnalyzers(), roots)
	s.BeforeRun = func() {
		analyzer.ConfigReader.Flags = *config.CreateFlagSet()
		fs := &analyzer.ConfigReader.Flags
		if err := fs.Set("scan-tests", "true"); err != nil {
			common.Fatalf("flag: %v", err)
		}
		if err := fs.Set("exclude-paths", "gen"); err != nil {
			common.Fatalf("flag: %v", err)
		}
		for _, n := range []string{"scan-tests", "exclude-paths", "exclude-checks"} {
			if f := fs.Lookup(n); f != nil {
				f.Value = yieldingValue{f.Value, s}
			}
		}
		resetConfig()
	}
	e3.InstallShim(s)
	defer func() {
		e3.UninstallShim()
		analyzer.ConfigReader.Flags = *config.CreateFlagSet()
		resetConfig()
	}()
	ref, err := s.Run(nil)
	if err != nil {
		run.Report(common.Cex{Sig: "sync-seam|scheduler-error|default", Summary: err.Error()})
		return
	}
	refObs := ref.Observation()
	if again, err := s.Run(ref.Choices); err != nil || again.Observation() != refObs {
		run.Report(common.Cex{Sig: "sync-seam|replay-nondeterministic", Summary: fmt.Sprintf("replaying the default schedule gives a different observation (err=%v)", err)})
	}
	kinds := map[string]int{}
	for _, pt := range ref.Points {
		kinds[pt.Kind]++
	}
	if kinds["point:once.Do"] == 0 || kinds["point:flag-read"] == 0 {
		run.Report(common.Cex{Sig: "sync-seam|vacuous", Summary: fmt.Sprintf("the default schedule passes no point inside the configuration reader (kinds: %v): the shim is not in effect", kinds)})
	}
	for _, pk := range p.Pkgs {
		got, want := e4.KeysOf(ref.Diags, pk.Path), e4.Wants(p, pk.Path)
		if strings.Join(got, "|") != strings.Join(want, "|") {
			run.Report(common.Cex{Sig: "sync-seam|fixture-wants|" + pk.Path, Summary: fmt.Sprintf("default schedule under scan-tests=true exclude-paths=gen: %s got %v want %v", pk.Path, got, want)})
		}
	}
	run.Count("sync_seam_actions", s.NumActions())
	run.Count("sync_seam_points_default", len(ref.Points))
	run.Count("sync_seam_points_once", kinds["point:once.Do"])
	run.Count("sync_seam_points_flag_read", kinds["point:flag-read"])
	n, err := s.Explore(bound, nil, func(x *e3.Exec) {
		obs := x.Observation()
		dev, waits := 0, 0
		for _, c := range x.Choices {
			if c != 0 {
				dev++
			}
		}
		for _, pt := range x.Points {
			if strings.HasPrefix(pt.Kind, "point:wait:") {
				waits++
			}
		}
		nt := ""
		if dev > 0 {
			nt = fmt.Sprintf("sync-seam|%v", x.Choices)
		}
		if waits > 0 {
			run.Count("sync_seam_executions_with_a_blocked_action", 1)
		}
		run.State(len(x.Points), common.Hash(obs), nt)
		if obs != refObs {
			y, err := s.Run(x.Choices)
			confirmed := err == nil && y.Observation() == obs
			var diff []string
			for _, pk := range p.Pkgs {
				if diagText(x.Diags, pk.Path) != diagText(ref.Diags, pk.Path) {
					diff = append(diff, pk.Path)
				}
			}
			run.Report(common.Cex{Sig: fmt.Sprintf("sync-seam|schedule|pkgs=%s|replay-confirmed=%v", strings.Join(diff, "+"), confirmed),
				Summary: fmt.Sprintf("under scan-tests=true exclude-paths=gen a schedule with %d deviation(s) around the configuration reader changes the result for packages %v (replay confirmed: %v; blocked-action points: %d)", dev, diff, confirmed, waits),
				Detail:  map[string]any{"choices": x.Choices, "observation": obs, "reference": refObs}})
		}
	})
	if err != nil {
		run.Report(common.Cex{Sig: "sync-seam|scheduler-error", Summary: err.Error()})
	}
	run.Count("sync_seam_executions", n)
}

package checks

import (
	"fmt"
	"os"
	"sort"
	"strings"
	"time"

	"github.com/a14e/gogreement/src/analyzer"
	"github.com/a14e/gogreement/src/config"

	"verif/mc/internal/common"
	"verif/mc/internal/drv"
	"verif/mc/internal/e1"
	"verif/mc/internal/prog"
)

func c08Tokens() []string {
	t := []string{"ALL"}
	cats := []string{"IMM", "CTOR", "TONL", "PKGO", "IMPL"}
	t = append(t, cats...)
	for _, c := range cats {
		t = append(t, allCodes[c]...)
	}
	return t
}

// excluded is the reference: a code is excluded iff some token equals ALL, its category or itself.
func c08Excluded(tokens []string, code string) bool {
	for _, t := range tokens {
		t = strings.ToUpper(strings.TrimSpace(t))
		if t == "ALL" || t == categoryOf(code) || t == code {
			return true
		}
	}
	return false
}

// setConfig drives the real ConfigReader: via the flag or via the environment variable (in which
// case the flag set is re-created under the new environment exactly as package init does).
func c08SetConfig(value string, viaEnv bool) {
	// the OTHER options rotate through settings that cannot change the verdicts of the covering program (it has no test
	// files and no path contains an exclude entry): default, empty exclude-paths by flag, an unrelated entry by
	// environment, scan-tests on with an empty exclude-paths variable
	c08Companion++
	comp := c08Companion % 4
	os.Unsetenv("GOGREEMENT_EXCLUDE_PATHS")
	os.Unsetenv("GOGREEMENT_SCAN_TESTS")
	switch comp {
	case 2:
		os.Setenv("GOGREEMENT_EXCLUDE_PATHS", "zzz-nowhere")
	case 3:
		os.Setenv("GOGREEMENT_EXCLUDE_PATHS", "")
	}
	if viaEnv {
		os.Setenv("GOGREEMENT_EXCLUDE_CHECKS", value)
		analyzer.ConfigReader.Flags = *config.CreateFlagSet()
	} else {
		os.Unsetenv("GOGREEMENT_EXCLUDE_CHECKS")
		analyzer.ConfigReader.Flags = *config.CreateFlagSet()
		if err := analyzer.ConfigReader.Flags.Set("exclude-checks", value); err != nil {
			common.Fatalf("flag set: %v", err)
		}
	}
	switch comp {
	case 1:
		if err := analyzer.ConfigReader.Flags.Set("exclude-paths", ""); err != nil {
			common.Fatalf("flag set: %v", err)
		}
	case 3:
		if err := analyzer.ConfigReader.Flags.Set("scan-tests", "true"); err != nil {
			common.Fatalf("flag set: %v", err)
		}
	}
	resetConfig()
}

var c08Companion int

func C08(tier common.Tier) int {
	run := common.NewRun("C08", tier, "model_checking")
	thorough := tier == "thorough"
	tokens := c08Tokens()
	run.SetRule("state = one configuration S of exclude-checks; the covering program (all 16 codes, 3 files, 2 packages) is analysed by the real ConfigReader -> IgnoreReader -> checkers path in-process (flag value or environment variable; VerifResetConfig hook between configurations) and the diagnostic set must equal the unrestricted baseline filtered by the ALL>category>code rule. Subsets are enumerated in order of cardinality. Conformance: a spread of configurations is also run on the real binary and the vet driver (flag and env) against the same reference. Non-trivial = S removes at least one and keeps at least one diagnostic.",
		"every configuration is accompanied by one of four settings of the OTHER options (default; exclude-paths empty by flag; an unrelated exclude-paths entry by variable; scan-tests on with an empty exclude-paths variable), none of which can change the covering program's verdicts; quick: all subsets of the 22 real tokens with |S|<=2 in both orders, the complements (all codes of a category but one, all codes but one, all categories but one, all codes of two categories), all ordered sequences with repetition of length<=3 over 7 tokens, all 2^3 sub-chains {ALL,category,code} per code, junk tokens, case/spacing variants, flag and env, each also on the program variant with inert @ignore markers and on a variant with real markers (category / list / ALL) judged against its own unrestricted run; thorough: all 2^22 subsets in order of cardinality under a time budget (completed cardinality reported)")
	run.Assume("hook: analyzer.VerifResetConfig (build tag verif, overlay) forgets the process-wide cached configuration; nothing else is replaced")
	base := e1.IgBases()[0]
	p := base.Program()
	ld, err := prog.Load(p)
	if err != nil {
		common.Fatalf("%v", err)
	}
	// The same program with @ignore markers of an unknown code in the middle of every file: they
	// suppress nothing, but the packages then carry scoped markers next to the project-wide exclusions.
	marked := base.Clone()
	for _, f := range marked.Files {
		mid := len(f.Lines) / 2
		for i := mid; i < len(f.Lines); i++ {
			t := strings.TrimSpace(f.Lines[i].Text)
			if t != "" && !strings.HasPrefix(t, "//") && !strings.Contains(t, "//") && t != "}" && t != ")" {
				f.Lines[i].Text += " // @ignore ZZZ9"
				break
			}
		}
	}
	pMarked := marked.Program()
	ldMarked, err := prog.Load(pMarked)
	if err != nil {
		common.Fatalf("%v", err)
	}

	// A third variant carries REAL markers (a category before a function, a file-level list, a trailing category): its
	// own unrestricted run is the reference for it — exclusion and scoped suppression must compose, whatever S is.
	real := e1.IgRealMarked(base)
	pReal := real.Program()
	ldReal, err := prog.Load(pReal)
	if err != nil {
		common.Fatalf("%v", err)
	}
	var realBaseline []prog.Diag // filled by each worker under the empty configuration

	evalOne := func(run *common.Run, value string, toks []string, viaEnv bool, baseline []prog.Diag) {
		c08SetConfig(value, viaEnv)
		res := prog.Analyze(ld, prog.Opts{})
		if res.Panic != "" || len(res.Errs) > 0 {
			run.Report(common.Cex{Sig: "crash", Summary: fmt.Sprintf("analysis crashed under exclude-checks=%q: %s %v", value, res.Panic, res.Errs)})
			return
		}
		// with scoped @ignore markers present in every file the result must be the same
		resM := prog.Analyze(ldMarked, prog.Opts{})
		if gm, g := strings.Join(prog.Keys(resM.Diags), "|"), strings.Join(prog.Keys(res.Diags), "|"); gm != g || resM.Panic != "" {
			missing, extra := diffKeys(prog.Keys(res.Diags), prog.Keys(resM.Diags))
			run.Report(common.Cex{Sig: fmt.Sprintf("exclude-with-markers|via=%s|lost=%s|gained=%s|ntokens=%d", via(viaEnv), codesOf(missing), codesOf(extra), len(toks)),
				Summary: fmt.Sprintf("exclude-checks=%q (via %s): adding inert `// @ignore ZZZ9` comments to the files changes the result: lost %v, gained %v %s", value, via(viaEnv), missing, extra, resM.Panic)})
		}
		run.State(1, "", "")
		// the program with real markers against its own unrestricted run
		resR := prog.Analyze(ldReal, prog.Opts{})
		var wantR []string
		for _, d := range realBaseline {
			if !c08Excluded(toks, d.Code) {
				wantR = append(wantR, d.Key())
			}
		}
		sort.Strings(wantR)
		if gotR := prog.Keys(resR.Diags); strings.Join(gotR, "|") != strings.Join(wantR, "|") || resR.Panic != "" {
			missing, extra := diffKeys(wantR, gotR)
			run.Report(common.Cex{Sig: fmt.Sprintf("exclude-with-real-markers|via=%s|removed-but-should-stay=%s|kept-but-should-go=%s|ntokens=%d", via(viaEnv), codesOf(missing), codesOf(extra), len(toks)),
				Summary: fmt.Sprintf("exclude-checks=%q (via %s) on the program with @ignore IMM / TONL, PKGO01 / CTOR / ALL markers: compared with that program's own unrestricted run, wrongly removed %v, wrongly kept %v %s", value, via(viaEnv), missing, extra, resR.Panic)})
		}
		run.State(1, "", "")
		var want []string
		for _, d := range baseline {
			if !c08Excluded(toks, d.Code) {
				want = append(want, d.Key())
			}
		}
		sort.Strings(want)
		got := prog.Keys(res.Diags)
		nt := ""
		if len(want) > 0 && len(want) < len(baseline) {
			nt = value
		}
		run.State(1, strings.Join(got, "|"), nt)
		if strings.Join(got, "|") != strings.Join(want, "|") {
			missing, extra := diffKeys(want, got)
			run.Report(common.Cex{Sig: fmt.Sprintf("exclude|via=%s|removed-but-should-stay=%s|kept-but-should-go=%s|ntokens=%d", via(viaEnv), codesOf(missing), codesOf(extra), len(toks)),
				Summary: fmt.Sprintf("exclude-checks=%q (via %s): diagnostics wrongly removed %v, wrongly kept %v", value, via(viaEnv), missing, extra)})
		}
	}

	common.Sharded(run, common.NumWorkers(), func(run *common.Run, sh common.Shard) {
		c08SetConfig("", false)
		baseRes := prog.Analyze(ld, prog.Opts{})
		if baseRes.Panic != "" || len(baseRes.Errs) > 0 {
			common.Fatalf("baseline crashed: %s %v", baseRes.Panic, baseRes.Errs)
		}
		baseline := baseRes.Diags
		rr := prog.Analyze(ldReal, prog.Opts{})
		if rr.Panic != "" || len(rr.Errs) > 0 || len(rr.Diags) == 0 || len(rr.Diags) >= len(baseline) {
			common.Fatalf("the variant with real @ignore markers is not a proper sub-case of the base: %d of %d diagnostics %s", len(rr.Diags), len(baseline), rr.Panic)
		}
		realBaseline = rr.Diags
		seen := map[string]bool{}
		for _, d := range baseline {
			seen[d.Code] = true
		}
		if len(seen) != 16 {
			run.Report(common.Cex{Sig: "base-incomplete", Summary: fmt.Sprintf("covering program yields %d codes", len(seen))})
		}
		idx := 0
		mine := func() bool { idx++; return sh.Mine(idx) }
		// structured part (both tiers)
		type cfg struct {
			value string
			toks  []string
		}
		var cfgs []cfg
		add := func(toks ...string) { cfgs = append(cfgs, cfg{strings.Join(toks, ","), toks}) }
		add()
		for i := range tokens {
			add(tokens[i])
			for j := i + 1; j < len(tokens); j++ {
				add(tokens[i], tokens[j])
			}
		}
		for cat, codes := range allCodes {
			for _, c := range codes {
				chain := []string{"ALL", cat, c}
				for m := 0; m < 8; m++ {
					var s []string
					for b := 0; b < 3; b++ {
						if m&(1<<b) != 0 {
							s = append(s, chain[b])
						}
					}
					add(s...)
				}
			}
		}
		// complements: every category's codes but one; every code but one; every category but one; all codes of two categories
		{
			var every []string
			var cats []string
			for cat := range allCodes {
				cats = append(cats, cat)
			}
			sort.Strings(cats)
			for _, cat := range cats {
				codes := allCodes[cat]
				every = append(every, codes...)
				add(codes...)
				for skip := range codes {
					var s []string
					for i, c := range codes {
						if i != skip {
							s = append(s, c)
						}
					}
					add(s...)
					add(append(append([]string{}, s...), "XYZ")...)
				}
			}
			for skip := range every {
				var s []string
				for i, c := range every {
					if i != skip {
						s = append(s, c)
					}
				}
				add(s...)
			}
			for skip := range cats {
				var s []string
				for i, c := range cats {
					if i != skip {
						s = append(s, c)
					}
				}
				add(s...)
			}
			for i := range cats {
				for j := i + 1; j < len(cats); j++ {
					add(append(append([]string{}, allCodes[cats[i]]...), allCodes[cats[j]]...)...)
				}
			}
		}
		// order and repetition: all ordered sequences (with repetition) of length <= 3 over a reduced token set,
		// and all ordered pairs over the full token set
		small := []string{"ALL", "IMM", "IMM01", "CTOR", "CTOR01", "TONL02", "XYZ"}
		for _, a := range small {
			for _, b := range small {
				add(a, b)
				for _, c := range small {
					add(a, b, c)
				}
			}
		}
		for i := range tokens {
			for j := range tokens {
				if i > j {
					add(tokens[i], tokens[j])
				}
			}
		}
		if thorough {
			for _, a := range tokens {
				for _, b := range tokens {
					for _, c := range tokens {
						if !(a < b && b < c) {
							add(a, b, c)
						}
					}
				}
			}
		}
		for _, junk := range []string{"IMM0", "IMM011", "XYZ", "IM", "01", "A", "ALLL", "IMM 01", "-", "IMM01x"} {
			add(junk)
			add(junk, "CTOR02")
		}
		// case / spacing variants with explicit value strings
		cfgs = append(cfgs,
			cfg{" imm01 , Ctor ", []string{"IMM01", "CTOR"}}, cfg{"all", []string{"ALL"}}, cfg{"All", []string{"ALL"}}, cfg{",,tonl,,", []string{"TONL"}},
			cfg{"pkgo01,PKGO01", []string{"PKGO01"}}, cfg{"\timpl\t", []string{"IMPL"}}, cfg{",", nil}, cfg{" ", nil}, cfg{"imm01;ctor", []string{"IMM01;CTOR"}})
		for _, c := range cfgs {
			for _, viaEnv := range []bool{false, true} {
				if !mine() {
					continue
				}
				evalOne(run, c.value, c.toks, viaEnv, baseline)
			}
		}
		if sh.I == 0 {
			run.Sample(map[string]any{"value": " imm01 , Ctor ", "via": "flag+env", "baseline_diagnostics": len(baseline)})
		}
		if !thorough {
			return
		}
		// all subsets by cardinality under a budget
		budget := 8 * time.Minute
		start := time.Now()
		n := len(tokens)
		completed := 2
		for k := 3; k <= n; k++ {
			comb := make([]int, k)
			for i := range comb {
				comb[i] = i
			}
			for {
				if mine() {
					toks := make([]string, k)
					for i, ci := range comb {
						toks[i] = tokens[ci]
					}
					evalOne(run, strings.Join(toks, ","), toks, false, baseline)
				}
				// next combination
				i := k - 1
				for i >= 0 && comb[i] == n-k+i {
					i--
				}
				if i < 0 {
					break
				}
				comb[i]++
				for j := i + 1; j < k; j++ {
					comb[j] = comb[j-1] + 1
				}
				if idx%4096 == 0 && time.Since(start) > budget {
					run.NotExhaustive(fmt.Sprintf("time budget reached inside cardinality %d; all subsets with |S|<=%d completed", k, completed))
					return
				}
			}
			completed = k
		}
		run.Count("completed_cardinality", completed)
	})

	// Conformance on the real executables (parent only).
	drv.Binary()
	root := drv.Scratch()
	defer os.RemoveAll(root)
	drv.WriteModule(root+"/m", p)
	drv.WriteModule(root+"/mm", pMarked)
	baseOut := drv.Run(drv.Req{Driver: drv.Standalone, Dir: root + "/m"})
	type conf struct {
		value string
		toks  []string
	}
	confs := []conf{{"IMM,IMM01,CTOR", []string{"IMM", "IMM01", "CTOR"}}, {"ctor01,CTOR01,tonl", []string{"CTOR01", "CTOR01", "TONL"}}, {"XYZ,IMM,XYZ,PKGO03", []string{"XYZ", "IMM", "XYZ", "PKGO03"}},
		{"ALL", []string{"ALL"}}, {"all", []string{"ALL"}}, {"", nil}, {"XYZ", []string{"XYZ"}}, {" imm01 , Ctor ", []string{"IMM01", "CTOR"}},
		{"IMM,CTOR,TONL,PKGO,IMPL", []string{"IMM", "CTOR", "TONL", "PKGO", "IMPL"}}, {"IMM0,IMM011", []string{"IMM0", "IMM011"}}}
	for cat, codes := range allCodes {
		confs = append(confs, conf{cat, []string{cat}})
		for _, c := range codes {
			confs = append(confs, conf{c, []string{c}}, conf{strings.ToLower(c) + ",XYZ", []string{c, "XYZ"}})
		}
	}
	type cell struct {
		c   conf
		env bool
		k   drv.Driver
	}
	var cells []cell
	for i, c := range confs {
		cells = append(cells, cell{c, i%2 == 0, drv.Standalone}, cell{c, i%2 == 1, drv.Vet})
		if thorough {
			cells = append(cells, cell{c, i%2 == 1, drv.Standalone}, cell{c, i%2 == 0, drv.Vet})
		}
	}
	drv.ParallelDo(len(cells), common.NumWorkers(), func(i int) {
		c := cells[i]
		dir := root + "/m"
		if i%3 == 2 {
			dir = root + "/mm" // the variant with inert @ignore markers: same expectation
		}
		req := drv.Req{Driver: c.k, Dir: dir}
		if c.env {
			req.Env = map[string]string{"GOGREEMENT_EXCLUDE_CHECKS": c.c.value}
		} else {
			req.Flags = []string{"-config.exclude-checks=" + c.c.value}
		}
		o := drv.Run(req)
		if cr := o.Crashed(); cr != "" {
			run.Report(common.Cex{Sig: "crash|binary", Summary: fmt.Sprintf("%s crashed under exclude-checks=%q: %s", c.k, c.c.value, cr)})
			return
		}
		var want []string
		for _, d := range baseOut.Diags {
			if !c08Excluded(c.c.toks, d.Code) {
				want = append(want, d.Key())
			}
		}
		sort.Strings(want)
		got := prog.Keys(o.Diags)
		nt := ""
		if len(want) > 0 && len(want) < len(baseOut.Diags) {
			nt = fmt.Sprintf("binary|%s|%v|%s", c.c.value, c.env, c.k)
		}
		run.State(1, strings.Join(got, "|"), nt)
		if strings.Join(got, "|") != strings.Join(want, "|") {
			missing, extra := diffKeys(want, got)
			run.Report(common.Cex{Sig: fmt.Sprintf("exclude-binary|driver=%s|via=%s|removed-but-should-stay=%s|kept-but-should-go=%s", c.k, via(c.env), codesOf(missing), codesOf(extra)),
				Summary: fmt.Sprintf("%s with exclude-checks=%q via %s: wrongly removed %v, wrongly kept %v", c.k, c.c.value, via(c.env), missing, extra),
				Detail:  map[string]any{"cmd": o.Cmd}})
		}
	})
	run.Count("binary_conformance_cells", len(cells))
	return run.Finish()
}

func via(env bool) string {
	if env {
		return "env"
	}
	return "flag"
}

func init() { Register("C08", C08) }

package checks

import (
	"fmt"
	"os"
	"regexp"
	"sort"
	"strings"

	"verif/mc/internal/common"
	"verif/mc/internal/drv"
	"verif/mc/internal/prog"
)

// c14Program: regular, in-package test, external test, generated, legacy sub-package and a
// testdata package; every file carries annotations, @ignore comments and violations. A line that
// must be reported (when neither its file nor the files holding the annotations it depends on
// are excluded) carries `// want CODE dep=<file>[,<file>]`.
func c14Program() *prog.Program {
	return &prog.Program{Pkgs: []prog.Pkg{
		{Path: "ex.com/m/d/legacy", Files: []prog.File{{Name: "l.go", Src: `package legacy

// L is immutable.
// @immutable
type L struct{ F int }

// LegacyOnly is test-only.
// @testonly
func LegacyOnly() {}

func legacyBad(l *L) {
	l.F = 1 // want IMM01 dep=d/legacy/l.go
	LegacyOnly() // want TONL02 dep=d/legacy/l.go
}
`}, {Name: "l_test.go", Src: `package legacy

// LT is declared in a test file of an excluded directory.
// @immutable
type LT struct{ F int }

func legacyTestBad(l *L, lt *LT) {
	l.F = 2 // want IMM01 dep=d/legacy/l.go
	lt.F = 2 // want IMM01 dep=d/legacy/l_test.go
}
`}}},
		{Path: "ex.com/m/zz", Files: []prog.File{{Name: "zz.go", Src: "package zz\n\ntype Iface interface{ Do() }\n"}}},
		{Path: "ex.com/m/d", Files: []prog.File{
			{Name: "x.go", Src: `package d

// T is immutable.
// @immutable
// @constructor NewT
type T struct{ F int }

func NewT() *T { return &T{} }

// Helper is test-only.
// @testonly
func Helper() int { return 0 }

// Tok is restricted to a package that does not exist.
// @packageonly nowhere
type Tok struct{ N int }

// Impl names a package this file does not import; the test file and the generated file do.
// @implements zz.Iface
type Impl struct{} // want IMPL01 dep=d/x.go

func bad(x *T, g *G) {
	x.F = 1 // want IMM01 dep=d/x.go
	g.F = 1 // want IMM01 dep=d/zz_gen.go
	_ = T{} // want CTOR01 dep=d/x.go
	Helper() // want TONL02 dep=d/x.go
}
`},
			{Name: "zz_gen.go", Src: `package d

import _ "ex.com/m/zz"

// G is generated and immutable.
// @immutable
type G struct{ F int }

func genBad(g *G, x *T) {
	g.F = 2 // want IMM01 dep=d/zz_gen.go
	x.F = 2 // want IMM01 dep=d/x.go
	_ = T{} // @ignore CTOR01
	Helper() // want TONL02 dep=d/x.go
}
`},
			{Name: "x_test.go", Src: `package d

import zz "ex.com/m/zz"

var _ zz.Iface

// TT is declared in a test file.
// @immutable
type TT struct{ F int }

// InTest is test-only and declared in a test file.
// @testonly
func InTest() {}

var sharedInTest = Helper()

func testBad(x *T, tt *TT) {
	x.F = 3 // want IMM01 dep=d/x.go
	tt.F = 3 // want IMM01 dep=d/x_test.go
	Helper()
	InTest()
	_ = T{} // @ignore CTOR01
	_ = new(T) // want CTOR02 dep=d/x.go
}
`},
			{Name: "y_test.go", Src: `package d

func testBad2(tt *TT) {
	tt.F = 4 // want IMM01 dep=d/x_test.go
	Helper()
	InTest()
}
`},
			{Name: "z_more_test.go", Src: `package d

// a third in-package test file in a row: test files never receive TONL diagnostics, whichever position they have
func testBad3() int {
	InTest()
	return Helper()
}
`},
			{Name: "ext_test.go", Src: `package d_test

import "ex.com/m/d"

var sharedInExtTest = d.Helper()

func extBad(x *d.T, tt *d.TT) {
	x.F = 5 // want IMM01 dep=d/x.go
	tt.F = 5 // want IMM01 dep=d/x_test.go
	d.Helper()
}
`},
			{Name: "ext2_test.go", Src: `package d_test

import "ex.com/m/d"

func extBad2() int {
	d.InTest()
	return d.Helper()
}
`},
		}},
		{Path: "ex.com/m/u", Files: []prog.File{
			{Name: "u.go", Src: `package u

import (
	"ex.com/m/d"
	"ex.com/m/d/legacy"
)

func use(x *d.T, g *d.G, l *legacy.L) {
	x.F = 1 // want IMM01 dep=d/x.go
	g.F = 1 // want IMM01 dep=d/zz_gen.go
	l.F = 1 // want IMM01 dep=d/legacy/l.go
	d.Helper() // want TONL02 dep=d/x.go
}
`},
			{Name: "handle_gen.go", Src: `package u

import "ex.com/m/d"

// Handle is an alias of a restricted type, declared in a generated file.
type Handle = d.Tok // want PKGO01 dep=d/x.go

func genUse() {
	d.Helper() // want TONL02 dep=d/x.go
}
`},
			{Name: "handle_use.go", Src: `package u

func useHandle() int {
	var h Handle // want PKGO01 dep=d/x.go
	return h.N
}
`},
			{Name: "u_test.go", Src: `package u

import "ex.com/m/d"

func useInTest(x *d.T) {
	x.F = 9 // want IMM01 dep=d/x.go
	d.Helper()
}
`},
			// test files whose base name holds further dots: still test files
			{Name: "u.gen_test.go", Src: `package u

import "ex.com/m/d"

func useInDottedTest(x *d.T) {
	x.F = 10 // want IMM01 dep=d/x.go
	d.Helper()
}
`},
			{Name: "api.v2.pb_test.go", Src: `package u_test

import "ex.com/m/d"

func useInDottedExtTest(x *d.T) int {
	x.F++ // want IMM03 dep=d/x.go
	return d.Helper()
}
`},
		}},
		{Path: "ex.com/m/testdata/p", Files: []prog.File{{Name: "p.go", Src: `package p

// PT is immutable.
// @immutable
type PT struct{ F int }

func pbad(x *PT) {
	x.F = 1 // want IMM01 dep=testdata/p/p.go
}
`}, {Name: "p_test.go", Src: `package p

func ptestBad(x *PT) {
	x.F = 2 // want IMM01 dep=testdata/p/p.go
}
`}}},
	}}
}

type c14Cfg struct {
	scan     bool
	paths    []string // effective exclude-paths
	pathsArg *string  // value given (nil = default)
}

func (c c14Cfg) String() string {
	a := "<default>"
	if c.pathsArg != nil {
		a = fmt.Sprintf("%q", *c.pathsArg)
	}
	return fmt.Sprintf("scan-tests=%v exclude-paths=%s", c.scan, a)
}

func (c c14Cfg) excluded(abs string) bool {
	for _, e := range c.paths {
		if strings.Contains(abs, e) {
			return true
		}
	}
	return !c.scan && strings.HasSuffix(abs, "_test.go")
}

var c14WantRe = regexp.MustCompile(`// want ([A-Z0-9]+) dep=(\S+)`)

func relOf(pk prog.Pkg, f prog.File) string {
	return strings.TrimPrefix(pk.Path, "ex.com/m/") + "/" + f.Name
}

// c14Strip returns the inert twin of a file: no annotation / @ignore comments, violating
// statements replaced by a harmless one.
func c14Strip(src string) string {
	var out []string
	for _, l := range strings.Split(src, "\n") {
		t := strings.TrimSpace(l)
		if strings.HasPrefix(t, "// @") {
			out = append(out, "//")
			continue
		}
		if i := strings.Index(l, " // want"); i > 0 && !strings.HasPrefix(l, "\t") {
			out = append(out, l[:i]) // a top-level declaration other files depend on stays; only the marker goes
			continue
		}
		if strings.Contains(l, "// want") || strings.Contains(l, "// @ignore") {
			ind := l[:len(l)-len(strings.TrimLeft(l, "\t"))]
			out = append(out, ind+"_ = 0")
			continue
		}
		out = append(out, l)
	}
	return strings.Join(out, "\n")
}

func C14(tier common.Tier) int {
	run := common.NewRun("C14", tier, "exploration")
	thorough := tier == "thorough"
	run.SetRule("finite grid enumerated completely: a module mixing regular, in-package _test.go, external test package, *_gen.go, a legacy/ sub-package and a testdata package named explicitly, every file with annotations, @ignore comments and violations, x scan-tests {off,on} x exclude-paths {default, empty, _gen.go, 'legacy,_gen.go', ' legacy , ,_gen.go ', '_gen.go,zz_gen.go', 'legacy/zz,legacy', '_gen.go,_gen.go', 'testdata' given explicitly, entries in another letter case than the paths}; a flag is always accompanied by the opposite value in the environment variable x {flag, env} x both real drivers. Oracles per cell: (exact) diagnostics = want-markers whose own file and annotation-holding files are not excluded by the reference filter, TONL never in _test.go; (positional) no diagnostic in an excluded file; (differential) replacing every excluded file by its inert twin leaves the diagnostics unchanged. Non-trivial = a cell whose configuration excludes at least one file that carries wants.",
		"1 program x 2 x 9 configurations x {flag,env} x 2 drivers x {full, excluded files stripped}")
	run.Assume("go list / go vet package selection is trusted; the scratch path contains no exclude entry")
	drv.Binary()
	root := drv.Scratch()
	defer os.RemoveAll(root)
	p := c14Program()

	strp := func(s string) *string { return &s }
	var cfgs []c14Cfg
	for _, scan := range []bool{false, true} {
		cfgs = append(cfgs,
			c14Cfg{scan, []string{"testdata"}, nil},
			c14Cfg{scan, nil, strp("")},
			c14Cfg{scan, []string{"_gen.go"}, strp("_gen.go")},
			c14Cfg{scan, []string{"legacy", "_gen.go"}, strp("legacy,_gen.go")},
			c14Cfg{scan, []string{"legacy", "_gen.go"}, strp(" legacy , ,_gen.go ")},
			// entries that contain one another, in both orders, and a repeated entry: every entry counts on its own
			c14Cfg{scan, []string{"_gen.go", "zz_gen.go"}, strp("_gen.go,zz_gen.go")},
			c14Cfg{scan, []string{"legacy/zz", "legacy"}, strp("legacy/zz,legacy")},
			c14Cfg{scan, []string{"_gen.go"}, strp("_gen.go,_gen.go")},
			// the built-in default given explicitly (as a flag it must still beat the variable)
			c14Cfg{scan, []string{"testdata"}, strp("testdata")},
			// entries are matched as written: another letter case names another path (no file of the program matches these)
			c14Cfg{scan, []string{"Legacy", "_GEN.go"}, strp("Legacy,_GEN.go")},
			c14Cfg{scan, []string{"TestData", "_gen.go"}, strp("TestData,_gen.go")})
	}
	type cell struct {
		cfg    c14Cfg
		viaEnv bool
		k      drv.Driver
	}
	var cells []cell
	for i, c := range cfgs {
		for _, k := range []drv.Driver{drv.Standalone, drv.Vet} {
			if thorough {
				cells = append(cells, cell{c, false, k}, cell{c, true, k})
			} else {
				cells = append(cells, cell{c, (i+int(k))%2 == 0, k})
			}
		}
	}
	drv.ParallelDo(len(cells), common.NumWorkers(), func(ci int) {
		c := cells[ci]
		dir := fmt.Sprintf("%s/c%d", root, ci)
		abs := func(rel string) string { return dir + "/" + rel }
		// reference
		type want struct{ key string }
		var wants []string
		excludedWithWants := 0
		for _, pk := range p.Pkgs {
			for _, f := range pk.Files {
				rel := relOf(pk, f)
				hasWant := false
				for i, l := range strings.Split(f.Src, "\n") {
					m := c14WantRe.FindStringSubmatch(l)
					if m == nil {
						continue
					}
					hasWant = true
					ok := !c.cfg.excluded(abs(rel))
					for _, dep := range strings.Split(m[2], ",") {
						if c.cfg.excluded(abs(dep)) {
							ok = false
						}
					}
					if strings.HasPrefix(m[1], "TONL") && strings.HasSuffix(f.Name, "_test.go") {
						ok = false
					}
					if ok {
						wants = append(wants, fmt.Sprintf("ex.com/m/%s:%d:%s", rel, i+1, m[1]))
					}
				}
				if hasWant && c.cfg.excluded(abs(rel)) {
					excludedWithWants++
				}
			}
		}
		sort.Strings(wants)
		runOne := func(sub string, prg *prog.Program) ([]string, []prog.Diag, *drv.Out) {
			d := dir + sub
			// keep the directory name identical for exclusion purposes: materialise under dir itself
			drv.WriteModule(d, prg)
			req := drv.Req{Driver: c.k, Dir: d, Patterns: []string{"./...", "./testdata/p"}}
			if c.viaEnv {
				req.Env = map[string]string{"GOGREEMENT_SCAN_TESTS": fmt.Sprint(c.cfg.scan)}
				if c.cfg.pathsArg != nil {
					req.Env["GOGREEMENT_EXCLUDE_PATHS"] = *c.cfg.pathsArg
				}
			} else {
				// flags win over the environment: every option given by flag gets the OPPOSITE value in its variable
				req.Flags = []string{fmt.Sprintf("-config.scan-tests=%v", c.cfg.scan)}
				req.Env = map[string]string{"GOGREEMENT_SCAN_TESTS": fmt.Sprint(!c.cfg.scan)}
				if c.cfg.pathsArg != nil {
					req.Flags = append(req.Flags, "-config.exclude-paths="+*c.cfg.pathsArg)
					if len(c.cfg.paths) == 0 {
						req.Env["GOGREEMENT_EXCLUDE_PATHS"] = "legacy,_gen.go,testdata,x.go"
					} else {
						req.Env["GOGREEMENT_EXCLUDE_PATHS"] = ""
					}
				}
			}
			o := drv.Run(req)
			var keys []string
			seen := map[string]bool{}
			for _, dg := range o.Diags {
				k := dg.Key()
				if !seen[k+dg.Message] {
					seen[k+dg.Message] = true
					keys = append(keys, k)
				}
			}
			sort.Strings(keys)
			os.RemoveAll(d)
			return keys, o.Diags, o
		}
		got, diags, o := runOne("", p)
		if cr := o.Crashed(); cr != "" {
			run.Report(common.Cex{Sig: "crash|" + c.k.String(), Summary: fmt.Sprintf("%s crashed under %s: %s", c.k, c.cfg, cr)})
			return
		}
		nt := ""
		if excludedWithWants > 0 {
			nt = fmt.Sprintf("%s|%v|%s", c.cfg, c.viaEnv, c.k)
		}
		run.State(1, strings.Join(got, "|"), nt)
		// positional oracle
		for _, dg := range diags {
			rel := strings.TrimPrefix(dg.File, "ex.com/m/")
			if c.cfg.excluded(abs(rel)) {
				run.Report(common.Cex{Sig: fmt.Sprintf("in-excluded-file|file=%s|code=%s|scan=%v", rel, dg.Code, c.cfg.scan),
					Summary: fmt.Sprintf("%s under %s (via %s) reports %s in excluded file %s:%d", c.k, c.cfg, via(c.viaEnv), dg.Code, rel, dg.Line), Detail: map[string]any{"cmd": o.Cmd}})
			}
			if strings.HasPrefix(dg.Code, "TONL") && strings.HasSuffix(dg.File, "_test.go") {
				run.Report(common.Cex{Sig: "tonl-in-test-file|" + rel, Summary: fmt.Sprintf("%s reported in test file %s:%d under %s", dg.Code, rel, dg.Line, c.cfg)})
			}
		}
		// exact oracle
		if strings.Join(got, "|") != strings.Join(wants, "|") {
			missing, extra := diffKeys(wants, got)
			run.Report(common.Cex{Sig: fmt.Sprintf("exact|driver=%s|via=%s|scan=%v|paths=%s|missing=%s|extra=%s", c.k, via(c.viaEnv), c.cfg.scan, strings.Join(c.cfg.paths, "+"), filesOf(missing), filesOf(extra)),
				Summary: fmt.Sprintf("%s under %s (via %s): missing %v, unexpected %v", c.k, c.cfg, via(c.viaEnv), missing, extra), Detail: map[string]any{"cmd": o.Cmd, "want": wants, "got": got}})
		}
		// differential oracle: excluded files replaced by inert twins
		twin := &prog.Program{}
		for _, pk := range p.Pkgs {
			npk := prog.Pkg{Path: pk.Path}
			for _, f := range pk.Files {
				if c.cfg.excluded(abs(relOf(pk, f))) {
					f.Src = c14Strip(f.Src)
				}
				npk.Files = append(npk.Files, f)
			}
			twin.Pkgs = append(twin.Pkgs, npk)
		}
		got2, _, o2 := runOne("", twin)
		run.State(1, strings.Join(got2, "|"), "")
		if strings.Join(got, "|") != strings.Join(got2, "|") {
			missing, extra := diffKeys(got, got2)
			run.Report(common.Cex{Sig: fmt.Sprintf("influence|driver=%s|scan=%v|paths=%s|changed=%s", c.k, c.cfg.scan, strings.Join(c.cfg.paths, "+"), filesOf(append(missing, extra...))),
				Summary: fmt.Sprintf("%s under %s: stripping annotations/@ignore/violations from the excluded files changes other files' diagnostics: disappear %v, appear %v", c.k, c.cfg, missing, extra),
				Detail:  map[string]any{"cmd": o2.Cmd}})
		}
		if ci%7 == 0 {
			run.Sample(map[string]any{"config": c.cfg.String(), "via": via(c.viaEnv), "driver": c.k.String(), "expected_diagnostics": len(wants)})
		}
	})
	return run.Finish()
}

func filesOf(keys []string) string {
	set := map[string]bool{}
	for _, k := range keys {
		f := k[:strings.Index(k, ":")]
		set[strings.TrimPrefix(f, "ex.com/m/")] = true
	}
	var l []string
	for f := range set {
		l = append(l, f)
	}
	sort.Strings(l)
	return strings.Join(l, "+")
}

func init() { Register("C14", C14) }

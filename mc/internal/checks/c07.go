package checks

import (
	"fmt"
	"sort"
	"strings"

	"verif/mc/internal/common"
	"verif/mc/internal/e1"
	"verif/mc/internal/e4"
	"verif/mc/internal/prog"
)

var allCodes = map[string][]string{
	"IMM":  {"IMM01", "IMM02", "IMM03", "IMM04"},
	"CTOR": {"CTOR01", "CTOR02", "CTOR03"},
	"TONL": {"TONL01", "TONL02", "TONL03"},
	"PKGO": {"PKGO01", "PKGO02", "PKGO03"},
	"IMPL": {"IMPL01", "IMPL02", "IMPL03"},
}

func categoryOf(code string) string { return strings.TrimRight(code, "0123456789") }

// ignoreMatches is the reference hierarchy: ALL > category > code, case-insensitive.
func ignoreMatches(tokens []string, code string) bool {
	for _, t := range tokens {
		t = strings.ToUpper(t)
		if t == "ALL" || t == categoryOf(code) || t == code {
			return true
		}
	}
	return false
}

type ignoreList struct {
	name   string
	text   string   // what follows "// @ignore"
	tokens []string // reference reading; nil = not an annotation at all
}

func mixedCase(s string) string {
	b := []byte(strings.ToLower(s))
	for i := 0; i < len(b); i += 2 {
		if b[i] >= 'a' && b[i] <= 'z' {
			b[i] -= 32
		}
	}
	return string(b)
}

func listsFor(code string) []ignoreList {
	cat := categoryOf(code)
	other := ""
	for _, c := range allCodes[cat] {
		if c != code {
			other = c
			break
		}
	}
	otherCat := "CTOR"
	if cat == "CTOR" {
		otherCat = "IMM"
	}
	return []ignoreList{
		{"own-code", " " + code, []string{code}},
		{"category", " " + cat, []string{cat}},
		{"ALL", " ALL", []string{"ALL"}},
		{"lowercase", " " + strings.ToLower(code), []string{code}},
		{"mixed-case", " " + mixedCase(code), []string{code}},
		{"all-lowercase", " all", []string{"ALL"}},
		{"two-codes", " " + code + ", XYZ9", []string{code, "XYZ9"}},
		{"two-codes-rev", " XYZ9 ,  " + code, []string{"XYZ9", code}},
		{"trailing-prose", " " + code + " because of reasons, really", []string{code}},
		{"trailing-comma", " " + code + ",", []string{code}},
		{"tab-separated", "\t" + code, []string{code}},
		{"other-code-same-category", " " + other, []string{other}},
		{"other-category", " " + otherCat, []string{otherCat}},
		{"unknown-code", " XYZ9", []string{"XYZ9"}},
		{"no-codes", "", nil},
		{"malformed", " " + code + "-x", nil},
		{"prefix-of-code", " " + code[:len(code)-1], []string{code[:len(code)-1]}},
	}
}

type baseDiag struct {
	file int
	line int
	code string
}

func runIg(b *e1.IgBase) ([]baseDiag, *prog.Result) { return runIgOrder(b, false) }

// runIgOrder analyses the program with the files of every package parsed in listed order or in the opposite
// order (the loader's choice: which file of a package receives the lower positions).
func runIgOrder(b *e1.IgBase, reverseParse bool) ([]baseDiag, *prog.Result) {
	p := b.Program()
	res, err := prog.RunOrder(p, prog.Opts{}, reverseParse)
	if err != nil {
		common.Fatalf("ignore base/variant does not compile: %v\n%s", err, p.Text())
	}
	var out []baseDiag
	for _, d := range res.Diags {
		fi := -1
		for i, f := range b.Files {
			if f.Pkg+"/"+f.Name == d.File {
				fi = i
			}
		}
		out = append(out, baseDiag{fi, d.Line, d.Code})
	}
	return out, res
}

func onceCode(c string) bool { return c == "TONL01" || c == "PKGO01" }

// expectedIg computes the reference diagnostic set of a variant from the base diagnostics.
func expectedIg(b *e1.IgBase, base []baseDiag, v *e1.IgVariant, tokens []string) []string {
	return expectedIgScopes(b, base, v, tokens, nil)
}

// expectedIgScopes is expectedIg with an additional scope predicate (in VARIANT line numbers of v): the
// suppressed region is the union of v's reference scope and extra.
func expectedIgScopes(b *e1.IgBase, base []baseDiag, v *e1.IgVariant, tokens []string, extra func(fi, vline int) bool) []string {
	var exp []string
	suppressed := func(fi, vline int, code string) bool {
		if tokens == nil || !ignoreMatches(tokens, code) {
			return false
		}
		return v.InScope(fi, vline) || (extra != nil && extra(fi, vline))
	}
	for _, d := range base {
		if onceCode(d.code) {
			continue // handled below
		}
		vl := v.MapLine(d.file, d.line)
		if suppressed(d.file, vl, d.code) {
			continue
		}
		exp = append(exp, fmt.Sprintf("%s:%d:%s", b.Files[d.file].Name+"@"+b.Files[d.file].Pkg, vl, d.code))
	}
	// once-per-file codes: first unsuppressed candidate per (file, code:type)
	for fi, f := range b.Files {
		first := map[string]bool{}
		for li, l := range f.Lines {
			for _, tag := range l.Once {
				if first[tag] {
					continue
				}
				code := tag[:strings.Index(tag, ":")]
				// is the type reported at all in the base for this file? (it is when the package is not allowed / item is testonly)
				reportedInBase := false
				for _, d := range base {
					if d.file == fi && d.code == code {
						reportedInBase = true
					}
				}
				if !reportedInBase {
					continue
				}
				vl := v.MapLine(fi, li+1)
				if suppressed(fi, vl, code) {
					continue
				}
				first[tag] = true
				exp = append(exp, fmt.Sprintf("%s:%d:%s", f.Name+"@"+f.Pkg, vl, code))
			}
		}
	}
	sort.Strings(exp)
	return exp
}

// C07: @ignore suppresses exactly the diagnostics in its scope that match its codes.
func C07(tier common.Tier) int {
	run := common.NewRun("C07", tier, "model_checking")
	run.SetRule("state = (base program, diagnostic d of the base, placement of one @ignore comment relative to d, code list). Each state is rendered and analysed by the real analyzers; the observed set must equal base minus {diagnostics inside the reference scope (computed from go/parser on the variant: file / declaration span / statement span incl. nested block / the single line) that match the list by ALL>category>code}, with TONL01/PKGO01 moving to the next unsuppressed use. Non-trivial = the reference removes or moves at least one diagnostic. Plus: comments after which nothing follows (end of a function body, end of file; nothing outside the comment's declaration may change) on the plain base and on the base with an inert file-level marker in every file; and a fixed program with exact expectations in which trailing comments stand on lines whose reported position a //line directive moved (smaller / larger line, beyond the end of the file, into another file); all under both parse orders.",
		"all diagnostics of the base programs (16 codes; statement-start and mid-statement anchors; function level, nested, package level; declaring and using package; two files) x 9 placements x 17 code lists")
	run.Assume("base verdicts are judged by C01-C05; here only the difference is judged", "scopes follow the property statement: file / following declaration / following statement / own line")
	run.NotJudged("what a stand-alone comment that is the last thing in a function body covers INSIDE that declaration (nothing follows it; outside the declaration nothing may change, and that is judged)", "stand-alone comments before struct fields, case clauses or specs inside a grouped declaration")
	bases := e1.IgBases()
	common.Sharded(run, common.NumWorkers(), func(run *common.Run, sh common.Shard) {
		idx := 0
		for _, b := range bases {
			base, res := runIg(b)
			if res.Panic != "" || len(res.Errs) > 0 {
				common.Fatalf("base program %s crashes the analysis: %s %v", b.Name, res.Panic, res.Errs)
			}
			seenCodes := map[string]bool{}
			for _, d := range base {
				if d.file < 0 {
					common.Fatalf("base diagnostic in unknown file")
				}
				seenCodes[d.code] = true
			}
			if sh.I == 0 {
				run.Count("distinct_codes_in_base", len(seenCodes))
				run.Count("base_diagnostics", len(base))
				if len(seenCodes) < 16 {
					run.Report(common.Cex{Sig: "base-incomplete", Summary: fmt.Sprintf("base program %s produces only %d of the 16 codes: %v", b.Name, len(seenCodes), seenCodes)})
				}
			}
			// distinct (file,line) of diagnostics; lists depend on the code
			for _, d := range base {
				for _, pl := range e1.IgPlacements {
					for _, l := range listsFor(d.code) {
						idx++
						if !sh.Mine(idx) {
							continue
						}
						v, nb, ok := e1.MakeVariant(b, d.file, d.line, pl, "// @ignore"+l.text)
						if !ok {
							continue
						}
						// every second variant additionally carries inert markers (unknown code) at both ends of every file:
						// they suppress nothing, but the package then holds several scoped markers around the one under test
						if idx%2 == 0 {
							for _, f := range nb.Files {
								first, last := -1, -1
								for li, l := range f.Lines {
									t := strings.TrimSpace(l.Text)
									if t == "" || strings.HasPrefix(t, "//") || strings.Contains(t, "//") || strings.HasPrefix(t, "package ") || strings.HasPrefix(t, "import ") || t == "}" || t == ")" {
										continue
									}
									if first < 0 {
										first = li
									}
									last = li
								}
								if first >= 0 && last > first {
									f.Lines[first].Text += " // @ignore ZZZ9"
									f.Lines[last].Text += " // @ignore ZZZ8, ZZZ9"
								}
							}
						}
						got, vres := runIg(nb)
						if vres.Panic != "" || len(vres.Errs) > 0 {
							run.Report(common.Cex{Sig: fmt.Sprintf("crash|placement=%s|list=%s", pl, l.name), Summary: "analysis crashes with an @ignore comment: " + vres.Panic,
								Detail: map[string]any{"program": nb.Program().Text()}})
							continue
						}
						var gk []string
						for _, g := range got {
							gk = append(gk, fmt.Sprintf("%s:%d:%s", nb.Files[g.file].Name+"@"+nb.Files[g.file].Pkg, g.line, g.code))
						}
						sort.Strings(gk)
						// the same variant with the package's files parsed in the opposite order: positions of later files are
						// then LOWER than those of earlier ones; scopes are per file and must not care
						{
							gotR, rres := runIgOrder(nb, true)
							var rk []string
							for _, g := range gotR {
								rk = append(rk, fmt.Sprintf("%s:%d:%s", nb.Files[g.file].Name+"@"+nb.Files[g.file].Pkg, g.line, g.code))
							}
							sort.Strings(rk)
							if strings.Join(rk, "|") != strings.Join(gk, "|") || rres.Panic != "" {
								missing, extra := diffKeys(gk, rk)
								run.Report(common.Cex{Sig: fmt.Sprintf("ignore-parse-order|placement=%s|list=%s|lost=%s|gained=%s", pl, l.name, codesOf(missing), codesOf(extra)),
									Summary: fmt.Sprintf("with the @ignore comment (%s, %s) the diagnostics depend on the order in which the loader parsed the package's files: only in listed order %v, only in reversed order %v %s", pl, l.name, missing, extra, rres.Panic),
									Detail:  map[string]any{"program": nb.Program().Text()}})
							}
							run.State(1, "", "")
						}
						want := expectedIg(b, base, v, l.tokens)
						nt := ""
						var baseKeys []string
						for _, bd := range base {
							baseKeys = append(baseKeys, fmt.Sprintf("%s:%d:%s", b.Files[bd.file].Name+"@"+b.Files[bd.file].Pkg, v.MapLine(bd.file, bd.line), bd.code))
						}
						sort.Strings(baseKeys)
						if strings.Join(want, "|") != strings.Join(baseKeys, "|") {
							nt = fmt.Sprintf("%s|%d|%d|%s|%s|%s", b.Name, d.file, d.line, d.code, pl, l.name)
						}
						run.State(1, strings.Join(gk, "|"), nt)
						if strings.Join(gk, "|") != strings.Join(want, "|") {
							missing, extra := diffKeys(want, gk)
							// classify relative to the target diagnostic
							tl := v.MapLine(d.file, d.line)
							target := fmt.Sprintf("%s:%d:%s", b.Files[d.file].Name+"@"+b.Files[d.file].Pkg, tl, d.code)
							effect := "other-diagnostics-changed"
							for _, m := range extra {
								if m == target {
									effect = "target-not-suppressed"
								}
							}
							for _, m := range missing {
								if m == target {
									effect = "target-wrongly-suppressed"
								}
							}
							level := "func-level"
							if fi, err := e1.ParseInfo(b.Files[d.file].Src()); err == nil {
								s, _ := fi.StmtSpan(d.line)
								ds, _ := fi.DeclSpan(d.line)
								if s == ds {
									level = "pkg-level"
								}
							}
							run.Report(common.Cex{
								Sig: fmt.Sprintf("ignore|placement=%s|list=%s|code=%s|level=%s|effect=%s|nmissing=%d|nextra=%d", pl, l.name, d.code, level, effect, len(missing), len(extra)),
								Summary: fmt.Sprintf("`// @ignore%s` placed %s relative to the %s at %s:%d (%s): diagnostics that should remain but vanished %v; diagnostics that should vanish (or not appear) but are reported %v",
									l.text, pl, d.code, b.Files[d.file].Name, d.line, level, missing, extra),
								Detail: map[string]any{"variant": v.Desc, "want": want, "got": gk, "program": nb.Program().Text()}})
						}
						// two comments with the same token and nested scopes: a trailing one on an earlier line of the same
						// declaration plus the stand-alone one before the declaration; the suppressed region is the union
						if pl == e1.PlDecl && l.tokens != nil && (l.name == "own-code" || l.name == "category" || l.name == "ALL") {
							if fi, err := e1.ParseInfo(b.Files[d.file].Src()); err == nil {
								ds, _ := fi.DeclSpan(d.line)
								inner := 0
								for ln := ds + 1; ln < d.line; ln++ {
									t := strings.TrimSpace(b.Files[d.file].Lines[ln-1].Text)
									if t != "" && !strings.HasPrefix(t, "//") && !strings.Contains(t, "//") && t != "}" && t != ")" && t != "{" {
										inner = ln
										break
									}
								}
								if inner > 0 {
									if _, nb1, ok1 := e1.MakeVariant(b, d.file, inner, e1.PlTrail, "// @ignore"+l.text); ok1 {
										if v2, nb2, ok2 := e1.MakeVariant(nb1, d.file, d.line, e1.PlDecl, "// @ignore"+l.text); ok2 {
											got2, r2 := runIg(nb2)
											var gk2 []string
											for _, g := range got2 {
												gk2 = append(gk2, fmt.Sprintf("%s:%d:%s", nb2.Files[g.file].Name+"@"+nb2.Files[g.file].Pkg, g.line, g.code))
											}
											sort.Strings(gk2)
											innerV := v2.MapLine(d.file, inner)
											want2 := expectedIgScopes(b, base, v2, l.tokens, func(f, vl int) bool { return f == d.file && vl == innerV })
											run.State(2, strings.Join(gk2, "|"), fmt.Sprintf("nested|%s|%d|%d|%s", b.Name, d.file, d.line, l.name))
											if strings.Join(gk2, "|") != strings.Join(want2, "|") || r2.Panic != "" {
												missing, extra := diffKeys(want2, gk2)
												run.Report(common.Cex{Sig: fmt.Sprintf("ignore-nested|list=%s|code=%s|nmissing=%d|nextra=%d", l.name, d.code, len(missing), len(extra)),
													Summary: fmt.Sprintf("two `// @ignore%s` comments with nested scopes (trailing on line %d, stand-alone before the declaration containing the %s at %s:%d): should remain but vanished %v; should vanish but reported %v %s",
														l.text, inner, d.code, b.Files[d.file].Name, d.line, missing, extra, r2.Panic),
													Detail: map[string]any{"want": want2, "got": gk2, "program": nb2.Program().Text()}})
											}
										}
									}
								}
							}
						}
						if idx%1009 == 1 {
							run.Sample(map[string]any{"base": b.Name, "target": fmt.Sprintf("%s:%d:%s", b.Files[d.file].Name, d.line, d.code), "placement": string(pl), "comment": "// @ignore" + l.text})
						}
					}
				}
			}
		}
	})
	c07Dangling(run, bases)
	c07LineDirectives(run)
	return run.Finish()
}

// c07Dangling: comments after which NOTHING follows — the last thing in a function body, or after the last
// declaration of a file — cover no statement. Whatever they do inside their own declaration (not judged), every
// diagnostic outside it stays; at the end of a file nothing changes at all. Run on the plain base and on the base
// with an inert file-level marker in every file (so that the dangling comment is not the first marker read).
func c07Dangling(run *common.Run, bases []*e1.IgBase) {
	keys := func(b *e1.IgBase, ds []baseDiag, v *e1.IgVariant, skip func(fi, vl int, code string) bool) []string {
		var out []string
		for _, d := range ds {
			vl := d.line
			if v != nil {
				vl = v.MapLine(d.file, d.line)
			}
			if skip != nil && skip(d.file, vl, d.code) {
				continue
			}
			out = append(out, fmt.Sprintf("%s:%d:%s", b.Files[d.file].Name+"@"+b.Files[d.file].Pkg, vl, d.code))
		}
		sort.Strings(out)
		return out
	}
	for _, b0 := range bases {
		base0, _ := runIg(b0)
		// the same program with an inert file-level marker in every file
		b1 := b0
		for fi := range b0.Files {
			_, nb, ok := e1.MakeVariant(b1, fi, 1, e1.PlFile, "// @ignore ZZZ9")
			if !ok {
				common.Fatalf("cannot place a file-level marker in file %d", fi)
			}
			b1 = nb
		}
		base1, r1 := runIg(b1)
		{
			var shifted []baseDiag
			for _, d := range base0 {
				shifted = append(shifted, baseDiag{d.file, d.line + 1, d.code})
			}
			w, g := keys(b0, shifted, nil, nil), keys(b1, base1, nil, nil)
			run.State(1, strings.Join(g, "|"), "inert-file-level|"+b0.Name)
			if strings.Join(w, "|") != strings.Join(g, "|") || r1.Panic != "" {
				missing, extra := diffKeys(w, g)
				run.Report(common.Cex{Sig: fmt.Sprintf("ignore-inert-file-level|nmissing=%d|nextra=%d", len(missing), len(extra)),
					Summary: fmt.Sprintf("`// @ignore ZZZ9` (no such code) before the package clause of every file changes the diagnostics: vanished %v, new %v %s", missing, extra, r1.Panic),
					Detail:  map[string]any{"program": b1.Program().Text()}})
				continue
			}
		}
		for bi, bb := range []struct {
			b    *e1.IgBase
			base []baseDiag
		}{{b0, base0}, {b1, base1}} {
			b, base := bb.b, bb.base
			doneDecl, doneFile := map[string]bool{}, map[int]bool{}
			for _, d := range base {
				cat := categoryOf(d.code)
				type job struct {
					pl   e1.IgPlacement
					text string
				}
				var jobs []job
				if fi, err := e1.ParseInfo(b.Files[d.file].Src()); err == nil {
					ds, _ := fi.DeclSpan(d.line)
					if k := fmt.Sprintf("%d:%d", d.file, ds); ds > 0 && !doneDecl[k] {
						doneDecl[k] = true
						for _, t := range []string{" ALL", " " + cat, " " + d.code, " IMM, CTOR, TONL, PKGO, IMPL", ""} {
							jobs = append(jobs, job{e1.PlDangling, t})
						}
					}
				}
				if !doneFile[d.file] {
					doneFile[d.file] = true
					for _, t := range []string{" ALL", " IMM, CTOR, TONL, PKGO, IMPL"} {
						jobs = append(jobs, job{e1.PlEOF, t})
					}
				}
				for _, j := range jobs {
					v, nb, ok := e1.MakeVariant(b, d.file, d.line, j.pl, "// @ignore"+j.text)
					if !ok {
						continue
					}
					for _, rev := range []bool{false, true} {
						got, res := runIgOrder(nb, rev)
						skip := func(fi, vl int, code string) bool {
							if j.pl == e1.PlEOF {
								return false
							}
							return onceCode(code) || (fi == v.File && vl >= v.DeclFrom && vl <= v.DeclTo)
						}
						w, g := keys(b, base, v, skip), keys(nb, got, nil, skip)
						nt := ""
						if len(w) > 0 {
							nt = fmt.Sprintf("dangling|%s|%d|%s|%d|%s|%v", b.Name, bi, j.pl, d.file, v.Desc, rev)
						}
						run.State(1, strings.Join(g, "|"), nt)
						if strings.Join(w, "|") != strings.Join(g, "|") || res.Panic != "" {
							missing, extra := diffKeys(w, g)
							run.Report(common.Cex{Sig: fmt.Sprintf("ignore-dangling|placement=%s|filemarker=%v|list=%s|lost=%s|gained=%s", j.pl, bi == 1, strings.TrimSpace(j.text), codesOf(missing), codesOf(extra)),
								Summary: fmt.Sprintf("`// @ignore%s` with nothing after it (%s, %s; inert file-level marker present: %v; reversed parse order: %v) changes diagnostics OUTSIDE its declaration: vanished %v, new %v %s",
									j.text, j.pl, v.Desc, bi == 1, rev, missing, extra, res.Panic),
								Detail: map[string]any{"program": nb.Program().Text()}})
						}
					}
				}
			}
		}
	}
}

// c07LineDirectives: a fixed program with exact expectations — trailing comments under //line directives cover their
// own source line and nothing else, in both parse orders.
func c07LineDirectives(run *common.Run) {
	p := e4.IgnoreUnderLineDirectives()
	for _, rev := range []bool{false, true} {
		res, err := prog.RunOrder(p, prog.Opts{}, rev)
		if err != nil {
			common.Fatalf("line-directive fixture: %v", err)
		}
		for _, pk := range p.Pkgs {
			got, want := e4.KeysOf(res.Diags, pk.Path), e4.Wants(p, pk.Path)
			run.State(1, strings.Join(got, "|"), fmt.Sprintf("line-directives|%s|%v", pk.Path, rev))
			if strings.Join(got, "|") != strings.Join(want, "|") || res.Panic != "" {
				missing, extra := diffKeys(want, got)
				run.Report(common.Cex{Sig: fmt.Sprintf("ignore-line-directive|lost=%s|gained=%s", codesOf(missing), codesOf(extra)),
					Summary: fmt.Sprintf("trailing @ignore comments under //line directives (reversed parse order: %v): should be reported but are not %v; should be suppressed but are reported %v %s", rev, missing, extra, res.Panic),
					Detail:  map[string]any{"program": p.Text()}})
			}
		}
	}
}

func init() { Register("C07", C07) }

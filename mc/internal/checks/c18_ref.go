package checks

// C18 reference model: the statement, nothing else.
//
//   effective value of an option = the command-line flag if given (even with an empty value),
//   else the GOGREEMENT_* variable if set (even to the empty string), else the default
//   (scan-tests off, exclude-paths = [testdata], exclude-checks = []).
//   Lists: split on commas, items trimmed, empty items dropped, check codes upper-cased.
//   Boolean variable: true exactly for true/1/yes/on in any case, surrounding blanks allowed,
//   and for Go's other ParseBool spellings (t, T, TRUE, True); false for everything else.
//
// Nothing in this file calls into the repository.

import (
	"fmt"
	"sort"
	"strconv"
	"strings"
	"unicode"
)

const (
	c18Scan = iota
	c18Paths
	c18Checks
	c18NOpt
)

var c18OptName = [c18NOpt]string{"scan-tests", "exclude-paths", "exclude-checks"}
var c18EnvName = [c18NOpt]string{"GOGREEMENT_SCAN_TESTS", "GOGREEMENT_EXCLUDE_PATHS", "GOGREEMENT_EXCLUDE_CHECKS"}

// c18Src is one source of a value: absent, or present with a value (possibly empty). Bare is
// only meaningful for the boolean flag: `-config.scan-tests` without "=value".
type c18Src struct {
	Set  bool
	Val  string
	Bare bool
}

func (s c18Src) class() string {
	switch {
	case !s.Set:
		return "absent"
	case s.Bare:
		return "bare"
	case s.Val == "":
		return "empty"
	}
	return "value"
}

func (s c18Src) String() string {
	switch {
	case !s.Set:
		return "<absent>"
	case s.Bare:
		return "<bare>"
	}
	return "=" + strconv.Quote(s.Val)
}

type c18Opt struct {
	Flag c18Src
	Env  c18Src
}

// c18Eff is an effective configuration.
type c18Eff struct {
	Scan   bool
	Paths  []string
	Checks []string
}

func c18Default() c18Eff { return c18Eff{Scan: false, Paths: []string{"testdata"}, Checks: []string{}} }

func (e c18Eff) String() string {
	return "scan-tests=" + map[bool]string{false: "off", true: "on"}[e.Scan] +
		" exclude-paths=" + c18ListString(e.Paths) + " exclude-checks=" + c18ListString(e.Checks)
}

func c18ListString(l []string) string {
	q := make([]string, len(l))
	for i, s := range l {
		q[i] = strconv.Quote(s)
	}
	return "[" + strings.Join(q, ",") + "]"
}

func (e c18Eff) isDefault() bool { return e.String() == c18Default().String() }

const c18Blanks = " \t\n\r\v\f"

// c18RefList: split on commas, trim, drop empty items, upper-case when the list holds check codes.
func c18RefList(s string, upper bool) []string {
	out := []string{}
	for _, item := range strings.Split(s, ",") {
		item = strings.Trim(item, c18Blanks)
		if item == "" {
			continue
		}
		if upper {
			var b strings.Builder
			for _, r := range item {
				b.WriteRune(unicode.ToUpper(r))
			}
			item = b.String()
		}
		out = append(out, item)
	}
	return out
}

func c18AsciiLower(s string) string {
	b := []byte(s)
	for i, c := range b {
		if 'A' <= c && c <= 'Z' {
			b[i] = c + 'a' - 'A'
		}
	}
	return string(b)
}

// c18RefEnvBool is the value of the boolean environment variable. judged=false marks the one
// shape on which the statement can be read both ways: the single letter t/T (one of "Go's other
// ParseBool spellings") with blanks around it — the blanks clause is attached to true/1/yes/on.
func c18RefEnvBool(s string) (val bool, judged bool) {
	t := strings.Trim(s, c18Blanks)
	switch c18AsciiLower(t) {
	case "true", "1", "yes", "on":
		return true, true
	}
	switch s {
	case "t", "T", "TRUE", "True": // Go's other ParseBool spellings, exact
		return true, true
	}
	if t == "t" || t == "T" {
		return false, false
	}
	return false, true
}

// c18RefFlagBool is package flag's reading of a boolean flag value (strconv.ParseBool's table).
// valid=false: the flag package rejects the command line before GoGreement runs.
func c18RefFlagBool(s string) (val bool, valid bool) {
	switch s {
	case "1", "t", "T", "TRUE", "true", "True":
		return true, true
	case "0", "f", "F", "FALSE", "false", "False":
		return false, true
	}
	return false, false
}

// c18Resolve computes the effective configuration of a cell. judged=false: outside the
// statement (reason in why).
func c18Resolve(opt [c18NOpt]c18Opt) (eff c18Eff, judged bool, why string) {
	eff = c18Default()
	judged = true
	// scan-tests
	switch o := opt[c18Scan]; {
	case o.Flag.Set && o.Flag.Bare:
		eff.Scan = true
	case o.Flag.Set:
		v, ok := c18RefFlagBool(o.Flag.Val)
		if !ok {
			return eff, false, "flag-rejected"
		}
		eff.Scan = v
	case o.Env.Set:
		v, ok := c18RefEnvBool(o.Env.Val)
		if !ok {
			judged, why = false, "blank-padded-t"
		}
		eff.Scan = v
	}
	if o := opt[c18Paths]; o.Flag.Set {
		eff.Paths = c18RefList(o.Flag.Val, false)
	} else if o.Env.Set {
		eff.Paths = c18RefList(o.Env.Val, false)
	}
	if o := opt[c18Checks]; o.Flag.Set {
		eff.Checks = c18RefList(o.Flag.Val, true)
	} else if o.Env.Set {
		eff.Checks = c18RefList(o.Env.Val, true)
	}
	return
}

// c18Plant is one planted violation of the probe module.
type c18Plant struct {
	File   string // normalised: ex.com/m/<rel>
	Abs    string // absolute file name as the tool sees it
	Class  string // regular | test | gen | testdata
	Line   int
	Code   string
	IsTest bool
}

func c18Category(code string) string { return strings.TrimRight(code, "0123456789") }

// c18Expected: which planted violations appear under eff.
func c18Expected(eff c18Eff, plants []c18Plant) []string {
	var out []string
	for _, p := range plants {
		skip := false
		for _, e := range eff.Paths {
			if strings.Contains(p.Abs, e) {
				skip = true
			}
		}
		if p.IsTest && !eff.Scan {
			skip = true
		}
		for _, c := range eff.Checks {
			if c == "ALL" || c == c18Category(p.Code) || c == p.Code {
				skip = true
			}
		}
		if !skip {
			out = append(out, c18Key(p.File, p.Line, p.Code))
		}
	}
	sort.Strings(out)
	return out
}

func c18Key(file string, line int, code string) string { return fmt.Sprintf("%s:%d:%s", file, line, code) }

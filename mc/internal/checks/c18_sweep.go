package checks

// C18 part 2 — exhaustive bounded strings through the real parsing functions, in-process.
//
// For every string s up to the length bound, for every GOGREEMENT_* variable V (one at a time,
// the others unset) the following call shapes are executed and the resulting *config.Config is
// compared field by field with the reference resolver:
//
//   env            V=s;            config.FromEnv()
//   env/flagset    V=s;            CreateFlagSet, Parse(nil),             ParseFlagsFromFlagSet
//   flag-over-env  V=s;            CreateFlagSet, Parse(-opt=<fixed>),    ParseFlagsFromFlagSet
//   flag/env-fixed V=<fixed>;      CreateFlagSet, Parse(-opt=s),          ParseFlagsFromFlagSet
//   flag/env-unset V unset;        CreateFlagSet, Parse(-opt=s),          ParseFlagsFromFlagSet
//   flag-2arg      V=<fixed>;      CreateFlagSet, Parse(-opt, s),         ParseFlagsFromFlagSet   (lists only)
//
// The process environment is global, so the sweep is sequential. The FlagSet returned by
// CreateFlagSet is switched to ContinueOnError so that a value package flag rejects (boolean
// flag only) comes back as an error instead of os.Exit(2); those are counted, not judged.

import (
	"flag"
	"fmt"
	"io"
	"os"
	"strings"

	"github.com/a14e/gogreement/src/config"

	"verif/mc/internal/common"
)

func c18AllStrings(alphabet []string, maxLen int, f func(string)) {
	var rec func(prefix string, n int)
	rec = func(prefix string, n int) {
		f(prefix)
		if n == maxLen {
			return
		}
		for _, a := range alphabet {
			rec(prefix+a, n+1)
		}
	}
	rec("", 0)
}

func c18EffOf(c *config.Config) c18Eff {
	return c18Eff{Scan: c.ScanTests, Paths: c.ExcludePaths, Checks: c.ExcludeChecks}
}

// c18DiffKind names, per field, how the observed configuration differs from the reference (for signatures).
func c18DiffKind(want, got c18Eff) string {
	var k []string
	if want.Scan != got.Scan {
		k = append(k, fmt.Sprintf("scan-tests:want-%v", want.Scan))
	}
	list := func(name string, w, g []string) {
		if c18ListString(w) == c18ListString(g) {
			return
		}
		switch {
		case len(w) != len(g):
			k = append(k, name+":item-count")
		case strings.EqualFold(strings.Join(w, ","), strings.Join(g, ",")):
			k = append(k, name+":case")
		default:
			trim := func(l []string) string {
				var o []string
				for _, s := range l {
					o = append(o, strings.Trim(s, c18Blanks))
				}
				return strings.Join(o, ",")
			}
			if trim(w) == trim(g) {
				k = append(k, name+":blanks")
			} else {
				k = append(k, name+":items")
			}
		}
	}
	list("exclude-paths", want.Paths, got.Paths)
	list("exclude-checks", want.Checks, got.Checks)
	return strings.Join(k, "+")
}

func c18Sweep(run *common.Run, maxLen int) {
	clear := func() {
		for _, v := range c18EnvName {
			os.Unsetenv(v)
		}
		os.Unsetenv("GOGREEMENT_ENV_ONLY")
	}
	clear()
	defer clear()

	flagName := [c18NOpt]string{"scan-tests", "exclude-paths", "exclude-checks"}
	type shape struct {
		name string
		// given s and option i: environment value (set?), flag args, and the reference input
		mk func(i int, s string) (env c18Src, args []string, opt c18Opt, ok bool)
	}
	fixedFlag := func(i int, s string) string {
		if i == c18Scan { // the opposite of what the variable says, so that precedence is observable
			if v, _ := c18RefEnvBool(s); v {
				return "false"
			}
			return "true"
		}
		return " zz, ,Yy"
	}
	fixedEnv := func(i int, s string) string {
		if i == c18Scan {
			if v, valid := c18RefFlagBool(s); valid && v {
				return "off"
			}
			return "on"
		}
		return "ee,testdata"
	}
	shapes := []shape{
		{"env", func(i int, s string) (c18Src, []string, c18Opt, bool) {
			return c18Src{Set: true, Val: s}, nil, c18Opt{Env: c18Src{Set: true, Val: s}}, true
		}},
		{"env/flagset", func(i int, s string) (c18Src, []string, c18Opt, bool) {
			return c18Src{Set: true, Val: s}, []string{}, c18Opt{Env: c18Src{Set: true, Val: s}}, true
		}},
		{"flag-over-env", func(i int, s string) (c18Src, []string, c18Opt, bool) {
			f := fixedFlag(i, s)
			return c18Src{Set: true, Val: s}, []string{"-" + flagName[i] + "=" + f}, c18Opt{Flag: c18Src{Set: true, Val: f}, Env: c18Src{Set: true, Val: s}}, true
		}},
		{"flag/env-fixed", func(i int, s string) (c18Src, []string, c18Opt, bool) {
			e := fixedEnv(i, s)
			return c18Src{Set: true, Val: e}, []string{"-" + flagName[i] + "=" + s}, c18Opt{Flag: c18Src{Set: true, Val: s}, Env: c18Src{Set: true, Val: e}}, true
		}},
		{"flag/env-unset", func(i int, s string) (c18Src, []string, c18Opt, bool) {
			return c18Src{}, []string{"-" + flagName[i] + "=" + s}, c18Opt{Flag: c18Src{Set: true, Val: s}}, true
		}},
		{"flag-2arg", func(i int, s string) (c18Src, []string, c18Opt, bool) {
			if i == c18Scan {
				return c18Src{}, nil, c18Opt{}, false // a boolean flag takes no separate argument
			}
			e := fixedEnv(i, s)
			return c18Src{Set: true, Val: e}, []string{"-" + flagName[i], s}, c18Opt{Flag: c18Src{Set: true, Val: s}, Env: c18Src{Set: true, Val: e}}, true
		}},
	}

	// call executes one shape on the real code; panics are recovered and reported.
	call := func(useFromEnv bool, args []string) (cfg *config.Config, parseErr error, panicked any) {
		defer func() {
			if r := recover(); r != nil {
				panicked = r
			}
		}()
		if useFromEnv {
			return config.FromEnv(), nil, nil
		}
		fs := config.CreateFlagSet()
		fs.Init("gogreement", flag.ContinueOnError)
		fs.SetOutput(io.Discard)
		if err := fs.Parse(args); err != nil {
			return nil, err, nil
		}
		if fs.NArg() != 0 {
			return nil, fmt.Errorf("left-over arguments %q", fs.Args()), nil
		}
		return config.ParseFlagsFromFlagSet(fs), nil, nil
	}

	nStrings := 0
	one := func(i int, s string) {
		for _, sh := range shapes {
			env, args, o, ok := sh.mk(i, s)
			if !ok {
				continue
			}
			var opt [c18NOpt]c18Opt
			opt[i] = o
			want, judged, why := c18Resolve(opt)
			if env.Set {
				os.Setenv(c18EnvName[i], env.Val)
			} else {
				os.Unsetenv(c18EnvName[i])
			}
			cfg, perr, pan := call(sh.name == "env", args)
			os.Unsetenv(c18EnvName[i])
			where := fmt.Sprintf("%s%s, arguments %q, call shape %s", c18EnvName[i], env, args, sh.name)
			if pan != nil {
				run.Report(common.Cex{Sig: fmt.Sprintf("parse-panic|var=%s|api=%s", c18OptName[i], sh.name),
					Summary: fmt.Sprintf("panic in the configuration code with %s: %v", where, pan)})
				run.State(1, "panic", "")
				continue
			}
			if why == "flag-rejected" {
				run.Count("sweep_not_judged_flag_rejected", 1)
				if perr == nil {
					run.Count("sweep_flag_value_accepted_although_reference_rejects", 1)
				}
				run.State(1, "rejected by package flag", "")
				continue
			}
			if perr != nil {
				run.Report(common.Cex{Sig: fmt.Sprintf("parse-error|var=%s|api=%s", c18OptName[i], sh.name),
					Summary: fmt.Sprintf("the flag set rejects a valid command line with %s: %v", where, perr)})
				run.State(1, "error", "")
				continue
			}
			if cfg == nil {
				run.Report(common.Cex{Sig: fmt.Sprintf("parse-nil|var=%s|api=%s", c18OptName[i], sh.name), Summary: "nil configuration with " + where})
				run.State(1, "nil", "")
				continue
			}
			got := c18EffOf(cfg)
			nt := ""
			if !want.isDefault() {
				nt = fmt.Sprintf("sweep|%d|%s|%q", i, sh.name, s)
			}
			run.State(1, got.String(), nt)
			if !judged {
				run.Count("sweep_not_judged_"+why, 1)
				continue
			}
			if got.String() != want.String() {
				run.Report(common.Cex{Sig: fmt.Sprintf("parse|var=%s|api=%s|%s", c18OptName[i], sh.name, c18DiffKind(want, got)),
					Summary: fmt.Sprintf("with %s the configuration is {%s}, by the statement it is {%s}", where, got, want),
					Detail:  map[string]any{"variable": c18EnvName[i], "string": s, "env": env.String(), "args": args, "shape": sh.name, "got": got.String(), "want": want.String()}})
			}
		}
	}
	main := []string{"a", "A", "1", ",", " ", "\t", "t", "ÿ", "="} // '=' : the separator of the process environment itself
	c18AllStrings(main, maxLen, func(s string) {
		nStrings++
		for i := 0; i < c18NOpt; i++ {
			one(i, s)
		}
	})
	// path-like list items: kept as written (a path cleaner would rewrite every one of them)
	for _, w := range []string{"mock/", "./store", "a//b", "a/./b", "a/b/..", "/", ".", "./", "a/,./b , c/../d", "..", "vendor/,",
		// enclosing quotes (what an env file that is not read by a shell leaves in place) are ordinary characters
		`"a"`, `'a'`, `"a,A"`, `'a', 'A'`, ` "1" `, `"true"`, `'yes'`, "`on`", `""`, `"`, `"a`, `a"`} {
		nStrings++
		for i := 0; i < c18NOpt; i++ {
			one(i, w)
		}
	}
	// second alphabet for the boolean: reaches yes/on/On/no/0 with blanks and near misses
	c18AllStrings([]string{"y", "e", "s", "o", "n", "N", " ", "0"}, maxLen, func(s string) {
		nStrings++
		one(c18Scan, s)
	})
	// the listed spellings themselves, with every blank padding up to one on each side
	for _, w := range []string{"true", "1", "yes", "on", "TRUE", "On", "t", "T", "True", "tRUE", "false", "0", "no", "off", "f", "F", "FALSE", "False", "2", "tru", "garbage", "yess", "onn", "truee"} {
		for _, l := range []string{"", " ", "\t"} {
			for _, r := range []string{"", " ", "\t"} {
				nStrings++
				one(c18Scan, l+w+r)
			}
		}
	}
	run.Count("sweep_strings", nStrings)
}

package checks

import (
	"fmt"

	"verif/mc/internal/common"
	"verif/mc/internal/e1"
)

// walkCheck is the shared body of C01 (IMM) and C02 (CTOR): explicit-state search over
// declaration histories with a stateless per-site reference.
func walkCheck(id string, fam *e1.Family, tier common.Tier) int {
	run := common.NewRun(id, tier, "model_checking")
	depth, maxDev, full := 2, -1, false
	files := []int{0, 1, 2}
	if tier == "thorough" {
		depth, maxDev, full = 3, 3, true
	}
	run.SetRule(
		"state = history of top-level declarations (encloser kind x file) appended to the annotated prelude, in package d or in importing package u, "+
			"x annotation mix; each state is rendered to Go source and analysed by the real analyzers via checker.Analyze; every candidate line is compared "+
			"with a stateless reference. A state is non-trivial when the reference expects at least one diagnostic or one annotation-based exemption in it; distinct = distinct (package, mix, history).",
		fmt.Sprintf("all histories of depth<=2 over %d encloser kinds x %d files with %d annotation mixes, 2 packages; thorough adds depth %d under a deviation bound of %d with the 12 corner mixes; plus every (encloser, %d wrappers, site) alone at depth 1",
			len(e1.EnclNames), len(files), len(e1.Mixes(full)), depth, maxDev, int(e1.NumWrappers())))
	run.Assume("go/parser, go/types and x/tools checker.Analyze are trusted", "generated programs are in the supported fragment: non-generic defined types, direct imports, one candidate statement per line")
	run.NotJudged("methods (as opposed to functions) named like a constructor", "closure parameter shadowing the receiver name inside a method of the annotated type",
		"compound/incdec on an element of a field (x.f[i] += 1, x.f[i]++)", "*r += 1 on the receiver", "range-clause assignment", "writes through promoted fields of an embedded immutable struct",
		"array-typed composite literals and variables ([2]T{}, var a [2]T)", "new(*T)")

	common.Sharded(run, common.NumWorkers(), func(run *common.Run, sh common.Shard) {
		sites := fam.Sites()
		idx := 0
		// Phase A: every (encloser, wrapper, site) alone.
		for _, inU := range []bool{false, true} {
			for _, mix := range []e1.Mix{{Imm: true, Ctor: 1, Mut: true}, {Imm: true, Ctor: 2, Mut: false, PreludeLast: true}} {
				for _, b := range e1.Alphabet(fam, inU, []int{0}) {
					if b.Encl == e1.EFillerType || b.Encl == e1.EFillerVar || b.File == 3 {
						continue
					}
					for wr := e1.WNone; wr < e1.NumWrappers(); wr++ {
						if (b.Encl == e1.EPkgVarDirect || b.Encl == e1.EPkgVarDirectRev) && wr != e1.WNone {
							continue
						}
						for si := range sites {
							if (b.Encl == e1.EPkgVarDirect || b.Encl == e1.EPkgVarDirectRev) && sites[si].PkgLevel == "" && len(sites[si].PkgLines) == 0 {
								continue
							}
							idx++
							if !sh.Mine(idx) {
								continue
							}
							spec := &e1.Spec{InU: inU, Mix: mix, Blocks: []e1.Block{b}, Sites: sites, Single: &e1.Single{Site: si, Wrap: wr}}
							e1.CheckSpec(run, fam, spec)
							if idx%4001 == 1 {
								run.Sample(map[string]any{"phase": "single", "pkg": inU, "mix": mix.String(), "block": b.String(), "wrapper": wr.String(), "site": sites[si].Tag})
							}
						}
					}
				}
			}
		}
		// Phase B: histories with full bodies.
		type plan struct {
			depth, maxDev int
			full          bool
		}
		plans := []plan{{2, -1, false}}
		if tier == "thorough" {
			// every mix at depth 2, and depth 3 under the deviation bound with the corner mixes
			plans = []plan{{2, -1, true}, {3, 3, false}}
		}
		for pi, pl := range plans {
			for _, inU := range []bool{false, true} {
				alpha := e1.Alphabet(fam, inU, files)
				for mi, mix := range e1.Mixes(pl.full) {
					e1.Histories(alpha, pl.depth, pl.maxDev, func(_ int, h []e1.Block) {
						if pi > 0 && len(h) < 3 {
							return // depth <= 2 is covered by the first plan
						}
						idx++
						if !sh.Mine(idx) {
							return
						}
						spec := &e1.Spec{InU: inU, Mix: mix, Blocks: h, Sites: sites}
						e1.CheckSpec(run, fam, spec)
						// the loader's other choice: the files of the package parsed in the opposite order, so that a later
						// file holds the LOWER positions (histories spread over several files; quick tier: the mixes with @immutable and one listed constructor)
						_ = mi
						if multiFile(h) && (tier == "thorough" || (mix.Imm && mix.Ctor == 1 && mix.Extra == 0 && !mix.PreludeLast)) {
							rs := *spec
							rs.ReverseParse = true
							e1.CheckSpec(run, fam, &rs)
						}
						if idx%9973 == 1 {
							var hs []string
							for _, b := range h {
								hs = append(hs, b.String())
							}
							run.Sample(map[string]any{"phase": "history", "pkg_u": inU, "mix": mix.String(), "history": hs})
						}
					})
				}
			}
		}
	})
	return run.Finish()
}

func multiFile(h []e1.Block) bool {
	for _, b := range h[1:] {
		if b.File != h[0].File {
			return true
		}
	}
	return false
}

func C01(tier common.Tier) int { return walkCheck("C01", &e1.FamIMM, tier) }
func C02(tier common.Tier) int { return walkCheck("C02", &e1.FamCTOR, tier) }

func init() {
	Register("C01", C01)
	Register("C02", C02)
}

package checks

// C05 reference (Go's own type checker) and comparison with the real implementschecker.

import (
	"fmt"
	"go/ast"
	"go/types"
	"regexp"
	"sort"
	"strings"

	"golang.org/x/tools/go/packages"

	"verif/mc/internal/common"
	"verif/mc/internal/prog"
)

// c05Verdict is what one @implements line is expected / observed to produce.
type c05Verdict struct {
	Code    string   // "", IMPL01, IMPL02, IMPL03
	Key     string   // IMPL01: the qualifier; IMPL02/03: the interface as displayed
	Missing []string // IMPL03 only, sorted
}

func (v c05Verdict) Short() string {
	if v.Code == "" {
		return "none"
	}
	if v.Code == "IMPL03" {
		return "IMPL03[" + strings.Join(v.Missing, ",") + "]"
	}
	return v.Code
}

func (v c05Verdict) full() string { return v.Code + "|" + v.Key + "|" + strings.Join(v.Missing, ",") }

type c05TypeSite struct {
	file *ast.File
	spec *ast.TypeSpec
}

func c05Index(pp *packages.Package) map[string]c05TypeSite {
	out := map[string]c05TypeSite{}
	for _, f := range pp.Syntax {
		for _, d := range f.Decls {
			gd, ok := d.(*ast.GenDecl)
			if !ok {
				continue
			}
			for _, s := range gd.Specs {
				if ts, ok := s.(*ast.TypeSpec); ok {
					out[ts.Name.Name] = c05TypeSite{f, ts}
				}
			}
		}
	}
	return out
}

// c05Expect evaluates one annotation on type tname exactly as the property states it, with
// go/types as the only authority:
//
//	IMPL01 iff the qualifier is not a name under which an import declaration of the file brings
//	a package in: the explicit alias when there is one other than "_" / ".", else the imported
//	package's declared name (types.Package.Name()). Blank and dot imports therefore count under
//	the declared name — the statement says "under its explicit alias or the imported package's
//	declared name", and `import _ "io"` is the documented way to make io.Reader referable;
//	otherwise IMPL02 iff the resolved package's scope has no interface-typed TypeName of that name;
//	otherwise IMPL03 iff V (T, or *T with &) does not implement I, the listed methods being those
//	of I that the method set of V lacks or has with a non-identical type.
func c05Expect(pp *packages.Package, site c05TypeSite, tname string, an c05Ann, iname string) c05Verdict {
	target := pp.Types
	if an.Qual != "" {
		target = nil
		for _, spec := range site.file.Imports {
			imported := c05Imported(pp, spec)
			name := imported.Name()
			if spec.Name != nil && spec.Name.Name != "_" && spec.Name.Name != "." {
				name = spec.Name.Name
			}
			if name == an.Qual {
				target = imported
				break
			}
		}
		if target == nil {
			return c05Verdict{Code: "IMPL01", Key: an.Qual}
		}
		// cross-check with Go's own binding for ordinary and renamed imports
		if pn, ok := pp.TypesInfo.Scopes[site.file].Lookup(an.Qual).(*types.PkgName); ok && pn.Imported() != target {
			common.Fatalf("C05 reference: %q is bound to %s by go/types but to %s by the import list", an.Qual, pn.Imported().Path(), target.Path())
		}
	}
	disp := iname
	if an.Qual != "" {
		disp = an.Qual + "." + iname
	}
	tn, ok := target.Scope().Lookup(iname).(*types.TypeName)
	if !ok || !types.IsInterface(tn.Type()) {
		return c05Verdict{Code: "IMPL02", Key: disp}
	}
	iface := tn.Type().Underlying().(*types.Interface)
	tobj, ok := pp.Types.Scope().Lookup(tname).(*types.TypeName)
	if !ok {
		common.Fatalf("C05 reference: annotated type %s not found", tname)
	}
	var V types.Type = tobj.Type()
	if an.Amp {
		V = types.NewPointer(V)
	}
	ms := types.NewMethodSet(V)
	var missing []string
	for i := 0; i < iface.NumMethods(); i++ {
		m := iface.Method(i)
		sel := ms.Lookup(m.Pkg(), m.Name())
		if sel == nil || !types.Identical(sel.Obj().Type(), m.Type()) {
			missing = append(missing, m.Name())
		}
	}
	sort.Strings(missing)
	impl := types.Implements(V, iface)
	mm, _ := types.MissingMethod(V, iface, true)
	if impl != (mm == nil) || impl != (len(missing) == 0) {
		common.Fatalf("C05 reference incoherent for %s / %s: Implements=%v MissingMethod=%v missing=%v", tname, disp, impl, mm, missing)
	}
	if impl {
		return c05Verdict{}
	}
	return c05Verdict{Code: "IMPL03", Key: disp, Missing: missing}
}

// c05Imported returns the package an import spec denotes, as go/types resolved it.
func c05Imported(pp *packages.Package, spec *ast.ImportSpec) *types.Package {
	var obj types.Object
	if spec.Name != nil {
		obj = pp.TypesInfo.Defs[spec.Name]
	} else {
		obj = pp.TypesInfo.Implicits[spec]
	}
	if pn, ok := obj.(*types.PkgName); ok {
		return pn.Imported()
	}
	path := strings.Trim(spec.Path.Value, `"`)
	for _, ip := range pp.Types.Imports() {
		if ip.Path() == path {
			return ip
		}
	}
	common.Fatalf("C05 reference: import %s not resolved", spec.Path.Value)
	return nil
}

var (
	c05Re01  = regexp.MustCompile(`^error: \[IMPL01\] package "([^"]*)" referenced in @implements annotation on type "([^"]*)" is not imported`)
	c05Re02  = regexp.MustCompile(`^error: \[IMPL02\] interface "([^"]*)" not found for type "([^"]*)"`)
	c05Re03  = regexp.MustCompile(`^error: \[IMPL03\] type "([^"]*)" does not implement interface "([^"]*)"`)
	c05ReMth = regexp.MustCompile(`^  ([A-Za-z_][A-Za-z0-9_]*)\(`)
)

// c05ParseDiag turns a diagnostic of the implementschecker into a verdict + the type it names.
func c05ParseDiag(d prog.Diag) (c05Verdict, string, bool) {
	lines := strings.Split(d.Message, "\n")
	if m := c05Re01.FindStringSubmatch(lines[0]); m != nil {
		return c05Verdict{Code: "IMPL01", Key: m[1]}, m[2], true
	}
	if m := c05Re02.FindStringSubmatch(lines[0]); m != nil {
		return c05Verdict{Code: "IMPL02", Key: m[1]}, m[2], true
	}
	if m := c05Re03.FindStringSubmatch(lines[0]); m != nil {
		v := c05Verdict{Code: "IMPL03", Key: m[2]}
		if len(lines) < 2 || lines[1] != "missing methods:" {
			return v, m[1], false
		}
		for _, l := range lines[2:] {
			mm := c05ReMth.FindStringSubmatch(l)
			if mm == nil {
				break
			}
			v.Missing = append(v.Missing, mm[1])
		}
		sort.Strings(v.Missing)
		return v, m[1], true
	}
	return c05Verdict{}, "", false
}

// c05Outcome is the comparison result for one case.
type c05Outcome struct {
	Want, Got []c05Verdict // per annotation (Got aligned when keys are unambiguous)
	Agree     bool
	Extra     []string // diagnostics on the type's line that belong to no annotation
}

// c05Judge compares expected and observed verdicts for case i of a rendered batch.
func c05Judge(c *c05Case, i int, rd *c05Rendered, pp *packages.Package, index map[string]c05TypeSite, diags []prog.Diag) c05Outcome {
	tname := rd.Names[i]
	site, ok := index[tname]
	if !ok {
		common.Fatalf("C05: type %s not in rendered program", tname)
	}
	var o c05Outcome
	for _, an := range c.Anns {
		o.Want = append(o.Want, c05Expect(pp, site, tname, c05Ann{Amp: an.Amp, Qual: an.Qual}, c05Subst(an.Name, i)))
	}
	var obs []c05Verdict
	for _, d := range diags {
		v, onType, ok := c05ParseDiag(d)
		if !ok {
			o.Extra = append(o.Extra, "unparsable:"+c05FirstLine(d.Message))
			continue
		}
		if onType != tname {
			o.Extra = append(o.Extra, "names-other-type:"+d.Code)
			continue
		}
		obs = append(obs, v)
	}
	// align observed verdicts with annotations: an annotation's key is its qualifier (IMPL01) or
	// its display name (IMPL02/03)
	used := make([]bool, len(obs))
	o.Got = make([]c05Verdict, len(c.Anns))
	done := make([]bool, len(c.Anns))
	fits := func(an c05Ann, v c05Verdict) bool {
		if v.Code == "IMPL01" {
			return an.Qual != "" && v.Key == an.Qual
		}
		return v.Key == c05Subst(an.Display(), i)
	}
	for pass := 0; pass < 2; pass++ { // pass 0: exact expected verdicts first, pass 1: by key
		for k, an := range c.Anns {
			if done[k] {
				continue
			}
			for j, v := range obs {
				if used[j] || !fits(an, v) || (pass == 0 && v.full() != o.Want[k].full()) {
					continue
				}
				used[j], done[k] = true, true
				o.Got[k] = v
				break
			}
		}
	}
	for j, v := range obs {
		if !used[j] {
			o.Extra = append(o.Extra, "unattributed:"+v.Short())
		}
	}
	o.Agree = len(o.Extra) == 0
	for k := range c.Anns {
		if o.Want[k].full() != o.Got[k].full() {
			// the observed key contains the generated index; compare on code + missing only when keys match
			o.Agree = false
		}
	}
	if o.Agree {
		return o
	}
	// when the same key occurs on several annotations of one type (I and &I) the greedy
	// alignment may mismatch although the multisets agree
	if len(o.Extra) == 0 {
		var w, g []string
		for k := range c.Anns {
			if o.Want[k].Code != "" {
				w = append(w, o.Want[k].full())
			}
			if o.Got[k].Code != "" {
				g = append(g, o.Got[k].full())
			}
		}
		sort.Strings(w)
		sort.Strings(g)
		if strings.Join(w, ";") == strings.Join(g, ";") {
			o.Agree = true
			copy(o.Got, o.Want)
		}
	}
	return o
}

func c05FirstLine(s string) string {
	if i := strings.IndexByte(s, '\n'); i >= 0 {
		return s[:i]
	}
	return s
}

// c05Sig builds the structural signature of a disagreement.
func c05Sig(c *c05Case, o c05Outcome) string {
	var got, want []string
	for k := range c.Anns {
		got = append(got, o.Got[k].Short())
		want = append(want, o.Want[k].Short())
	}
	s := fmt.Sprintf("impl|fam=%s|cause=%s|%s|got=%s|want=%s", c.Fam, c.Cause, c.Coord, strings.Join(got, ";"), strings.Join(want, ";"))
	if len(o.Extra) > 0 {
		ex := append([]string(nil), o.Extra...)
		sort.Strings(ex)
		s += "|extra=" + strings.Join(ex, ";")
	}
	return s
}

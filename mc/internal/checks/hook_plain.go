//go:build !verif

package checks

import "verif/mc/internal/common"

func resetConfig() {
	common.Fatalf("this check needs the hook build (go build -tags verif with the overlay): run it through check.sh")
}

const hookBuild = false

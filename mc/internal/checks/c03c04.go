package checks

import (
	"fmt"

	"verif/mc/internal/common"
	"verif/mc/internal/e1"
)

// seqs enumerates all sequences over idx of length 1..n.
func seqs(idx []int, n int, f func([]int)) {
	var rec func(cur []int)
	rec = func(cur []int) {
		if len(cur) > 0 {
			f(cur)
		}
		if len(cur) == n {
			return
		}
		for _, i := range idx {
			rec(append(append([]int(nil), cur...), i))
		}
	}
	rec(nil)
}

func useCheck(id, fam string, tier common.Tier) int {
	run := common.NewRun(id, tier, "model_checking")
	sites := e1.UseSites()
	var all, core []int
	for i, s := range sites {
		if fam == "TONL" && !s.TONL {
			continue
		}
		all = append(all, i)
		if s.Core {
			core = append(core, i)
		}
	}
	thorough := tier == "thorough"
	var pkgs []e1.UsePkg
	var mixes []e1.UseMix
	if fam == "TONL" {
		pkgs = []e1.UsePkg{e1.UPkgD, e1.UPkgU}
		mixes = []e1.UseMix{{TestOnly: true}, {TestOnly: false}, {TestOnly: true, Allow: 4, AnnOrder: 1}}
	} else {
		pkgs = []e1.UsePkg{e1.UPkgU, e1.UPkgXU, e1.UPkgW, e1.UPkgVV, e1.UPkgD, e1.UPkgXD}
		for a := range e1.AllowShapes {
			mixes = append(mixes, e1.UseMix{Allow: a})
		}
		mixes = append(mixes, e1.UseMix{Allow: 4, TestOnly: true}, e1.UseMix{Allow: 6, TestOnly: true, AnnOrder: 1})
	}
	lenAll, lenCore, depthB := 2, 3, 2
	if thorough {
		lenAll, lenCore, depthB = 3, 4, 3
	}
	run.SetRule("state = (using package, annotation mix, history of declarations, each with a statement sequence); every state is rendered and analysed by the real analyzers via checker.Analyze and every candidate line compared with a reference that applies the once-per-file-and-type rule in textual order. Non-trivial = the reference expects at least one diagnostic.",
		fmt.Sprintf("annotation subsets: all 32 subsets of the five annotated items x 4 declaration orders of the declaring package; single declaration: all statement sequences of length<=%d over %d sites (quick tier: pairs with at least one core statement) and length<=%d over %d core sites x %d enclosers x files {regular,_test}; histories of <=%d declarations (body with one core statement, or a declaration-level site) x 3 files; %d packages x %d mixes",
			lenAll, len(all), lenCore, len(core), 8, depthB, len(pkgs), len(mixes)))
	run.Assume("go/parser, go/types, checker.Analyze trusted")
	run.NotJudged("receiver of a method declared on a @testonly type", "@testonly types in the signature of a @testonly function",
		"for @testonly: function/method values, conversions, type assertions, new(T), []T variables (the statement lists call / literal / typed variable / field / parameter / result)",
		"two annotated types with the same name in different packages used in one file")

	common.Sharded(run, common.NumWorkers(), func(run *common.Run, sh common.Shard) {
		idx := 0
		do := func(spec *e1.UseSpec) {
			idx++
			if !sh.Mine(idx) {
				return
			}
			e1.CheckUseSpec(run, fam, spec)
			if idx%20011 == 1 {
				run.Sample(e1.UseSpecString(spec))
			}
		}
		bodyEncls := []e1.UseEncl{}
		for encl := e1.UEPlain; encl < e1.UseEncl(len(e1.UseEnclNames)); encl++ {
			if encl.HasBody() {
				bodyEncls = append(bodyEncls, encl)
			}
		}
		for _, pk := range pkgs {
			for _, mix := range mixes {
				// "rich" (package, mix) combinations get the deep exploration; the others the shallow one.
				rich := false
				if fam == "TONL" {
					rich = mix.TestOnly && mix.Allow == 0
				} else {
					rich = (mix.Allow == 1 || mix.Allow == 5) && !mix.TestOnly && (pk.Path == e1.UPkgU.Path || pk.Path == e1.UPkgW.Path)
				}
				// Phase A: one declaration, statement sequences.
				for _, encl := range bodyEncls {
					for _, file := range []int{0, 2} {
						if file == 2 && encl != e1.UEPlain {
							continue
						}
						// sequence length over the whole alphabet
						n := 1
						switch {
						case rich && encl == e1.UEPlain:
							n = lenAll
						case rich && thorough, thorough && encl == e1.UEPlain, fam == "TONL" && encl == e1.UETestOnlyFunc:
							n = 2
						}
						isCore := map[int]bool{}
						for _, c := range core {
							isCore[c] = true
						}
						seqs(all, n, func(st []int) {
							if !thorough && len(st) == 2 && !isCore[st[0]] && !isCore[st[1]] {
								return // quick tier: pairs with at least one core statement (the thorough tier has all pairs)
							}
							do(&e1.UseSpec{Pkg: pk, Mix: mix, Sites: sites, Blocks: []e1.UseBlock{{Encl: encl, File: file, Stmts: st}}})
						})
						// longer sequences over the core alphabet
						if rich && (encl == e1.UEPlain || encl == e1.UEPkgVar) && file == 0 {
							seqs(core, lenCore, func(st []int) {
								if len(st) <= n {
									return // already covered
								}
								do(&e1.UseSpec{Pkg: pk, Mix: mix, Sites: sites, Blocks: []e1.UseBlock{{Encl: encl, File: file, Stmts: st}}})
							})
						}
					}
				}
				if !rich {
					continue
				}
				// Phase E: the loader's other choice — the package's files parsed in the opposite order (later files get the
				// LOWER positions): every declaration kind in every pair of files.
				for encl := e1.UEPlain; encl < e1.UseEncl(len(e1.UseEnclNames)); encl++ {
					for _, fa := range []int{0, 1} {
						b1 := e1.UseBlock{Encl: encl, File: fa}
						b2 := e1.UseBlock{Encl: e1.UEPlain, File: 1 - fa, Stmts: core}
						if encl.HasBody() {
							b1.Stmts = core
							b2 = e1.UseBlock{Encl: e1.UEPkgVar, File: 1 - fa, Stmts: core}
						}
						h := []e1.UseBlock{b1, b2, {Encl: e1.UENoImport}}
						if e1.ValidUseHistory(h) {
							do(&e1.UseSpec{Pkg: pk, Mix: mix, Sites: sites, Blocks: h, ReverseParse: true})
						}
					}
				}
				// Phase D: the import spelled with another name or as a dot import (importing packages only).
				if pk.Path != e1.PathD {
					for _, sp := range []e1.Spell{e1.SpRenamedImp, e1.SpDotImport, e1.SpLocalAlias, e1.SpThirdAlias} {
						do(&e1.UseSpec{Pkg: pk, Mix: mix, Spell: sp, Sites: sites, Blocks: []e1.UseBlock{{Encl: e1.UEPlain, Stmts: all}, {Encl: e1.UEStructField, File: 1}, {Encl: e1.UEPkgVar, File: 1, Stmts: core}, {Encl: e1.UENoImport}}})
						// the uses in another file than the one that holds the package's alias declarations
						do(&e1.UseSpec{Pkg: pk, Mix: mix, Spell: sp, Sites: sites, Blocks: []e1.UseBlock{{Encl: e1.UEPlain, File: 1, Stmts: all}, {Encl: e1.UEPkgVarTyped, File: 1}}})
						do(&e1.UseSpec{Pkg: pk, Mix: mix, Spell: sp, Sites: sites, Blocks: []e1.UseBlock{{Encl: e1.UEParamMock, File: 1}, {Encl: e1.UEPlain, File: 1, Stmts: core}}})
						for _, encl := range bodyEncls {
							for _, st := range all {
								do(&e1.UseSpec{Pkg: pk, Mix: mix, Spell: sp, Sites: sites, Blocks: []e1.UseBlock{{Encl: encl, Stmts: []int{st}}}})
							}
						}
						for encl := e1.UEPlain; encl < e1.UseEncl(len(e1.UseEnclNames)); encl++ {
							if !encl.HasBody() {
								do(&e1.UseSpec{Pkg: pk, Mix: mix, Spell: sp, Sites: sites, Blocks: []e1.UseBlock{{Encl: encl}, {Encl: encl, File: 1}}})
							}
						}
					}
				}
				// Phase C: which items carry the annotation (all 32 subsets) x order of the declarations in d.
				for skip := 0; skip < 32; skip++ {
					for order := 0; order < 4; order++ {
						if skip == 0 && order == 0 {
							continue
						}
						m := mix
						m.Skip, m.DeclOrder = skip, order
						do(&e1.UseSpec{Pkg: pk, Mix: m, Sites: sites, Blocks: []e1.UseBlock{{Encl: e1.UEPlain, Stmts: all}, {Encl: e1.UEStructField, File: 1}, {Encl: e1.UEPkgVar, File: 1, Stmts: core}}})
						if thorough || order == 0 || skip == 3 || skip == 28 {
							for _, st := range all {
								do(&e1.UseSpec{Pkg: pk, Mix: m, Sites: sites, Blocks: []e1.UseBlock{{Encl: e1.UEPlain, Stmts: []int{st}}}})
							}
						}
					}
				}
				// Phase B: histories of declarations (depth 2 over the full declaration alphabet).
				var alpha, small []e1.UseBlock
				// quick tier: the declaration histories carry every second core statement (the alphabet enters squared)
				histCore := core
				if !thorough {
					histCore = nil
					for ci, c := range core {
						if ci%2 == 0 {
							histCore = append(histCore, c)
						}
					}
				}
				for encl := e1.UEPlain; encl < e1.UseEncl(len(e1.UseEnclNames)); encl++ {
					for file := 0; file < 3; file++ {
						if encl.HasBody() {
							for ci, c := range histCore {
								b := e1.UseBlock{Encl: encl, File: file, Stmts: []int{c}}
								alpha = append(alpha, b)
								if file < 2 && ci < 4 && (encl == e1.UEPlain || encl == e1.UETestOnlyFunc || encl == e1.UEPkgVar) {
									small = append(small, b)
								}
							}
						} else {
							b := e1.UseBlock{Encl: encl, File: file}
							alpha = append(alpha, b)
							if file < 2 {
								small = append(small, b)
							}
						}
					}
				}
				for _, a := range alpha {
					for _, b := range alpha {
						h := []e1.UseBlock{a, b}
						if e1.ValidUseHistory(h) {
							do(&e1.UseSpec{Pkg: pk, Mix: mix, Sites: sites, Blocks: h})
						}
					}
				}
				if depthB == 3 {
					// depth 3 over the reduced declaration alphabet (regular files, three body enclosers, four core statements)
					for _, a := range small {
						for _, b := range small {
							for _, c := range small {
								h := []e1.UseBlock{a, b, c}
								if e1.ValidUseHistory(h) {
									do(&e1.UseSpec{Pkg: pk, Mix: mix, Sites: sites, Blocks: h})
								}
							}
						}
					}
				}
			}
		}
	})
	return run.Finish()
}

func C03(tier common.Tier) int { return useCheck("C03", "TONL", tier) }
func C04(tier common.Tier) int { return useCheck("C04", "PKGO", tier) }

func init() {
	Register("C03", C03)
	Register("C04", C04)
}

package checks

import (
	"fmt"
	"os"
	"path/filepath"
	"regexp"
	"sort"
	"strings"
	"sync"

	"verif/mc/internal/common"
	"verif/mc/internal/drv"
	"verif/mc/internal/e1"
	"verif/mc/internal/e4"
	"verif/mc/internal/prog"
)

var analyzerOf = map[string]string{"IMM": "immutabilitychecker", "CTOR": "constructorchecker", "TONL": "testonlychecker",
	"PKGO": "packageonlychecker", "IMPL": "implementschecker"}
var docWord = map[string]string{"IMM": "immutable", "CTOR": "constructor", "TONL": "testonly", "PKGO": "packageonly", "IMPL": "implements"}

var bracketRe = regexp.MustCompile(`\[([A-Za-z]+[0-9]*)\]`)

// docURLs derives the expected documentation page of every category from the book's sources.
func docURLs() map[string]string {
	repo := os.Getenv("VERIF_REPO")
	if repo == "" {
		repo = "/repo"
	}
	out := map[string]string{}
	ents, err := os.ReadDir(filepath.Join(repo, "book/gogreement-docs/src"))
	if err != nil {
		common.Fatalf("book sources: %v", err)
	}
	for cat, w := range docWord {
		for _, e := range ents {
			n := e.Name()
			if strings.HasSuffix(n, "_"+w+".md") {
				out[cat] = "https://a14e.github.io/gogreement/" + strings.TrimSuffix(n, ".md") + ".html"
			}
		}
	}
	return out
}

// wellFormed checks one diagnostic against the format rules; returns problem descriptions.
func wellFormed(d prog.Diag, urls map[string]string, pkgFiles map[string]bool, needURL bool) []string {
	var probs []string
	first := d.Message
	if i := strings.IndexByte(first, '\n'); i >= 0 {
		first = first[:i]
	}
	codes := map[string]bool{}
	for _, m := range bracketRe.FindAllStringSubmatch(first, -1) {
		if _, ok := allCodes[categoryOf(m[1])]; ok {
			codes[m[1]] = true
		}
	}
	if len(codes) != 1 {
		probs = append(probs, fmt.Sprintf("codes-in-header=%d", len(codes)))
		return probs
	}
	var code string
	for c := range codes {
		code = c
	}
	cat := categoryOf(code)
	known := false
	for _, c := range allCodes[cat] {
		if c == code {
			known = true
		}
	}
	if !known {
		probs = append(probs, "code-not-in-table")
	}
	if !strings.HasPrefix(first, "error: ["+code+"] ") {
		probs = append(probs, "header-form")
	}
	if d.Analyzer != "" && d.Analyzer != analyzerOf[cat] {
		probs = append(probs, "analyzer-mismatch")
	}
	if pkgFiles != nil && !pkgFiles[d.File] {
		probs = append(probs, "position-outside-package-files")
	}
	if strings.HasSuffix(d.File, "_test.go") || strings.Contains(d.File, "testdata") {
		// default configuration: test files and every path containing "testdata" are excluded
		probs = append(probs, "position-in-excluded-file")
	}
	hasExcerpt := strings.Contains(d.Message, " | ")
	if hasExcerpt || needURL {
		want := "   = help: " + urls[cat]
		found := false
		for _, l := range strings.Split(d.Message, "\n") {
			if l == want {
				found = true
			}
		}
		if !found {
			probs = append(probs, "help-url")
		}
		if needURL && !hasExcerpt {
			probs = append(probs, "no-excerpt-for-readable-file")
		}
	}
	return probs
}

// C17: every diagnostic is well-formed, documented and suppressible by the code it shows.
func C17(tier common.Tier) int {
	run := common.NewRun("C17", tier, "exploration")
	run.SetRule("enumerated completely: (1) every diagnostic the real binary emits on the covering programs (all 16 codes, function/nested/package level, two packages; the multi-package fixtures) is checked against the format rules (exactly one documented [CODE], analyzer of its category, position in a non-excluded file of the analysed package, help URL of the category's book page); (2) for every such diagnostic the program is re-run by the real binary with `// @ignore <code shown>` appended to its line and the result must be base minus that diagnostic (and same-code ones on the line), up to once-per-file re-reporting; (3) exit status of both drivers in text mode vs. number of diagnostics printed, over programs with 0, 1 and many diagnostics and with everything suppressed; (4) the format rules on every diagnostic of a bounded in-process sweep of the C01-C04 universes. Non-trivial = a case with at least one diagnostic.",
		"all diagnostics of 1 covering base x {format, append-ignore rerun}; 3 fixtures x 2 drivers format; 6 programs x 2 text drivers exit status; in-process sweep depth 1")
	run.Assume("documentation page per category is derived from the book's source file names", "JSON and text output of the x/tools drivers is parsed by the harness")
	urls := docURLs()
	if len(urls) != 5 {
		common.Fatalf("could not derive documentation pages from the book: %v", urls)
	}
	drv.Binary()
	root := drv.Scratch()
	defer os.RemoveAll(root)

	base := e1.IgBases()[0]
	bdir := root + "/base"
	// the covering module also contains files the default configuration excludes, each with violations:
	// a file whose NAME contains "testdata", an in-package test file, and a package under testdata/
	withExcluded := func(p *prog.Program) *prog.Program {
		q := &prog.Program{}
		for _, pk := range p.Pkgs {
			if pk.Path == e1.PathU {
				pk.Files = append(append([]prog.File(nil), pk.Files...),
					prog.File{Name: "load_testdata.go", Src: "package u\n\nimport \"ex.com/m/d\"\n\nfunc loadTestdata(x *d.T) {\n\tx.F = 1\n\t_ = d.T{}\n\td.Helper()\n}\n"},
					prog.File{Name: "extra_test.go", Src: "package u\n\nimport \"ex.com/m/d\"\n\nfunc inTest(x *d.T) {\n\tx.F = 1\n\t_ = new(d.T)\n}\n"})
			}
			q.Pkgs = append(q.Pkgs, pk)
		}
		q.Pkgs = append(q.Pkgs, prog.Pkg{Path: "ex.com/m/testdata/fix", Files: []prog.File{{Name: "fix.go",
			Src: "package fix\n\nimport \"ex.com/m/d\"\n\nfunc fix(x *d.T) {\n\tx.F = 1\n}\n"}}})
		return q
	}
	drv.WriteModule(bdir, withExcluded(base.Program()))
	pkgFilesOf := func(p *prog.Program) map[string]map[string]bool {
		m := map[string]map[string]bool{}
		for _, pk := range p.Pkgs {
			m[pk.Path] = map[string]bool{}
			for _, f := range pk.Files {
				m[pk.Path][pk.Path+"/"+f.Name] = true
			}
		}
		return m
	}
	checkFormat := func(where string, diags []prog.Diag, p *prog.Program, needURL bool) {
		pf := pkgFilesOf(p)
		for _, d := range diags {
			probs := wellFormed(d, urls, pf[d.Pkg], needURL)
			run.State(1, d.Code, where+d.Key())
			for _, pr := range probs {
				run.Report(common.Cex{Sig: fmt.Sprintf("format|%s|code=%s|analyzer=%s", pr, d.Code, d.Analyzer),
					Summary: fmt.Sprintf("%s: diagnostic at %s:%d violates rule %q: %q", where, d.File, d.Line, pr, firstLineOf(d.Message)),
					Detail:  map[string]any{"message": d.Message, "analyzer": d.Analyzer}})
			}
		}
	}
	out := drv.Run(drv.Req{Driver: drv.Standalone, Dir: bdir, Patterns: []string{"./...", "./testdata/fix"}})
	if c := out.Crashed(); c != "" {
		run.Report(common.Cex{Sig: "crash|base", Summary: "binary crashed on the covering program: " + c})
	}
	checkFormat("covering/standalone", out.Diags, base.Program(), true)
	vout := drv.Run(drv.Req{Driver: drv.Vet, Dir: bdir, Patterns: []string{"./...", "./testdata/fix"}})
	checkFormat("covering/vet", vout.Diags, base.Program(), true)
	codesSeen := map[string]bool{}
	for _, d := range out.Diags {
		codesSeen[d.Code] = true
	}
	run.Count("distinct_codes_on_covering_program", len(codesSeen))
	if len(codesSeen) < 16 {
		run.Report(common.Cex{Sig: "base-incomplete", Summary: fmt.Sprintf("covering program yields only %d codes", len(codesSeen))})
	}
	for i, sh := range e4.Shapes() {
		if i != 0 && i != 1 && i != 3 {
			continue
		}
		p := e4.Diamond(sh)
		dir := fmt.Sprintf("%s/fx%d", root, i)
		drv.WriteModule(dir, p)
		for _, k := range []drv.Driver{drv.Standalone, drv.Vet} {
			o := drv.Run(drv.Req{Driver: k, Dir: dir})
			checkFormat("fixture/"+sh.Name+"/"+k.String(), o.Diags, p, true)
		}
	}

	// (2) append `// @ignore <code shown>` to the diagnostic's line, real binary
	var baseDiags []baseDiag
	for _, d := range out.Diags {
		fi := -1
		for i, f := range base.Files {
			if f.Pkg+"/"+f.Name == d.File {
				fi = i
			}
		}
		if fi < 0 {
			continue // a diagnostic in one of the excluded extra files: already reported by the format rules
		}
		baseDiags = append(baseDiags, baseDiag{fi, d.Line, d.Code})
	}
	type job struct {
		d baseDiag
	}
	seenLine := map[string]bool{}
	var jobs []job
	for _, d := range baseDiags {
		k := fmt.Sprintf("%d:%d:%s", d.file, d.line, d.code)
		if seenLine[k] {
			continue
		}
		seenLine[k] = true
		jobs = append(jobs, job{d})
	}
	var mu sync.Mutex
	drv.ParallelDo(len(jobs), common.NumWorkers(), func(i int) {
		d := jobs[i].d
		v, nb, ok := e1.MakeVariant(base, d.file, d.line, e1.PlTrail, "// @ignore "+d.code)
		if !ok {
			return
		}
		dir := fmt.Sprintf("%s/ig%d", root, i)
		drv.WriteModule(dir, nb.Program())
		o := drv.Run(drv.Req{Driver: drv.Standalone, Dir: dir})
		os.RemoveAll(dir)
		var gk []string
		for _, g := range o.Diags {
			for fi, f := range nb.Files {
				if f.Pkg+"/"+f.Name == g.File {
					gk = append(gk, fmt.Sprintf("%s:%d:%s", nb.Files[fi].Name+"@"+nb.Files[fi].Pkg, g.Line, g.Code))
				}
			}
		}
		sort.Strings(gk)
		mu.Lock()
		want := expectedIg(base, baseDiags, v, []string{d.code})
		mu.Unlock()
		run.State(1, strings.Join(gk, "|"), fmt.Sprintf("ignore-own-code|%d|%d|%s", d.file, d.line, d.code))
		if strings.Join(gk, "|") != strings.Join(want, "|") {
			missing, extra := diffKeys(want, gk)
			level := "func-level"
			if fi, err := e1.ParseInfo(base.Files[d.file].Src()); err == nil {
				s, _ := fi.StmtSpan(d.line)
				ds, _ := fi.DeclSpan(d.line)
				if s == ds {
					level = "pkg-level"
				}
			}
			run.Report(common.Cex{Sig: fmt.Sprintf("own-code-ignore|code=%s|level=%s|nmissing=%d|nextra=%d", d.code, level, len(missing), len(extra)),
				Summary: fmt.Sprintf("appending `// @ignore %s` to %s:%d does not remove exactly that diagnostic: vanished although they should stay %v; still reported although they should vanish %v",
					d.code, base.Files[d.file].Name, d.line, missing, extra),
				Detail: map[string]any{"want": want, "got": gk, "cmd": o.Cmd}})
		}
	})

	// (2b) the same on the covering program WITH real markers in it (a category before a function, a file-level list,
	// @ignore ALL before another function, exact codes on single lines): the appended marker then sits inside other
	// markers' scopes and next to markers of the same code. In-process; reference = that program's own run.
	{
		marked := e1.IgRealMarked(base)
		mres, err := prog.Run(marked.Program(), prog.Opts{})
		if err != nil || mres.Panic != "" {
			common.Fatalf("marked covering program: %v %s", err, mres.Panic)
		}
		var mdiags []baseDiag
		for _, d := range mres.Diags {
			for i, f := range marked.Files {
				if f.Pkg+"/"+f.Name == d.File {
					mdiags = append(mdiags, baseDiag{i, d.Line, d.Code})
				}
			}
		}
		seenM := map[string]bool{}
		for _, d := range mdiags {
			k := fmt.Sprintf("%d:%d:%s", d.file, d.line, d.code)
			if seenM[k] {
				continue
			}
			seenM[k] = true
			if d.code == "TONL01" || d.code == "PKGO01" {
				continue // where a once-per-file report moves to depends on the markers already in the program; (2) judges these codes
			}
			v, nb, ok := e1.MakeVariant(marked, d.file, d.line, e1.PlTrail, "// @ignore "+d.code)
			if !ok {
				continue
			}
			res, err := prog.Run(nb.Program(), prog.Opts{})
			if err != nil {
				common.Fatalf("%v", err)
			}
			var gk []string
			for _, g := range res.Diags {
				for fi, f := range nb.Files {
					if f.Pkg+"/"+f.Name == g.File {
						gk = append(gk, fmt.Sprintf("%s:%d:%s", nb.Files[fi].Name+"@"+nb.Files[fi].Pkg, g.Line, g.Code))
					}
				}
			}
			sort.Strings(gk)
			want := expectedIg(marked, mdiags, v, []string{d.code})
			run.State(1, strings.Join(gk, "|"), fmt.Sprintf("ignore-own-code-marked|%d|%d|%s", d.file, d.line, d.code))
			if strings.Join(gk, "|") != strings.Join(want, "|") || res.Panic != "" {
				missing, extra := diffKeys(want, gk)
				run.Report(common.Cex{Sig: fmt.Sprintf("own-code-ignore-among-markers|code=%s|nmissing=%d|nextra=%d", d.code, len(missing), len(extra)),
					Summary: fmt.Sprintf("program with real @ignore markers: appending `// @ignore %s` to %s:%d does not remove exactly that diagnostic: vanished although they should stay %v; still reported although they should vanish %v %s",
						d.code, marked.Files[d.file].Name, d.line, missing, extra, res.Panic),
					Detail: map[string]any{"want": want, "got": gk, "program": nb.Program().Text()}})
			}
		}
	}

	// (2b) every diagnostic line of every file suppressed at once (`// @ignore ALL` appended to each): the packages then
	// hold markers in several files; in-process under both parse orders of the loader, and on the real binary (whose
	// loader parses files concurrently) three times. Only the once-per-file reports may move to their next use.
	{
		all := base.Clone()
		ignored := map[string]bool{}
		for _, d := range baseDiags {
			k := fmt.Sprintf("%d:%d", d.file, d.line)
			if !ignored[k] {
				ignored[k] = true
				all.Files[d.file].Lines[d.line-1].Text += " // @ignore ALL"
			}
		}
		dummy := &e1.IgVariant{Base: base, File: -1}
		want := expectedIgScopes(base, baseDiags, dummy, []string{"ALL"}, func(fi, vl int) bool { return ignored[fmt.Sprintf("%d:%d", fi, vl)] })
		keysOf := func(ds []prog.Diag) []string {
			var gk []string
			for _, g := range ds {
				for fi, f := range all.Files {
					if f.Pkg+"/"+f.Name == g.File {
						gk = append(gk, fmt.Sprintf("%s:%d:%s", all.Files[fi].Name+"@"+all.Files[fi].Pkg, g.Line, g.Code))
					}
				}
			}
			sort.Strings(gk)
			return gk
		}
		report := func(where string, gk []string) {
			run.State(1, strings.Join(gk, "|"), "ignore-all-at-once|"+where)
			if strings.Join(gk, "|") != strings.Join(want, "|") {
				missing, extra := diffKeys(want, gk)
				run.Report(common.Cex{Sig: fmt.Sprintf("own-code-ignore-all-at-once|where=%s|nmissing=%d|nextra=%d", strings.SplitN(where, "#", 2)[0], len(missing), len(extra)),
					Summary: fmt.Sprintf("with `// @ignore ALL` appended to every diagnostic line of every file (%s): should remain but vanished %v; should vanish but still reported %v", where, missing, extra)})
			}
		}
		for _, rev := range []bool{false, true} {
			ld, err := prog.LoadOrder(all.Program(), rev)
			if err != nil {
				common.Fatalf("%v", err)
			}
			res := prog.Analyze(ld, prog.Opts{})
			report(fmt.Sprintf("in-process/reverse-parse=%v", rev), keysOf(res.Diags))
		}
		adir := root + "/allig"
		drv.WriteModule(adir, all.Program())
		for rep := 0; rep < 3; rep++ {
			o := drv.Run(drv.Req{Driver: drv.Standalone, Dir: adir})
			report(fmt.Sprintf("standalone#%d", rep), keysOf(o.Diags))
		}
		o := drv.Run(drv.Req{Driver: drv.Vet, Dir: adir})
		report("vet", keysOf(o.Diags))
	}

	// (3) exit status in text mode
	clean := &prog.Program{Pkgs: []prog.Pkg{{Path: "ex.com/m/q", Files: []prog.File{{Name: "q.go", Src: "package q\n\ntype T struct{ F int }\n\nfunc f(x *T) { x.F = 1 }\n"}}}}}
	one := &prog.Program{Pkgs: []prog.Pkg{{Path: "ex.com/m/q", Files: []prog.File{{Name: "q.go", Src: "package q\n\n// @immutable\ntype T struct{ F int }\n\nfunc f(x *T) {\n\tx.F = 1\n}\n"}}}}}
	oneIgnored := &prog.Program{Pkgs: []prog.Pkg{{Path: "ex.com/m/q", Files: []prog.File{{Name: "q.go", Src: "package q\n\n// @immutable\ntype T struct{ F int }\n\nfunc f(x *T) {\n\tx.F = 1 // @ignore IMM01\n}\n"}}}}}
	allIgnored := base.Clone()
	for _, f := range allIgnored.Files {
		f.Lines = append([]e1.IgLine{{Text: "// @ignore ALL"}}, f.Lines...)
	}
	type ex struct {
		name string
		p    *prog.Program
		env  map[string]string
	}
	exs := []ex{{"clean", clean, nil}, {"one", one, nil}, {"one-ignored", oneIgnored, nil}, {"many", base.Program(), nil},
		{"many-file-ignored", allIgnored.Program(), nil}, {"many-excluded-ALL", base.Program(), map[string]string{"GOGREEMENT_EXCLUDE_CHECKS": "ALL"}},
		{"many-excluded-all-but-one-category", base.Program(), map[string]string{"GOGREEMENT_EXCLUDE_CHECKS": "IMM,CTOR,TONL,PKGO"}}}
	for i, e := range exs {
		dir := fmt.Sprintf("%s/ex%d", root, i)
		drv.WriteModule(dir, e.p)
		for _, k := range []drv.Driver{drv.StandaloneText, drv.VetText} {
			o := drv.Run(drv.Req{Driver: k, Dir: dir, Env: e.env})
			n := len(o.Diags)
			run.State(1, fmt.Sprintf("%s/%s/exit=%d/n=%d", e.name, k, o.Exit, n), fmt.Sprintf("exit|%s|%s", e.name, k))
			if c := o.Crashed(); c != "" {
				run.Report(common.Cex{Sig: "crash|exit-status|" + e.name, Summary: "crash: " + c})
			}
			if (o.Exit != 0) != (n > 0) {
				run.Report(common.Cex{Sig: fmt.Sprintf("exit-status|driver=%s|program=%s|exit=%d|printed=%v", k, e.name, o.Exit, n > 0),
					Summary: fmt.Sprintf("%s on %q exits with status %d but printed %d diagnostics", k, e.name, o.Exit, n),
					Detail:  map[string]any{"stderr": o.Stderr, "cmd": o.Cmd}})
			}
		}
	}

	// (4) in-process sweep of format rules
	for _, fam := range []*e1.Family{&e1.FamIMM, &e1.FamCTOR} {
		for _, inU := range []bool{false, true} {
			for _, b := range e1.Alphabet(fam, inU, []int{0, 1}) {
				spec := &e1.Spec{InU: inU, Mix: e1.Mix{Imm: true, Ctor: 1}, Blocks: []e1.Block{b}, Sites: fam.Sites()}
				rd := e1.Render(spec)
				res, err := prog.Run(rd.Prog, prog.Opts{})
				if err != nil {
					common.Fatalf("%v", err)
				}
				checkFormat("inprocess/"+fam.Name, res.Diags, rd.Prog, false)
			}
		}
	}
	us := e1.UseSites()
	var allIdx []int
	for i := range us {
		allIdx = append(allIdx, i)
	}
	for _, pk := range []e1.UsePkg{e1.UPkgD, e1.UPkgU, e1.UPkgW} {
		// every way the using package can name the items: qualified, through aliases, renamed and dot imports
		for _, sp := range []e1.Spell{e1.SpDirect, e1.SpLocalAlias, e1.SpThirdAlias, e1.SpRenamedImp, e1.SpDotImport, e1.SpBodyAlias} {
			if pk.Path == e1.PathD && sp != e1.SpDirect && sp != e1.SpLocalAlias && sp != e1.SpBodyAlias {
				continue
			}
			spec := &e1.UseSpec{Pkg: pk, Mix: e1.UseMix{TestOnly: true, Allow: 4}, Spell: sp, Sites: us,
				Blocks: []e1.UseBlock{{Encl: e1.UEPlain, Stmts: allIdx}, {Encl: e1.UEStructField, File: 1}, {Encl: e1.UEPkgVarTyped, File: 1}}}
			rd := e1.RenderUse(spec)
			res, err := prog.Run(rd.Prog, prog.Opts{})
			if err != nil {
				common.Fatalf("%v", err)
			}
			var own []prog.Diag
			for _, d := range res.Diags {
				if d.Pkg == pk.Path { // the package under test; the helper package of the third-package aliases is C04's business
					own = append(own, d)
				}
			}
			checkFormat("inprocess/use/"+e1.SpellNames[sp], own, rd.Prog, false)
		}
	}
	run.Sample(map[string]any{"covering_program_diagnostics": len(out.Diags), "append_ignore_reruns": len(jobs), "exit_status_cells": len(exs) * 2})
	if len(out.Diags) > 0 {
		run.Sample(map[string]any{"diagnostic": out.Diags[0]})
	}
	return run.Finish()
}

func firstLineOf(s string) string {
	if i := strings.IndexByte(s, '\n'); i >= 0 {
		return s[:i]
	}
	return s
}

func init() { Register("C17", C17) }

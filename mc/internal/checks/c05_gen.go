package checks

// C05 generator: many (annotated type, @implements lines, interface) cases are packed into one
// generated package ex.com/m/p so that one type-check / one run of the real analyzers serves a
// whole batch. Every annotated type sits on its own line; diagnostics are mapped back by line.

import (
	"fmt"
	"sort"
	"strings"

	"verif/mc/internal/prog"
)

const c05Main = "ex.com/m/p"

// c05Ann is one "// @implements [&][qual.]Name" line.
type c05Ann struct {
	Amp  bool
	Qual string
	Name string
}

func (a c05Ann) Text() string {
	s := "// @implements "
	if a.Amp {
		s += "&"
	}
	if a.Qual != "" {
		s += a.Qual + "."
	}
	return s + a.Name
}

// Display is how the implementation names the interface in IMPL02 / IMPL03 messages.
func (a c05Ann) Display() string {
	if a.Qual != "" {
		return a.Qual + "." + a.Name
	}
	return a.Name
}

type c05Imp struct{ Alias, Path string }

// c05Case is one judged annotated type. "§" in Pre / TypeDecl / annotation names is replaced by
// the case's index inside its batch (so every case has its own identifiers); nothing that goes
// into a signature contains it.
type c05Case struct {
	Fam      string // family of the grid the case belongs to
	Coord    string // stable structural coordinates inside the family, "k=v|k=v"
	Cause    string // structural cause tags derived from the ingredients (never from the output)
	FileKey  string // cases with equal FileKey share one file of package p
	Imports  []c05Imp
	Pre      string // declarations in the same file, before the annotated type
	TypeDecl string // one line, declares T§
	Anns     []c05Ann
}

func (c *c05Case) String() string {
	var a []string
	for _, an := range c.Anns {
		a = append(a, strings.TrimPrefix(an.Text(), "// "))
	}
	return fmt.Sprintf("fam=%s %s [%s] on %q", c.Fam, c.Coord, strings.Join(a, "; "), c.TypeDecl)
}

// helper packages. Every ordinary helper X declares Use, an interface I whose only method is
// M<name>, a struct S, a func F and a var V; extra declarations serve the signature / embedding grids.
type c05Helper struct{ Path, Name, Body string }

func c05Std(name string) string {
	return fmt.Sprintf("type Use struct{}\ntype I interface{ M%s() }\ntype S struct{}\nfunc F() {}\nvar V int\n", name)
}

var c05Helpers = []c05Helper{
	{"ex.com/m/z", "z", c05Std("z") + "type OnlyZ interface{ Mz() }\n"},
	{"ex.com/m/a", "a", c05Std("a") + `type N struct{}
type J interface{ M() }
type IA interface{ M() }
type IA2 interface { M(); M2() }
type IN interface{ M(N) N }
type IE interface { J; M2() }
type U interface { M(); hidden() }
type UImpl struct{}
func (UImpl) M() {}
func (UImpl) hidden() {}
type Impl struct{}
func (Impl) M() {}
type PImpl struct{}
func (*PImpl) M() {}
type Sealed interface { M(); seal() }
type SealedU interface{ seal() }
type Open interface{ M() }
` + c05XBases},
	{"ex.com/m/b", "b", c05Std("b") + "type N struct{}\ntype IN interface{ M(N) N }\n" + c05XBases},
	{"ex.com/m/yaml.v3", "yaml", c05Std("yaml")},
	{"ex.com/m/foo-go", "foo", c05Std("foo")},
	{"ex.com/m/lastel", "decl", c05Std("decl")},
	{"ex.com/m/us", "us", c05Std("us")},
	{"ex.com/m/dot", "dot", "type DotUse struct{}\ntype DotI interface{ Mdot() }\ntype DotS struct{}\n"},
	{"ex.com/m/q/p", "p", c05Std("p")},
}

func c05HelperByPath(path string) *c05Helper {
	for i := range c05Helpers {
		if c05Helpers[i].Path == path {
			return &c05Helpers[i]
		}
	}
	panic("c05: unknown helper " + path)
}

// common declarations of package p (file p0.go).
const c05Common = `package p

type L struct{}
type LL L
type AL = L
type AI = int
type PL *L   // a DEFINED pointer type: not identical to *L
type APL = *L // an alias of the pointer type: identical to *L
type SL []L
type FL func(L) *L
type I interface{ Mown() }
type OnlyP interface{ Mown() }
type S struct{}
func F() {}
var V int
`

type c05Rendered struct {
	Prog  *prog.Program
	Names []string // annotated type name per case
	Files []string // "ex.com/m/p/fN.go" per case
	Lines []int    // line of the annotated type's declaration per case
}

func c05Subst(s string, id int) string { return strings.ReplaceAll(s, "§", fmt.Sprint(id)) }

// c05Render lays the batch out. The result is a pure function of the batch.
func c05Render(cases []*c05Case) *c05Rendered {
	rd := &c05Rendered{Names: make([]string, len(cases)), Files: make([]string, len(cases)), Lines: make([]int, len(cases))}
	type fileAcc struct {
		name  string
		b     strings.Builder
		lines int
	}
	var order []string
	files := map[string]*fileAcc{}
	used := map[string]bool{}
	for i, c := range cases {
		fa := files[c.FileKey]
		if fa == nil {
			fa = &fileAcc{name: fmt.Sprintf("f%d.go", len(order))}
			files[c.FileKey] = fa
			order = append(order, c.FileKey)
			var h strings.Builder
			h.WriteString("package p\n\n")
			for _, im := range c.Imports {
				used[im.Path] = true
				if im.Alias != "" {
					fmt.Fprintf(&h, "import %s %q\n", im.Alias, im.Path)
				} else {
					fmt.Fprintf(&h, "import %q\n", im.Path)
				}
			}
			for _, im := range c.Imports {
				hp := c05HelperByPath(im.Path)
				switch im.Alias {
				case "_":
				case ".":
					h.WriteString("var _ DotUse\n")
				case "":
					fmt.Fprintf(&h, "var _ %s.Use\n", hp.Name)
				default:
					fmt.Fprintf(&h, "var _ %s.Use\n", im.Alias)
				}
			}
			h.WriteString("\n")
			fa.b.WriteString(h.String())
			fa.lines = strings.Count(h.String(), "\n")
		}
		var t strings.Builder
		if c.Pre != "" {
			pre := c05Subst(c.Pre, i)
			if !strings.HasSuffix(pre, "\n") {
				pre += "\n"
			}
			t.WriteString(pre)
		}
		for _, an := range c.Anns {
			t.WriteString(c05Subst(an.Text(), i) + "\n")
		}
		before := strings.Count(t.String(), "\n")
		t.WriteString(c05Subst(c.TypeDecl, i) + "\n\n")
		rd.Lines[i] = fa.lines + before + 1
		rd.Files[i] = c05Main + "/" + fa.name
		rd.Names[i] = fmt.Sprintf("T%d", i)
		fa.b.WriteString(t.String())
		fa.lines += strings.Count(t.String(), "\n")
	}
	p := &prog.Program{}
	var paths []string
	for path := range used {
		paths = append(paths, path)
	}
	sort.Strings(paths)
	for _, path := range paths {
		hp := c05HelperByPath(path)
		p.Pkgs = append(p.Pkgs, prog.Pkg{Path: hp.Path, Files: []prog.File{{Name: "h.go", Src: "package " + hp.Name + "\n\n" + hp.Body}}})
	}
	mp := prog.Pkg{Path: c05Main, Files: []prog.File{{Name: "p0.go", Src: c05Common}}}
	for _, k := range order {
		mp.Files = append(mp.Files, prog.File{Name: files[k].name, Src: files[k].b.String()})
	}
	p.Pkgs = append(p.Pkgs, mp)
	rd.Prog = p
	return rd
}

// ---------------------------------------------------------------------------------------------
// Signature alphabet Τ

type c05Ty struct {
	Expr     string // Go type expression (with "..." prefix when variadic)
	Variadic bool
}

var c05Tau = func() []c05Ty {
	exprs := []string{
		"int", "string", "L", "LL", "a.N", "al.N", "*L", "**L", "***L", "*int", "**int", "*a.N", "*al.N",
		"[]int", "[]L", "[]*L", "[]**L", "*[]L", "[][]int", "[2]int", "[3]int", "[2]L",
		"map[string]L", "map[string]*L", "map[L]int", "chan int", "<-chan int", "chan<- int", "chan L",
		"func(int) string", "func(x int) string", "func(...int)", "func([]int)", "func() (int, string)", "func() (n int, s string)", "func(L) *L",
		"...int", "...L", "...*L", "...interface{}",
		"AL", "AI", "*AL", "*AI", "[]AL", "map[AL]int", "chan AL", "func(AI) string", "func(AL) *AL", "...AL", "...any",
		"any", "interface{}", "[]any", "[]interface{}", "interface{ M() }", "error",
		"struct{}", "struct{ X int }", "struct{ Y int }", "struct{ X AI }",
		"byte", "uint8", "[]byte", "[]uint8", "rune", "int32",
		"PL", "APL", "*PL", "SL", "FL", "[]PL", "...PL",
	}
	var out []c05Ty
	for _, e := range exprs {
		out = append(out, c05Ty{Expr: e, Variadic: strings.HasPrefix(e, "...")})
	}
	return out
}()

var c05DefaultImports = []c05Imp{{"", "ex.com/m/a"}, {"al", "ex.com/m/b"}}

func c05HasWord(s, w string) bool {
	for i := 0; i+len(w) <= len(s); i++ {
		if s[i:i+len(w)] != w {
			continue
		}
		isId := func(b byte) bool {
			return b == '_' || (b >= '0' && b <= '9') || (b >= 'a' && b <= 'z') || (b >= 'A' && b <= 'Z')
		}
		if i > 0 && isId(s[i-1]) {
			continue
		}
		if i+len(w) < len(s) && isId(s[i+len(w)]) {
			continue
		}
		return true
	}
	return false
}

// c05PairCause derives the structural cause tags of an (interface-side, method-side) pair of type
// expressions from their spelling alone.
func c05PairCause(ti, tm string) string {
	var tags []string
	alias := false
	for _, w := range []string{"AL", "AI", "any", "byte", "rune"} {
		if c05HasWord(ti, w) || c05HasWord(tm, w) {
			alias = true
		}
	}
	if alias {
		tags = append(tags, "alias")
	}
	named := func(t string) bool { return strings.Contains(t, "func(x ") || strings.Contains(t, "(n int") }
	if named(ti) || named(tm) {
		tags = append(tags, "funcname")
	}
	si, sm := strings.TrimPrefix(ti, "..."), strings.TrimPrefix(tm, "...")
	di, dm := len(si)-len(strings.TrimLeft(si, "*")), len(sm)-len(strings.TrimLeft(sm, "*"))
	if di >= 1 && dm >= 1 && di != dm {
		tags = append(tags, "ptrdepth")
	}
	if len(tags) == 0 {
		return "none"
	}
	return strings.Join(tags, "+")
}

func c05Recv(ptr bool) string {
	if ptr {
		return "(*T§)"
	}
	return "(T§)"
}

func c05Or(s, d string) string {
	if s == "" {
		return d
	}
	return s
}

func c05B(b bool) string {
	if b {
		return "1"
	}
	return "0"
}

// c05SigCase: interface I§ with one method M whose parameter / result at position pos has type ti,
// implemented by a method whose corresponding type is tm.
func c05SigCase(pos string, ti, tm c05Ty, recvPtr, amp bool) *c05Case {
	var im, mm string
	switch pos {
	case "param":
		im = fmt.Sprintf("M(%s)", ti.Expr)
		mm = fmt.Sprintf("M(%s) {}", tm.Expr)
	case "param2":
		im = fmt.Sprintf("M(int, %s)", ti.Expr)
		mm = fmt.Sprintf("M(int, %s) {}", tm.Expr)
	case "result":
		im = fmt.Sprintf("M() %s", ti.Expr)
		mm = fmt.Sprintf("M() (r %s) { return }", tm.Expr)
	case "result2":
		im = fmt.Sprintf("M() (int, %s)", ti.Expr)
		mm = fmt.Sprintf("M() (r0 int, r1 %s) { return }", tm.Expr)
	}
	return &c05Case{
		Fam:      "sig",
		Coord:    fmt.Sprintf("pos=%s|recv=%s|amp=%s|ti=%s|tm=%s", pos, map[bool]string{false: "v", true: "p"}[recvPtr], c05B(amp), ti.Expr, tm.Expr),
		Cause:    c05PairCause(ti.Expr, tm.Expr),
		FileKey:  "default",
		Imports:  c05DefaultImports,
		Pre:      fmt.Sprintf("type I§ interface{ %s }\nfunc %s %s\n", im, c05Recv(recvPtr), mm),
		TypeDecl: "type T§ struct{}",
		Anns:     []c05Ann{{Amp: amp, Name: "I§"}},
	}
}

func c05SigCases(thorough bool) []*c05Case {
	var out []*c05Case
	positions := []string{"param", "result"}
	combos := [][2]bool{{false, false}}
	if thorough {
		positions = []string{"param", "param2", "result", "result2"}
		combos = [][2]bool{{false, false}, {false, true}, {true, false}, {true, true}}
	}
	for _, pos := range positions {
		for _, rc := range combos {
			for _, ti := range c05Tau {
				for _, tm := range c05Tau {
					if strings.HasPrefix(pos, "result") && (ti.Variadic || tm.Variadic) {
						continue
					}
					out = append(out, c05SigCase(pos, ti, tm, rc[0], rc[1]))
				}
			}
		}
	}
	return out
}

// ---------------------------------------------------------------------------------------------
// arities 0–2 × 0–2 (plus variadic / slice last parameter)

func c05Lists(withVariadic bool) [][]string {
	out := [][]string{{}, {"int"}, {"string"}, {"int", "int"}, {"int", "string"}, {"string", "int"}, {"string", "string"}}
	if withVariadic {
		out = append(out, []string{"...int"}, []string{"[]int"}, []string{"int", "...int"}, []string{"int", "[]int"},
			[]string{"[]int", "...int"}, []string{"[]int", "[]int"}, []string{"[]int", "int"})
	}
	return out
}

func c05ArityCase(ip, ir, mp, mr []string) *c05Case {
	isig := fmt.Sprintf("M(%s) (%s)", strings.Join(ip, ", "), strings.Join(ir, ", "))
	var named []string
	for i, r := range mr {
		named = append(named, fmt.Sprintf("r%d %s", i, r))
	}
	msig := fmt.Sprintf("M(%s) (%s) { return }", strings.Join(mp, ", "), strings.Join(named, ", "))
	return &c05Case{
		Fam: "arity",
		Coord: fmt.Sprintf("isig=(%s)->(%s)|msig=(%s)->(%s)", strings.Join(ip, ","), strings.Join(ir, ","),
			strings.Join(mp, ","), strings.Join(mr, ",")),
		Cause:    "none",
		FileKey:  "default",
		Imports:  c05DefaultImports,
		Pre:      fmt.Sprintf("type I§ interface{ %s }\nfunc (T§) %s\n", isig, msig),
		TypeDecl: "type T§ struct{}",
		Anns:     []c05Ann{{Name: "I§"}},
	}
}

func c05ArityCases(thorough bool) []*c05Case {
	var out []*c05Case
	ps, rs := c05Lists(true), c05Lists(false)
	if thorough {
		for _, ip := range ps {
			for _, ir := range rs {
				for _, mp := range ps {
					for _, mr := range rs {
						out = append(out, c05ArityCase(ip, ir, mp, mr))
					}
				}
			}
		}
		return out
	}
	for _, ip := range ps {
		for _, mp := range ps {
			out = append(out, c05ArityCase(ip, nil, mp, nil))
			out = append(out, c05ArityCase(ip, []string{"int"}, mp, []string{"int"}))
		}
	}
	for _, ir := range rs {
		for _, mr := range rs {
			out = append(out, c05ArityCase(nil, ir, nil, mr))
			out = append(out, c05ArityCase([]string{"int"}, ir, []string{"int"}, mr))
		}
	}
	// the same sequence of types, split between parameters and results at different points
	for _, seq := range [][]string{{"int"}, {"int", "string"}, {"[]byte", "int", "error"}} {
		for k := 0; k <= len(seq); k++ {
			for j := 0; j <= len(seq); j++ {
				if j != k {
					out = append(out, c05ArityCase(seq[:k], seq[k:], seq[:j], seq[j:]))
				}
			}
		}
	}
	return out
}

// ---------------------------------------------------------------------------------------------
// receiver kind × & marker × where the method comes from × interface shape

type c05Src struct{ Name, Pre, TypeDecl, Cause string }

var c05Srcs = []c05Src{
	{"direct-val", "func (T§) M() {}\n", "type T§ struct{}", ""},
	{"direct-ptr", "func (*T§) M() {}\n", "type T§ struct{}", ""},
	{"embE-val", "type E§ struct{}\nfunc (E§) M() {}\n", "type T§ struct{ E§ }", ""},
	{"embE-ptr", "type E§ struct{}\nfunc (*E§) M() {}\n", "type T§ struct{ E§ }", ""},
	{"embPE-val", "type E§ struct{}\nfunc (E§) M() {}\n", "type T§ struct{ *E§ }", ""},
	{"embPE-ptr", "type E§ struct{}\nfunc (*E§) M() {}\n", "type T§ struct{ *E§ }", "ptr-embed-promotion"},
	{"embIface", "type K§ interface{ M() }\n", "type T§ struct{ K§ }", ""},
	{"emb2-val", "type F§ struct{}\nfunc (F§) M() {}\ntype E§ struct{ F§ }\n", "type T§ struct{ E§ }", ""},
	{"emb2-ptr", "type F§ struct{}\nfunc (*F§) M() {}\ntype E§ struct{ F§ }\n", "type T§ struct{ E§ }", ""},
	{"emb2-E-PF-ptr", "type F§ struct{}\nfunc (*F§) M() {}\ntype E§ struct{ *F§ }\n", "type T§ struct{ E§ }", "ptr-embed-promotion"},
	{"emb2-PE-F-ptr", "type F§ struct{}\nfunc (*F§) M() {}\ntype E§ struct{ F§ }\n", "type T§ struct{ *E§ }", "ptr-embed-promotion"},
	{"embImp-val", "", "type T§ struct{ a.Impl }", ""},
	{"embImp-E-ptr", "", "type T§ struct{ a.PImpl }", ""},
	{"embImp-PE-ptr", "", "type T§ struct{ *a.PImpl }", "ptr-embed-promotion"},
	{"embAlias-E-val", "type E§ struct{}\nfunc (E§) M() {}\ntype AE§ = E§\n", "type T§ struct{ AE§ }", ""},
	{"embPAlias-E-ptr", "type E§ struct{}\nfunc (*E§) M() {}\ntype AE§ = E§\n", "type T§ struct{ *AE§ }", "ptr-embed-promotion"},
	{"none", "", "type T§ struct{}", ""},
	{"wrongsig", "func (T§) M(int) {}\n", "type T§ struct{}", ""},
	{"nonstruct-val", "func (T§) M() {}\n", "type T§ int", ""},
	{"nonstruct-ptr", "func (*T§) M() {}\n", "type T§ int", ""},
	{"functype-val", "func (T§) M() {}\n", "type T§ func()", ""},
	{"defined-from-E", "type E§ struct{}\nfunc (E§) M() {}\n", "type T§ E§", ""},
	{"defined-from-embedder", "type F§ struct{}\nfunc (F§) M() {}\ntype E§ struct{ F§ }\n", "type T§ E§", ""},
	{"shadowed", "type E§ struct{}\nfunc (E§) M() {}\nfunc (T§) M(int) {}\n", "type T§ struct{ E§ }", ""},
	{"ambiguous", "type E§ struct{}\nfunc (E§) M() {}\ntype F§ struct{}\nfunc (F§) M() {}\n", "type T§ struct{ E§; F§ }", ""},
	{"named-ptr", "type E§ struct{}\nfunc (E§) M() {}\n", "type T§ *E§", ""},
	{"T-iface-has", "", "type T§ interface{ M() }", "T-is-interface"},
	{"T-iface-embeds", "type K§ interface{ M() }\n", "type T§ interface{ K§ }", "T-is-interface"},
	{"T-iface-embeds-I", "", "type T§ interface{ I§; X() }", "T-is-interface"},
	{"T-iface-lacks", "", "type T§ interface{ X() }", "T-is-interface"},
}

type c05Shape struct{ Name, Decl string }

var c05Shapes = []c05Shape{
	{"flat", "type I§ interface{ M() }\n"},
	{"two", "type I§ interface { M(); M2() }\n"},
	{"embeds-local", "type J§ interface{ M() }\ntype I§ interface{ J§ }\n"},
	{"embeds-imported", "type I§ interface{ a.J }\n"},
	{"embeds-imported-plus", "type I§ interface{ a.IE }\n"},
	{"empty", "type I§ interface{}\n"},
}

func c05RecvCases() []*c05Case {
	var out []*c05Case
	for _, s := range c05Srcs {
		for _, sh := range c05Shapes {
			for _, amp := range []bool{false, true} {
				out = append(out, &c05Case{
					Fam:      "recv",
					Coord:    fmt.Sprintf("src=%s|iface=%s|amp=%s", s.Name, sh.Name, c05B(amp)),
					Cause:    c05Or(s.Cause, "-"),
					FileKey:  "default",
					Imports:  c05DefaultImports,
					Pre:      sh.Decl + s.Pre,
					TypeDecl: s.TypeDecl,
					Anns:     []c05Ann{{Amp: amp, Name: "I§"}},
				})
			}
		}
	}
	return out
}

// ---------------------------------------------------------------------------------------------
// unexported interface methods (declared in another package / locally)

func c05UnexpCases() []*c05Case {
	type v struct {
		name, pre, decl string
		ann             c05Ann
	}
	vs := []v{
		{"foreign|T=M-only", "func (T§) M() {}\n", "type T§ struct{}", c05Ann{Qual: "a", Name: "U"}},
		{"foreign|T=M+own-hidden", "func (T§) M() {}\nfunc (T§) hidden() {}\n", "type T§ struct{}", c05Ann{Qual: "a", Name: "U"}},
		{"foreign|T=embeds-impl", "", "type T§ struct{ a.UImpl }", c05Ann{Qual: "a", Name: "U"}},
		{"foreign|T=embeds-iface", "", "type T§ struct{ a.U }", c05Ann{Qual: "a", Name: "U"}},
		{"foreign|T=embeds-impl+own-hidden", "func (T§) hidden() {}\n", "type T§ struct{ a.UImpl }", c05Ann{Qual: "a", Name: "U"}},
		{"foreign-embedded-locally|T=M+own-hidden", "type I§ interface{ a.U }\nfunc (T§) M() {}\nfunc (T§) hidden() {}\n", "type T§ struct{}", c05Ann{Name: "I§"}},
		{"foreign-embedded-locally|T=embeds-impl", "type I§ interface{ a.U }\n", "type T§ struct{ a.UImpl }", c05Ann{Name: "I§"}},
		{"local|T=M+hidden", "type I§ interface { M(); hidden() }\nfunc (T§) M() {}\nfunc (T§) hidden() {}\n", "type T§ struct{}", c05Ann{Name: "I§"}},
		{"local|T=M-only", "type I§ interface { M(); hidden() }\nfunc (T§) M() {}\n", "type T§ struct{}", c05Ann{Name: "I§"}},
		{"local|T=embeds-foreign-impl", "type I§ interface { M(); hidden() }\n", "type T§ struct{ a.UImpl }", c05Ann{Name: "I§"}},
	}
	var out []*c05Case
	for _, x := range vs {
		for _, amp := range []bool{false, true} {
			an := x.ann
			an.Amp = amp
			// the interface's unexported method and a same-named method in T's method set
			// belong to different packages
			cause := "-"
			if strings.Contains(x.name, "own-hidden") || x.name == "local|T=embeds-foreign-impl" {
				cause = "unexported-other-package"
			}
			out = append(out, &c05Case{
				Fam: "unexp", Coord: fmt.Sprintf("iface=%s|amp=%s", x.name, c05B(amp)), Cause: cause,
				FileKey: "default", Imports: c05DefaultImports, Pre: x.pre, TypeDecl: x.decl, Anns: []c05Ann{an},
			})
		}
	}
	return out
}

// ---------------------------------------------------------------------------------------------
// three-method interface: each method present / absent / present with a wrong signature

func c05ListingCases() []*c05Case {
	var out []*c05Case
	names := []string{"A", "B", "C"}
	states := []string{"ok", "absent", "wrong"}
	for code := 0; code < 27; code++ {
		pre := "type I§ interface { A(); B(int) string; C(...L) }\n"
		var co []string
		c := code
		for _, n := range names {
			st := states[c%3]
			c /= 3
			co = append(co, n+"="+st)
			switch {
			case st == "absent":
			case st == "ok" && n == "A":
				pre += "func (T§) A() {}\n"
			case st == "ok" && n == "B":
				pre += "func (T§) B(int) (s string) { return }\n"
			case st == "ok" && n == "C":
				pre += "func (T§) C(...L) {}\n"
			case st == "wrong" && n == "A":
				pre += "func (T§) A() (r int) { return }\n"
			case st == "wrong" && n == "B":
				pre += "func (T§) B(string) (s string) { return }\n"
			case st == "wrong" && n == "C":
				pre += "func (T§) C([]L) {}\n"
			}
		}
		out = append(out, &c05Case{Fam: "listing", Coord: strings.Join(co, "|"), Cause: "-", FileKey: "default",
			Imports: c05DefaultImports, Pre: pre, TypeDecl: "type T§ struct{}", Anns: []c05Ann{{Name: "I§"}}})
	}
	return out
}

// ---------------------------------------------------------------------------------------------
// imported interfaces whose signatures mention their own package's types

func c05LocCases() []*c05Case {
	type v struct {
		name, pre string
		ann       c05Ann
	}
	vs := []v{
		{"a.IN|T=a.N", "func (T§) M(a.N) (r a.N) { return }\n", c05Ann{Qual: "a", Name: "IN"}},
		{"a.IN|T=L", "func (T§) M(L) (r L) { return }\n", c05Ann{Qual: "a", Name: "IN"}},
		{"a.IN|T=al.N", "func (T§) M(al.N) (r al.N) { return }\n", c05Ann{Qual: "a", Name: "IN"}},
		{"al.IN|T=al.N", "func (T§) M(al.N) (r al.N) { return }\n", c05Ann{Qual: "al", Name: "IN"}},
		{"al.IN|T=a.N", "func (T§) M(a.N) (r a.N) { return }\n", c05Ann{Qual: "al", Name: "IN"}},
		{"a.IE|T=M+M2", "func (T§) M() {}\nfunc (T§) M2() {}\n", c05Ann{Qual: "a", Name: "IE"}},
		{"a.IE|T=M2", "func (T§) M2() {}\n", c05Ann{Qual: "a", Name: "IE"}},
		{"a.IA2|T=M", "func (T§) M() {}\n", c05Ann{Qual: "a", Name: "IA2"}},
		{"local-I-vs-a.I|ann=I|T=Mown", "func (T§) Mown() {}\n", c05Ann{Name: "I"}},
		{"local-I-vs-a.I|ann=a.I|T=Mown", "func (T§) Mown() {}\n", c05Ann{Qual: "a", Name: "I"}},
		{"local-I-vs-a.I|ann=a.I|T=Ma", "func (T§) Ma() {}\n", c05Ann{Qual: "a", Name: "I"}},
		{"local-I-vs-a.I|ann=I|T=Ma", "func (T§) Ma() {}\n", c05Ann{Name: "I"}},
	}
	var out []*c05Case
	for _, x := range vs {
		for _, amp := range []bool{false, true} {
			an := x.ann
			an.Amp = amp
			out = append(out, &c05Case{Fam: "loc", Coord: fmt.Sprintf("%s|amp=%s", x.name, c05B(amp)), Cause: "-",
				FileKey: "default", Imports: c05DefaultImports, Pre: x.pre, TypeDecl: "type T§ struct{}", Anns: []c05Ann{an}})
		}
	}
	return out
}

// ---------------------------------------------------------------------------------------------
// names of the universe scope: no package DECLARES an interface named error, any or comparable, so
// naming one (with or without a qualifier) is IMPL02 whatever methods the type has

func c05UniverseCases() []*c05Case {
	var out []*c05Case
	for _, name := range []string{"error", "any", "comparable"} {
		for _, qual := range []string{"", "a", "al"} {
			for _, amp := range []bool{false, true} {
				for _, meth := range []struct{ n, pre string }{{"none", ""}, {"Error", "func (T§) Error() string { return \"\" }\n"}} {
					out = append(out, &c05Case{Fam: "universe", Coord: fmt.Sprintf("name=%s|qual=%s|amp=%s|methods=%s", name, qual, c05B(amp), meth.n), Cause: "-",
						FileKey: "default", Imports: c05DefaultImports, Pre: meth.pre, TypeDecl: "type T§ struct{}", Anns: []c05Ann{{Amp: amp, Qual: qual, Name: name}}})
				}
			}
		}
	}
	return out
}

// ---------------------------------------------------------------------------------------------
// several @implements lines on one type

func c05MultiCases(thorough bool) []*c05Case {
	type pa struct {
		name string
		ann  c05Ann
	}
	pool := []pa{
		{"I-ok", c05Ann{Name: "I§"}},
		{"&I-ok", c05Ann{Amp: true, Name: "I§"}},
		{"J-missing", c05Ann{Name: "J§"}},
		{"&J-missing", c05Ann{Amp: true, Name: "J§"}},
		{"P-needs-ptr", c05Ann{Name: "P§"}},
		{"&P-ok", c05Ann{Amp: true, Name: "P§"}},
		{"zz.I-nopkg", c05Ann{Qual: "zz", Name: "I§"}},
		{"Nope-noiface", c05Ann{Name: "Nope§"}},
		{"a.IA-ok", c05Ann{Qual: "a", Name: "IA"}},
		{"a.IA2-missing", c05Ann{Qual: "a", Name: "IA2"}},
		{"a.Nope-noiface", c05Ann{Qual: "a", Name: "Nope"}},
	}
	pre := "type I§ interface{ M() }\ntype J§ interface { M(); M2() }\ntype P§ interface { M(); MP() }\nfunc (T§) M() {}\nfunc (*T§) MP() {}\n"
	var out []*c05Case
	mk := func(idx ...int) {
		var names []string
		var anns []c05Ann
		for _, i := range idx {
			names = append(names, pool[i].name)
			anns = append(anns, pool[i].ann)
		}
		out = append(out, &c05Case{Fam: "multi", Coord: "anns=" + strings.Join(names, ","), Cause: "-", FileKey: "default",
			Imports: c05DefaultImports, Pre: pre, TypeDecl: "type T§ struct{}", Anns: anns})
	}
	for i := range pool {
		for j := range pool {
			mk(i, j)
		}
	}
	if thorough {
		for i := range pool {
			for j := range pool {
				for k := range pool {
					mk(i, j, k)
				}
			}
		}
	} else {
		for i := 0; i+2 < len(pool); i++ {
			mk(i, i+1, i+2)
			mk(i+2, i, i+1)
		}
	}
	return out
}

// ---------------------------------------------------------------------------------------------
// qualifier / interface-name grid (IMPL01 / IMPL02)

type c05ImpCfg struct {
	Name    string
	Target  c05Imp // zero Path = the current package
	Second  *c05Imp
	Quals   []c05Qual
	Method  string // the method of the target's interface I (what T§ implements)
	Inames  []c05Iname
	NoOrder bool
}

type c05Qual struct{ Kind, Text, Cause string }
type c05Iname struct{ Kind, Text string }

var c05StdInames = []c05Iname{{"exists", "I"}, {"misspelt", "Imiss"}, {"non-interface-type", "S"}, {"func", "F"}, {"var", "V"}, {"only-in-current-pkg", "OnlyP"}, {"only-in-z", "OnlyZ"}}

var c05ImpCfgs = []c05ImpCfg{
	{Name: "same-package", Method: "Mown", Quals: []c05Qual{{"none", "", "-"}, {"own-package-name", "p", "ownname"}, {"unknown", "zz", "-"}}},
	{Name: "plain", Target: c05Imp{"", "ex.com/m/a"}, Method: "Ma",
		Quals: []c05Qual{{"declared-name", "a", "-"}, {"none", "", "-"}, {"own-package-name", "p", "ownname"}, {"unknown", "zz", "-"}}},
	{Name: "alias", Target: c05Imp{"al", "ex.com/m/b"}, Method: "Mb",
		Quals: []c05Qual{{"alias", "al", "-"}, {"own-package-name", "p", "ownname"}, {"unknown", "zz", "-"}}},
	{Name: "blank", Target: c05Imp{"_", "ex.com/m/us"}, Method: "Mus",
		Quals: []c05Qual{{"declared-name-of-blank", "us", "-"}, {"unknown", "zz", "-"}}},
	{Name: "dot", Target: c05Imp{".", "ex.com/m/dot"}, Method: "Mdot",
		Quals:  []c05Qual{{"declared-name-of-dot", "dot", "-"}, {"none", "", "-"}},
		Inames: []c05Iname{{"exists", "DotI"}, {"misspelt", "DotImiss"}, {"non-interface-type", "DotS"}}},
	{Name: "name-differs-yaml.v3", Target: c05Imp{"", "ex.com/m/yaml.v3"}, Method: "Myaml",
		Quals: []c05Qual{{"declared-name", "yaml", "name-differs"}, {"own-package-name", "p", "ownname"}}},
	{Name: "name-differs-foo-go", Target: c05Imp{"", "ex.com/m/foo-go"}, Method: "Mfoo",
		Quals: []c05Qual{{"declared-name", "foo", "name-differs"}}},
	{Name: "name-differs-lastel", Target: c05Imp{"", "ex.com/m/lastel"}, Method: "Mdecl",
		Quals: []c05Qual{{"declared-name", "decl", "name-differs"}, {"last-path-element", "lastel", "unbound-pathelt"}}},
	{Name: "alias-of-name-differs", Target: c05Imp{"y", "ex.com/m/yaml.v3"}, Method: "Myaml",
		Quals: []c05Qual{{"alias", "y", "-"}}},
	{Name: "alias-of-lastel", Target: c05Imp{"le", "ex.com/m/lastel"}, Method: "Mdecl",
		Quals: []c05Qual{{"alias", "le", "-"}}},
	{Name: "imported-pkg-named-like-current", Target: c05Imp{"", "ex.com/m/q/p"}, Method: "Mp",
		Quals: []c05Qual{{"declared-name", "p", "name-like-current"}, {"none", "", "-"}}},
	{Name: "swapped-aliases", Target: c05Imp{"a", "ex.com/m/b"}, Second: &c05Imp{"b", "ex.com/m/a"}, Method: "Mb",
		Quals: []c05Qual{{"alias", "a", "-"}}, NoOrder: true},
	// one path imported twice in one file: every spec binds its own name
	{Name: "same-path-twice-alias-second", Target: c05Imp{"", "ex.com/m/a"}, Second: &c05Imp{"a2", "ex.com/m/a"}, Method: "Ma",
		Quals: []c05Qual{{"declared-name", "a", "-"}, {"second-spec-alias", "a2", "-"}, {"unknown", "zz", "-"}}, NoOrder: true},
	{Name: "same-path-twice-alias-first", Target: c05Imp{"a2", "ex.com/m/a"}, Second: &c05Imp{"", "ex.com/m/a"}, Method: "Ma",
		Quals: []c05Qual{{"declared-name", "a", "-"}, {"first-spec-alias", "a2", "-"}}, NoOrder: true},
	{Name: "same-path-twice-two-aliases", Target: c05Imp{"a1", "ex.com/m/a"}, Second: &c05Imp{"a2", "ex.com/m/a"}, Method: "Ma",
		Quals: []c05Qual{{"first-spec-alias", "a1", "-"}, {"second-spec-alias", "a2", "-"}}, NoOrder: true},
	{Name: "same-path-blank-then-plain", Target: c05Imp{"_", "ex.com/m/a"}, Second: &c05Imp{"", "ex.com/m/a"}, Method: "Ma",
		Quals: []c05Qual{{"declared-name", "a", "-"}}, NoOrder: true},
	{Name: "alias-shadows-other-import-name", Target: c05Imp{"z", "ex.com/m/a"}, Method: "Ma",
		Quals: []c05Qual{{"alias", "z", "-"}}, Inames: []c05Iname{{"exists", "I"}, {"misspelt", "Imiss"}}, NoOrder: true},
}

func c05QualCases(thorough bool) []*c05Case {
	var out []*c05Case
	zimp := c05Imp{"", "ex.com/m/z"}
	for _, cfg := range c05ImpCfgs {
		orders := []string{"solo", "z-first", "z-last"}
		if cfg.NoOrder {
			orders = []string{"solo"}
		}
		for _, order := range orders {
			var imps []c05Imp
			tgt := []c05Imp{}
			if cfg.Target.Path != "" {
				tgt = append(tgt, cfg.Target)
			}
			if cfg.Second != nil {
				tgt = append(tgt, *cfg.Second)
			}
			hasZ := false
			switch order {
			case "solo":
				imps = tgt
			case "z-first":
				imps = append([]c05Imp{zimp}, tgt...)
				hasZ = true
			case "z-last":
				imps = append(append([]c05Imp{}, tgt...), zimp)
				hasZ = true
			}
			inames := cfg.Inames
			if inames == nil {
				inames = c05StdInames
			}
			for _, q := range cfg.Quals {
				for _, in := range inames {
					if in.Kind == "only-in-z" && !hasZ {
						continue
					}
					for _, amp := range []bool{false, true} {
						if amp && !thorough && in.Kind != "exists" {
							continue
						}
						pre := fmt.Sprintf("func (T§) %s() {}\n", cfg.Method)
						// siblings that make the interface known under another package, so that a
						// lookup that forgets the package would find it
						if in.Kind == "only-in-current-pkg" {
							pre += "// @implements OnlyP\ntype TS§ struct{}\nfunc (TS§) Mown() {}\n"
						}
						if in.Kind == "only-in-z" {
							pre += "// @implements z.OnlyZ\ntype TS§ struct{}\nfunc (TS§) Mz() {}\n"
						}
						out = append(out, &c05Case{
							Fam:      "qual",
							Coord:    fmt.Sprintf("imp=%s|order=%s|qual=%s|iname=%s|amp=%s", cfg.Name, order, q.Kind, in.Kind, c05B(amp)),
							Cause:    q.Cause,
							FileKey:  "qual/" + cfg.Name + "/" + order,
							Imports:  imps,
							Pre:      pre,
							TypeDecl: "type T§ struct{}",
							Anns:     []c05Ann{{Amp: amp, Qual: q.Text, Name: in.Text}},
						})
					}
				}
			}
		}
	}
	return out
}

// c05OtherFileBatch: a package imported only by another file of the same package (one batch, the
// two files must stay together).
func c05OtherFileBatch() []*c05Case {
	out := []*c05Case{{Fam: "qual", Coord: "imp=other-file-only|file=with-import|qual=declared-name|iname=exists|amp=0", Cause: "-",
		FileKey: "qual/other-file/anchor", Imports: c05DefaultImports, Pre: "func (T§) Ma() {}\n", TypeDecl: "type T§ struct{}", Anns: []c05Ann{{Qual: "a", Name: "I"}}}}
	for _, q := range []c05Qual{{"declared-name", "a", "imported-in-other-file"}, {"alias", "al", "imported-in-other-file"}} {
		out = append(out, &c05Case{Fam: "qual", Coord: "imp=other-file-only|file=without-import|qual=" + q.Kind + "|iname=exists|amp=0", Cause: q.Cause,
			FileKey: "qual/other-file/bare", Imports: nil, Pre: "func (T§) Ma() {}\nfunc (T§) Mb() {}\n", TypeDecl: "type T§ struct{}",
			Anns: []c05Ann{{Qual: q.Text, Name: "I"}}})
	}
	return out
}

package checks

// C19 — the rendered excerpt shows the right line and the caret marks the reported column.
//
// Model checking by exhaustive bounded enumeration of inputs on the real code: the public API
// reporting.NewReporter(pass, nil).ReportViolation(v) is driven with a hand-built *analysis.Pass
// (token.File with synthetic line tables, ReadFile serving synthetic content) for every line
// length x every column x content class x placement of the line in its file x neighbour length
// variant, and the message handed to Pass.Report is parsed and judged by an oracle that does
// not share any arithmetic with the implementation: every source line is position-coded (all
// windows of 5 bytes are unique), so an excerpt fragment is located in its source line by
// search, whatever truncation rule produced it.

import (
	"errors"
	"fmt"
	"go/token"
	"sort"
	"strings"
	"unicode/utf8"

	"github.com/a14e/gogreement/src/reporting"
	"golang.org/x/tools/go/analysis"

	"verif/mc/internal/common"
)

const (
	c19Limit    = 200 // the display limit of the statement
	c19MaxRow   = c19Limit + 6
	c19Code     = "IMM01"
	c19Text     = "cannot assign to field of immutable type"
	c19TabWidth = 8
	c19LongLine = 70000 // beyond bufio.Scanner's 64 KiB token limit
)

var c19Classes = []string{"ascii", "tabfront", "tabmid", "mbfront", "mbcut", "percent"}

// c19Layout places the diagnostic line (1-based D) in a file of N lines.
type c19Layout struct {
	name string
	D, N int
}

var c19Layouts = []c19Layout{
	{"only", 1, 1},
	{"first", 1, 4},
	{"second", 2, 5},
	{"middle", 10, 12}, // rows 8..11: the line-number column widens inside the excerpt
	{"last", 100, 100}, // rows 98..100
}

var c19NeighbourLens = []int{0, 50, 400}

type c19Viol struct{ pos token.Pos }

func (v c19Viol) GetCode() string    { return c19Code }
func (v c19Viol) GetPos() token.Pos  { return v.pos }
func (v c19Viol) GetMessage() string { return c19Text }

// ---------------------------------------------------------------------------------------------
// Position-coded lines

// c19Coded returns n bytes of the stream [marker d1 .. dk][marker d1 .. dk]... where the digits
// count in base 26 (lowercase). Every window of 5 bytes determines its offset.
func c19Coded(marker byte, n, digits int) []byte {
	out := make([]byte, 0, n+digits+1)
	for k := 0; len(out) < n; k++ {
		out = append(out, marker)
		div := 1
		for i := 1; i < digits; i++ {
			div *= 26
		}
		for i := 0; i < digits; i++ {
			out = append(out, byte('a'+(k/div)%26))
			div /= 26
			if div == 0 {
				div = 1
			}
		}
	}
	return out[:n]
}

func c19Marker(lineIdx0 int) byte { return byte('A' + lineIdx0%26) }

// c19Line builds the diagnostic line of exactly L bytes for a content class.
func c19Line(class string, L int, marker byte) string {
	stream := c19Coded(marker, L+8, 2)
	out := make([]byte, 0, L+2)
	switch class {
	case "ascii":
		out = append(out, stream[:L]...)
	case "tabfront":
		for len(out) < L && len(out) < 3 {
			out = append(out, '\t')
		}
		out = append(out, stream[:L-len(out)]...)
	case "tabmid":
		out = append(out, stream[:L]...)
		for p := range out {
			if p%29 == 5 || p%29 == 6 {
				out[p] = '\t'
			}
		}
	case "percent":
		// source text is data, never a format: a '%' every 37 bytes, followed by whatever the stream has there
		// (mostly invalid verbs), and "%%" / "% d" near the start
		out = append(out, stream[:L]...)
		for p := range out {
			if p%37 == 9 {
				out[p] = '%'
			}
		}
		if L > 4 {
			out[1], out[2] = '%', '%'
		}
	case "mbfront":
		for len(out)+2 <= L && len(out) < 6 {
			out = append(out, 0xC3, 0xA9) // é
		}
		out = append(out, stream[:L-len(out)]...)
	case "mbcut":
		// é occupies the bytes = 0,1 (mod 7): a cut at byte 197 (= 1 mod 7) falls inside one, and the
		// column-dependent cuts of the other regimes fall inside one for 1 column in 7.
		si := 0
		for len(out) < L {
			if len(out)%7 == 0 && len(out)+2 <= L {
				out = append(out, 0xC3, 0xA9)
			} else if len(out)%7 == 0 {
				out = append(out, '_') // no room for the whole rune at the end of the line
			} else {
				out = append(out, stream[si])
				si++
			}
		}
	default:
		common.Fatalf("c19: unknown class %q", class)
	}
	if len(out) != L {
		common.Fatalf("c19: class %s produced %d bytes for L=%d", class, len(out), L)
	}
	return string(out)
}

func c19WindowsUnique(s string) bool {
	if len(s) < 5 {
		return true
	}
	seen := make(map[string]struct{}, len(s))
	for i := 0; i+5 <= len(s); i++ {
		w := s[i : i+5]
		if _, dup := seen[w]; dup {
			return false
		}
		seen[w] = struct{}{}
	}
	return true
}

// ---------------------------------------------------------------------------------------------
// Synthetic files

type c19File struct {
	name    string
	layout  c19Layout
	variant int
	served  []byte // what ReadFile returns
	readErr error
	truth   []string // lines of the served content, split independently of bufio
	tf      *token.File
	reads   int
}

func c19Split(content string) []string {
	if content == "" {
		return nil
	}
	content = strings.TrimSuffix(content, "\n")
	return strings.Split(content, "\n")
}

// c19AddFile registers claimed (the content the positions refer to) with the file set.
func c19AddFile(fset *token.FileSet, name, claimed string) *token.File {
	tf := fset.AddFile(name, -1, len(claimed))
	offs := []int{0}
	for i := 0; i+1 < len(claimed); i++ {
		if claimed[i] == '\n' {
			offs = append(offs, i+1)
		}
	}
	if !tf.SetLines(offs) {
		common.Fatalf("c19: SetLines rejected the line table of %s", name)
	}
	return tf
}

func c19JoinLines(lines []string, finalNewline bool) string {
	s := strings.Join(lines, "\n")
	if finalNewline {
		s += "\n"
	}
	return s
}

// c19BuildLines returns the N lines of a layout: the diagnostic line at D, neighbours D-2, D-1, D+1
// of the variant's lengths, 7-byte filler elsewhere; every line has its own marker letter, so no
// fragment of one line occurs in a neighbouring one.
func c19BuildLines(diag func(marker byte) string, lay c19Layout, variant int) []string {
	lines := make([]string, lay.N)
	nl := func(k int) int { return c19NeighbourLens[(variant+k)%len(c19NeighbourLens)] }
	for i := range lines {
		m := c19Marker(i)
		switch i + 1 {
		case lay.D:
			lines[i] = diag(m)
		case lay.D - 2:
			lines[i] = string(c19Coded(m, nl(0), 2))
		case lay.D - 1:
			lines[i] = string(c19Coded(m, nl(1), 2))
		case lay.D + 1:
			lines[i] = string(c19Coded(m, nl(2), 2))
		default:
			lines[i] = string(c19Coded(m, 7, 2))
		}
	}
	return lines
}

// ---------------------------------------------------------------------------------------------
// Worker

type c19Fail struct {
	sig, what string
}

type c19Worker struct {
	run    *common.Run
	counts map[string]int
	got    []analysis.Diagnostic
	nSamp  map[string]int
}

func (w *c19Worker) flush() {
	for k, v := range w.counts {
		w.run.Count(k, v)
	}
}

type c19Case struct {
	f         *c19File
	class     string
	L, col    int
	D         int
	kind      string    // "normal" or the degraded kind
	allowNone bool      // a message without excerpt is the acceptable outcome (degraded input)
	omitFrom  int       // rows numbered >= omitFrom may be absent (neighbour the line reader cannot return); 0 = none
	midRune   bool      // the column points into the middle of a rune: "character at the column" undefined
	line      string    // the diagnostic line as served ("" when it does not exist)
	special   bool      // the diagnostic line contains a tab or a multi-byte character
	pos       token.Pos // when set: the position to report (otherwise line D, column col of f)
	noColumn  string    // non-empty: why containment and caret are not judged (column unknown / outside the named line)
	note      string    // free text carried into samples and counterexamples
}

func (w *c19Worker) call(rep *reporting.Reporter, pos token.Pos) (msg string, n int, posOK bool, pv any) {
	w.got = w.got[:0]
	defer func() {
		if r := recover(); r != nil {
			pv = r
		}
	}()
	rep.ReportViolation(c19Viol{pos})
	n = len(w.got)
	if n > 0 {
		msg = w.got[0].Message
		posOK = w.got[0].Pos == pos
	}
	return
}

func c19Cell(s string, upto int) int {
	cell := 0
	for i := 0; i < upto && i < len(s); {
		r, n := utf8.DecodeRuneInString(s[i:])
		if r == '\t' {
			cell = (cell/c19TabWidth + 1) * c19TabWidth
		} else {
			cell++ // one rune, or one invalid byte
		}
		i += n
	}
	return cell
}

type c19Row struct {
	num       int
	raw       string
	prefixLen int
	content   string
}

type c19Parsed struct {
	rows       []c19Row
	caretAfter int // index into rows of the row the caret line follows; -1 = none
	caretLine  string
	carets     int
	help       string
	structErr  string
}

// c19Parse reads the lines after the header: border, numbered rows (+ caret rows), border, help.
func c19Parse(lines []string) c19Parsed {
	p := c19Parsed{caretAfter: -1}
	var kinds []byte
	for _, ln := range lines {
		t := strings.TrimLeft(ln, " ")
		switch {
		case t == "|":
			kinds = append(kinds, 'b')
		case strings.Contains(ln, "help") && strings.HasPrefix(t, "="):
			kinds = append(kinds, 'h')
			p.help = ln
		case len(t) > 0 && t[0] >= '0' && t[0] <= '9':
			j := 0
			num := 0
			for j < len(t) && t[j] >= '0' && t[j] <= '9' {
				num = num*10 + int(t[j]-'0')
				j++
			}
			if !strings.HasPrefix(t[j:], " | ") {
				kinds = append(kinds, '?')
				continue
			}
			pl := len(ln) - len(t) + j + 3
			p.rows = append(p.rows, c19Row{num: num, raw: ln, prefixLen: pl, content: ln[pl:]})
			kinds = append(kinds, 'n')
		case strings.HasPrefix(t, "| "):
			rest := strings.TrimLeft(t[2:], " \t")
			if rest != "^" {
				kinds = append(kinds, '?')
				continue
			}
			p.carets++
			p.caretLine = ln
			p.caretAfter = len(p.rows) - 1
			if len(kinds) == 0 || kinds[len(kinds)-1] != 'n' {
				p.structErr = "caret-row-not-after-a-numbered-row"
			}
			kinds = append(kinds, 'c')
		default:
			kinds = append(kinds, '?')
		}
	}
	k := string(kinds)
	switch {
	case strings.Contains(k, "?"):
		p.structErr = "unrecognised-row"
	case len(k) < 4 || k[0] != 'b' || !strings.HasSuffix(k, "bh") || strings.ContainsAny(k[1:len(k)-2], "bh"):
		if !strings.Contains(k, "h") {
			p.structErr = "help-line-missing"
		} else {
			p.structErr = "frame=" + k
		}
	case !strings.Contains(p.help, "://"):
		p.structErr = "help-line-without-url"
	}
	return p
}

type c19Loc struct {
	shape       string // none | head | tail | middle
	lead, trail bool
	fragLen     int
	starts      []int // admissible offsets of the fragment in the source line
	why         string
}

// c19Locate matches an excerpt row against its source line: equal, or an ellipsis-delimited
// contiguous fragment whose omitted sides are the marked ones.
func c19Locate(content, src string) c19Loc {
	if content == src {
		return c19Loc{shape: "none", fragLen: len(src), starts: []int{0}}
	}
	var l c19Loc
	l.lead = strings.HasPrefix(content, "...")
	rest := content
	if l.lead {
		rest = content[3:]
	}
	l.trail = strings.HasSuffix(rest, "...")
	if l.trail {
		rest = rest[:len(rest)-3]
	}
	switch {
	case l.lead && l.trail:
		l.shape = "middle"
	case l.lead:
		l.shape = "tail"
	case l.trail:
		l.shape = "head"
	default:
		l.shape = "unmarked"
		l.why = "neither-the-line-nor-ellipsis-delimited"
		return l
	}
	l.fragLen = len(rest)
	if rest == "" {
		l.why = "empty-fragment"
		return l
	}
	found := false
	for from := 0; ; {
		i := strings.Index(src[from:], rest)
		if i < 0 {
			break
		}
		st := from + i
		from = st + 1
		found = true
		if !l.lead && st != 0 {
			continue
		}
		if !l.trail && st+len(rest) != len(src) {
			continue
		}
		l.starts = append(l.starts, st)
	}
	if !found {
		l.why = "not-a-fragment-of-the-line"
	} else if len(l.starts) == 0 {
		l.why = "omitted-side-not-marked"
	}
	return l
}

func c19Bucket(n int) string {
	switch {
	case n > 3:
		return ">+3"
	case n < -3:
		return "<-3"
	}
	return fmt.Sprintf("%+d", n)
}

func c19RelRows(nums []int, D int) string {
	if len(nums) == 0 {
		return "none"
	}
	parts := make([]string, len(nums))
	for i, n := range nums {
		parts[i] = fmt.Sprintf("%+d", n-D)
	}
	return strings.Join(parts, ",")
}

// judge applies the oracle to one message. It returns a canonical outcome and the failed clauses.
func (w *c19Worker) judge(c *c19Case, msg string) (outcome string, fails []c19Fail) {
	fail := func(sig, what string) { fails = append(fails, c19Fail{sig, what}) }
	if !strings.HasSuffix(msg, "\n") {
		fail("structure|no-final-newline", "the message does not end with a newline")
	}
	lines := strings.Split(strings.TrimSuffix(msg, "\n"), "\n")
	if lines[0] != "error: ["+c19Code+"] "+c19Text {
		fail("structure|header", fmt.Sprintf("the first line is %q", lines[0]))
	}
	truth := c.f.truth
	if len(lines) == 1 {
		if c.allowNone {
			return "no-excerpt", fails
		}
		fail(fmt.Sprintf("no-excerpt|class=%s|layout=%s", c.class, c.f.layout.name), "a readable file containing the line produced a message without excerpt")
		return "no-excerpt", fails
	}
	p := c19Parse(lines[1:])
	if p.structErr != "" {
		fail("structure|"+p.structErr, "the excerpt frame is malformed: "+p.structErr)
		return "malformed", fails
	}
	hasDiagRow := false
	for _, r := range p.rows {
		hasDiagRow = hasDiagRow || r.num == c.D
	}
	if c.D > len(truth) || c.allowNone && !hasDiagRow {
		// clause 5: the line reader cannot reach the reported line (file too short, or an overlong line
		// in the way), yet an excerpt - of other lines - was rendered
		nums := []int{}
		for _, r := range p.rows {
			nums = append(nums, r.num)
		}
		fail(fmt.Sprintf("degraded|kind=%s|excerpt-without-the-diagnostic-line", c.kind),
			fmt.Sprintf("the line reader cannot return line %d (file of %d lines), the diagnostic is on line %d, and an excerpt of rows %v was rendered", c.D, len(truth), c.D, nums))
		return "excerpt-of-other-lines", fails
	}

	// clause 3 (which rows): D-2 .. D+1 clamped to the file.
	lo, hi := c.D-2, c.D+1
	if lo < 1 {
		lo = 1
	}
	if hi > len(truth) {
		hi = len(truth)
	}
	var want, got []int
	for n := lo; n <= hi; n++ {
		want = append(want, n)
	}
	for _, r := range p.rows {
		got = append(got, r.num)
	}
	rowsOK := len(got) <= len(want)
	for i := range got {
		if !rowsOK || got[i] != want[i] {
			rowsOK = false
			break
		}
	}
	if rowsOK && len(got) < len(want) {
		// a shorter list is admissible only when what is missing is the unreadable tail
		if c.omitFrom == 0 || want[len(got)] < c.omitFrom || len(got) == 0 || got[len(got)-1] < c.D {
			rowsOK = false
		} else {
			w.counts["rows_omitted_after_overlong_neighbour"]++
		}
	}
	if !rowsOK {
		fail(fmt.Sprintf("rows|layout=%s|got=%s|want=%s", c.f.layout.name, c19RelRows(got, c.D), c19RelRows(want, c.D)),
			fmt.Sprintf("numbered rows %v, expected %v (diagnostic line %d of %d)", got, want, c.D, len(truth)))
		return "rows=" + c19RelRows(got, c.D), fails
	}

	diagShape := "?"
	caretOut := "?"
	for ri, r := range p.rows {
		src := truth[r.num-1]
		role := "diag"
		if r.num != c.D {
			role = fmt.Sprintf("neighbour%+d", r.num-c.D)
		}
		// clause 4
		if len(r.content) > c19MaxRow {
			over := len(r.content) - c19MaxRow
			fail(fmt.Sprintf("length|role=%s|over=%s", role, c19Bucket(over)),
				fmt.Sprintf("row %d is %d bytes long, more than %d+6", r.num, len(r.content), c19Limit))
		}
		loc := c19Locate(r.content, src)
		if r.num != c.D {
			if p.caretAfter == ri {
				fail("caret|under-a-context-row|rel="+fmt.Sprintf("%+d", r.num-c.D), "the caret row follows a context row")
			}
			if loc.why != "" {
				fail(fmt.Sprintf("neighbour|rel=%+d|shape=%s|%s", r.num-c.D, loc.shape, loc.why),
					fmt.Sprintf("row %d (%q) does not show source line %d (%d bytes)", r.num, c19Clip(r.content), r.num, len(src)))
			}
			continue
		}
		diagShape = loc.shape
		if loc.why != "" {
			fail(fmt.Sprintf("excerpt|class=%s|shape=%s|%s", c.class, loc.shape, loc.why),
				fmt.Sprintf("row %d (%q) does not show the diagnostic line", r.num, c19Clip(r.content)))
			continue
		}
		if p.caretAfter != ri || p.carets != 1 {
			fail(fmt.Sprintf("caret|rows=%d|not-under-the-diagnostic-row", p.carets), "there is not exactly one caret row directly under the diagnostic row")
			continue
		}
		if c.midRune {
			caretOut = "midrune"
			continue
		}
		if c.noColumn != "" {
			caretOut = c.noColumn
			continue
		}
		// clause 1: the fragment contains the byte at the column (the last byte for column L+1)
		L := len(src)
		pos0 := c.col - 1
		target := pos0
		if pos0 >= L {
			target = L - 1
		}
		start := -1
		for _, st := range loc.starts {
			if L == 0 || (target >= st && target < st+loc.fragLen) {
				start = st
				break
			}
		}
		caretIdx := strings.IndexByte(p.caretLine, '^')
		if start < 0 {
			st := loc.starts[0]
			miss := ""
			if target >= st+loc.fragLen {
				miss = "after-end" + c19Bucket(target-(st+loc.fragLen))
			} else {
				miss = "before-start" + c19Bucket(target-st)
			}
			under := "nothing"
			cc := c19Cell(p.caretLine, caretIdx)
			for i := r.prefixLen; i < len(r.raw); i++ {
				if c19Cell(r.raw, i) == cc {
					under = "source-byte"
					lead := 0
					if loc.lead {
						lead = 3
					}
					if i < r.prefixLen+lead || i >= r.prefixLen+lead+loc.fragLen {
						under = "ellipsis"
					}
					break
				}
			}
			fail(fmt.Sprintf("excerpt|class=%s|shape=%s|column-cut-away|%s|caret-on=%s", c.class, loc.shape, miss, under),
				fmt.Sprintf("the displayed fragment [%d,%d) of the %d-byte line does not contain the byte at column %d", st, st+loc.fragLen, L, c.col))
			caretOut = "cut-away"
			continue
		}
		// clause 2: display cells
		lead := 0
		if loc.lead {
			lead = 3
		}
		charIdx := r.prefixLen + lead + (pos0 - start)
		caretCell := c19Cell(p.caretLine, caretIdx)
		if pos0 >= L {
			// just past the end: there is no character; under the last one or right after it are both accepted
			after := c19Cell(r.raw, r.prefixLen+lead+(L-start))
			last := after
			if L > 0 {
				_, n := utf8.DecodeLastRuneInString(src)
				last = c19Cell(r.raw, r.prefixLen+lead+(L-n-start))
			}
			switch {
			case caretCell == after:
				caretOut = "pastend=after"
				w.counts["pastend_caret_after_last_char"]++
			case caretCell == last:
				caretOut = "pastend=last"
				w.counts["pastend_caret_under_last_char"]++
			default:
				offs := c19Bucket(caretCell - after)
				afterIdx := r.prefixLen + lead + (L - start)
				if !strings.Contains(r.raw[:afterIdx], "\t") && caretCell > after && (caretIdx == afterIdx || caretIdx == afterIdx-1) {
					offs = "+extrabytes" // right by bytes, wrong by cells
				}
				fail(fmt.Sprintf("caret|class=%s|shape=%s|past-end|off=%s", c.class, loc.shape, offs),
					fmt.Sprintf("column %d is just past the end of the %d-byte line; the caret is in cell %d, the line ends in cell %d", c.col, L, caretCell, after))
				caretOut = "pastend=off" + offs
			}
			continue
		}
		charCell := c19Cell(r.raw, charIdx)
		if caretIdx == charIdx {
			w.counts["caret_byte_offset_equal"]++
		} else {
			w.counts["caret_byte_offset_differs"]++
		}
		// rune split by a cut (recorded, not judged)
		if st := start; loc.lead && st < L && !utf8.RuneStart(src[st]) {
			w.counts["rune_split_at_leading_cut"]++
		}
		if e := start + loc.fragLen; loc.trail && e < L && !utf8.RuneStart(src[e]) {
			w.counts["rune_split_at_trailing_cut"]++
			if _, n := utf8.DecodeRuneInString(src[pos0:]); pos0+n > e {
				w.counts["rune_at_the_column_split_by_cut"]++
			}
		}
		off := caretCell - charCell
		if off != 0 {
			offs := c19Bucket(off)
			// bytes beyond one per cell in front of the character, when there is no tab in front of it
			seg := r.raw[:charIdx]
			if !strings.Contains(seg, "\t") && off == len(seg)-charCell && off > 0 {
				offs = "+extrabytes"
			}
			fail(fmt.Sprintf("caret|class=%s|shape=%s|off=%s", c.class, loc.shape, offs),
				fmt.Sprintf("the character at column %d of the %d-byte line is displayed in cell %d, the caret is in cell %d (byte offsets %d / %d)", c.col, L, charCell, caretCell, charIdx, caretIdx))
			caretOut = "off=" + offs
		} else {
			caretOut = "ok"
		}
	}
	return fmt.Sprintf("rows=%s|shape=%s|caret=%s", c19RelRows(got, c.D), diagShape, caretOut), fails
}

func c19Clip(s string) string {
	if len(s) > 60 {
		return s[:28] + " ... " + s[len(s)-28:]
	}
	return s
}

// eval runs one case on the implementation, judges it, records the state and reports failures.
func (w *c19Worker) eval(rep *reporting.Reporter, pass *analysis.Pass, c *c19Case) {
	f := c.f
	pos := c.pos
	if pos == token.NoPos {
		pos = f.tf.LineStart(c.D) + token.Pos(c.col-1)
	}
	msg, n, posOK, pv := w.call(rep, pos)
	var fails []c19Fail
	outcome := ""
	switch {
	case pv != nil:
		fails = append(fails, c19Fail{fmt.Sprintf("panic|kind=%s|class=%s|%s", c.kind, c.class, c19PanicHead(pv)), fmt.Sprintf("ReportViolation panicked: %v", pv)})
		outcome = "panic"
	case n != 1:
		fails = append(fails, c19Fail{fmt.Sprintf("report-calls=%d", n), fmt.Sprintf("Pass.Report was called %d times for one violation", n)})
		outcome = "report-calls"
	case !posOK:
		fails = append(fails, c19Fail{"diagnostic-position-changed", "the diagnostic's Pos is not the violation's position"})
		outcome = "pos"
	default:
		outcome, fails = w.judge(c, msg)
	}
	nt := ""
	if c.kind != "normal" {
		nt = fmt.Sprintf("%s|%s|%d|%d|%d", c.kind, f.name, c.L, c.D, c.col)
	} else if c.L > c19Limit || c.special {
		nt = fmt.Sprintf("%s|%d|%d", c.class, c.L, c.col)
	}
	w.run.State(1, c.kind+"|"+outcome, nt)
	w.counts["cases_"+c.kind]++
	if len(fails) == 0 {
		if w.nSamp[c.kind] < 1 && c.kind != "empty-file" && c.kind != "short-file" && c.kind != "adjusted-unserved-file" && (c.kind != "normal" || c.L > c19Limit && c.col > c19Limit && c.class != "ascii" && c.f.layout.name == "middle") {
			w.nSamp[c.kind]++
			w.run.Sample(map[string]any{"kind": c.kind, "class": c.class, "L": c.L, "column": c.col, "layout": f.layout.name,
				"diagnostic_line_number": c.D, "neighbour_variant": f.variant, "outcome": outcome, "message": msg, "note": c.note})
		}
		return
	}
	// Replay once on a fresh reporter before reporting (this also compares cached and uncached reads).
	msg2, _, _, pv2 := w.call(reporting.NewReporter(pass, nil), pos)
	same := msg2 == msg && (pv2 == nil) == (pv == nil)
	if !same {
		fails = append(fails, c19Fail{"cached-and-fresh-reporter-disagree", "a fresh Reporter renders a different message for the same violation"})
	}
	for _, fl := range fails {
		w.run.Report(common.Cex{
			Sig:     fl.sig,
			Summary: fmt.Sprintf("%s [class=%s L=%d column=%d layout=%s line %d of %d, kind=%s]", fl.what, c.class, c.L, c.col, f.layout.name, c.D, len(f.truth), c.kind),
			Detail: map[string]any{
				"class": c.class, "L": c.L, "column": c.col, "layout": f.layout.name, "diagnostic_line_number": c.D,
				"file_lines": len(f.truth), "neighbour_variant": f.variant, "kind": c.kind, "message": msg, "replayed_identically": same,
				"diagnostic_line": c19ClipLong(c.line), "outcome": outcome, "note": c.note,
				"how_to_replay": "reporting.NewReporter(pass,nil).ReportViolation at (line,column) of a file whose line has the given content; see /verif/mc/internal/checks/c19.go",
			},
		})
	}
}

func c19ClipLong(s string) string {
	if len(s) > 1300 {
		return s[:640] + " ...[" + fmt.Sprint(len(s)-1280) + " bytes]... " + s[len(s)-640:]
	}
	return s
}

func c19PanicHead(pv any) string {
	s := fmt.Sprint(pv)
	// keep the structural part: drop numbers
	var b strings.Builder
	for _, r := range s {
		if r >= '0' && r <= '9' {
			if !strings.HasSuffix(b.String(), "N") {
				b.WriteByte('N')
			}
			continue
		}
		b.WriteRune(r)
	}
	s = b.String()
	if len(s) > 60 {
		s = s[:60]
	}
	return s
}

func (w *c19Worker) newPass(files map[string]*c19File, fset *token.FileSet) *analysis.Pass {
	return &analysis.Pass{
		Fset:   fset,
		Report: func(d analysis.Diagnostic) { w.got = append(w.got, d) },
		ReadFile: func(name string) ([]byte, error) {
			f := files[name]
			if f == nil {
				return nil, errors.New("no such file")
			}
			f.reads++
			w.counts["readfile_calls"]++
			if f.readErr != nil {
				return nil, f.readErr
			}
			return f.served, nil
		},
	}
}

// sweepL enumerates every case of one line length.
func (w *c19Worker) sweepL(L int, variants int) {
	for _, class := range c19Classes {
		if !c19WindowsUnique(c19Line(class, L, 'D')) {
			common.Fatalf("c19: class %s L=%d: a 5-byte window repeats, the position code is broken", class, L)
		}
		fset := token.NewFileSet()
		files := map[string]*c19File{}
		pass := w.newPass(files, fset)
		rep := reporting.NewReporter(pass, nil) // one reporter per (L, class): its line cache holds all the files below
		for _, lay := range c19Layouts {
			for v := 0; v < variants; v++ {
				if lay.name == "only" && v >= 2 {
					continue // no neighbours: variants 0/1 differ in the final newline only
				}
				lines := c19BuildLines(func(m byte) string { return c19Line(class, L, m) }, lay, v)
				// variant 1: no newline after the last line (when that line is not empty)
				finalNL := !(v == 1 && lines[len(lines)-1] != "")
				content := c19JoinLines(lines, finalNL)
				f := &c19File{name: fmt.Sprintf("/src/%s_%s_%d_v%d.go", class, lay.name, L, v), layout: lay, variant: v, served: []byte(content)}
				f.truth = c19Split(content)
				f.tf = c19AddFile(fset, f.name, content)
				files[f.name] = f
				diag := lines[lay.D-1]
				special := strings.ContainsRune(diag, '\t') || len(diag) != utf8.RuneCountInString(diag)
				for col := 1; col <= L+1; col++ {
					c := &c19Case{f: f, class: class, L: L, col: col, D: lay.D, kind: "normal", line: diag, special: special}
					if col <= L && !utf8.RuneStart(diag[col-1]) {
						c.midRune = true
						w.counts["columns_inside_a_rune_not_judged_for_caret"]++
					}
					w.eval(rep, pass, c)
				}
			}
		}
	}
}

// degraded enumerates the inputs of clause 5.
func (w *c19Worker) degraded() {
	diagLens := []int{0, 50, 250}
	colsOf := func(L int) []int {
		s := map[int]bool{1: true, L + 1: true, L/2 + 1: true}
		if L > 198 {
			s[198] = true
		}
		var out []int
		for c := range s {
			out = append(out, c)
		}
		sort.Ints(out)
		return out
	}
	// (a) unreadable file, (b) empty file: every layout x variant 0
	for _, kind := range []string{"unreadable", "empty-file"} {
		for _, lay := range c19Layouts {
			for _, L := range diagLens {
				fset := token.NewFileSet()
				files := map[string]*c19File{}
				pass := w.newPass(files, fset)
				rep := reporting.NewReporter(pass, nil)
				lines := c19BuildLines(func(m byte) string { return c19Line("ascii", L, m) }, lay, 0)
				claimed := c19JoinLines(lines, true)
				f := &c19File{name: fmt.Sprintf("/src/%s_%s_%d.go", kind, lay.name, L), layout: lay}
				if kind == "unreadable" {
					f.readErr = errors.New("open: permission denied")
				} else {
					f.served = []byte{}
				}
				f.tf = c19AddFile(fset, f.name, claimed)
				files[f.name] = f
				for _, col := range colsOf(L) {
					w.eval(rep, pass, &c19Case{f: f, class: "ascii", L: L, col: col, D: lay.D, kind: kind, allowNone: true})
				}
			}
		}
	}
	// (c) the file on disk has n lines, the diagnostic is on line n+k
	for n := 1; n <= 6; n++ {
		for k := 1; k <= 4; k++ {
			for _, L := range diagLens {
				for _, finalNL := range []bool{true, false} {
					fset := token.NewFileSet()
					files := map[string]*c19File{}
					pass := w.newPass(files, fset)
					rep := reporting.NewReporter(pass, nil)
					lay := c19Layout{fmt.Sprintf("short%d+%d", n, k), n + k, n + k + 1}
					lines := c19BuildLines(func(m byte) string { return c19Line("ascii", L, m) }, lay, 1)
					claimed := c19JoinLines(lines, true)
					served := c19JoinLines(lines[:n], finalNL)
					if served == "" {
						continue
					}
					f := &c19File{name: fmt.Sprintf("/src/short_%d_%d_%d_%v.go", n, k, L, finalNL), layout: lay, served: []byte(served), truth: c19Split(served)}
					f.tf = c19AddFile(fset, f.name, claimed)
					files[f.name] = f
					for _, col := range colsOf(L) {
						w.eval(rep, pass, &c19Case{f: f, class: "ascii", L: L, col: col, D: lay.D, kind: "short-file", allowNone: true})
					}
				}
			}
		}
	}
	// (d) a 70 000-byte line at line j of the file; diagnostics on it and around it
	long := func(m byte) string { return string(c19Coded(m, c19LongLine, 3)) }
	if !c19WindowsUnique(long('D')) {
		common.Fatalf("c19: the 70000-byte line is not position-coded")
	}
	for _, jn := range [][2]int{{1, 1}, {1, 4}, {3, 6}, {6, 6}, {4, 4}} {
		j, N := jn[0], jn[1]
		for D := j - 2; D <= j+3; D++ {
			if D < 1 || D > N {
				continue
			}
			fset := token.NewFileSet()
			files := map[string]*c19File{}
			pass := w.newPass(files, fset)
			rep := reporting.NewReporter(pass, nil)
			lines := make([]string, N)
			for i := range lines {
				lines[i] = string(c19Coded(c19Marker(i), 30+i, 2))
			}
			lines[j-1] = long(c19Marker(j - 1))
			content := c19JoinLines(lines, true)
			lay := c19Layout{fmt.Sprintf("long@%d/%d", j, N), D, N}
			f := &c19File{name: fmt.Sprintf("/src/long_%d_%d_%d.go", j, N, D), layout: lay, served: []byte(content), truth: c19Split(content)}
			f.tf = c19AddFile(fset, f.name, content)
			files[f.name] = f
			L := len(lines[D-1])
			cols := colsOf(L)
			if D == j {
				cols = append(cols, 100, 199, L-197, L-196, L)
				sort.Ints(cols)
			}
			for _, col := range cols {
				c := &c19Case{f: f, class: "ascii", L: L, col: col, D: D, kind: "overlong-line", line: lines[D-1]}
				switch {
				case D >= j:
					c.allowNone = true // the line reader cannot reach line D
				default:
					c.omitFrom = j // rows from the overlong line on may be absent
				}
				w.eval(rep, pass, c)
			}
		}
	}
}

// histories: ONE reporter renders a sequence of diagnostics in files of different kinds — readable (two of them, with
// different content on the same line numbers), unreadable, empty, shorter than the reported line — two diagnostics per
// element of the sequence. Every rendering is judged like a first one: whatever the reporter remembers from earlier
// diagnostics (line caches, buffers) must not show.
func (w *c19Worker) histories() {
	kinds := []string{"readable-a", "readable-b", "unreadable", "empty-file", "short-file"}
	var seqs [][]int
	var rec func(cur []int)
	rec = func(cur []int) {
		if len(cur) > 0 {
			seqs = append(seqs, append([]int(nil), cur...))
		}
		if len(cur) == 3 {
			return
		}
		for k := range kinds {
			rec(append(cur, k))
		}
	}
	rec(nil)
	lay := c19Layouts[3] // "middle": diagnostic on line 10 of 12
	for _, L := range []int{50, 250} {
		for _, sq := range seqs {
			fset := token.NewFileSet()
			files := map[string]*c19File{}
			pass := w.newPass(files, fset)
			rep := reporting.NewReporter(pass, nil)
			mk := map[int]*c19File{}
			for _, k := range sq {
				if mk[k] != nil {
					continue
				}
				variant := 0
				if kinds[k] == "readable-b" {
					variant = 2
				}
				lines := c19BuildLines(func(m byte) string { return c19Line("ascii", L, m) }, lay, variant)
				if kinds[k] == "readable-b" {
					for i := range lines { // other markers than readable-a on every line
						if i+1 == lay.D {
							lines[i] = c19Line("ascii", L, c19Marker(i+7))
						} else {
							lines[i] = string(c19Coded(c19Marker(i+7), len(lines[i]), 2))
						}
					}
				}
				content := c19JoinLines(lines, true)
				f := &c19File{name: fmt.Sprintf("/src/hist_%s_%d.go", kinds[k], L), layout: lay, variant: variant}
				switch kinds[k] {
				case "readable-a", "readable-b":
					f.served, f.truth = []byte(content), c19Split(content)
				case "unreadable":
					f.readErr = errors.New("open: no such file or directory")
				case "empty-file":
					f.served = []byte{}
				case "short-file":
					short := c19JoinLines(lines[:4], true)
					f.served, f.truth = []byte(short), c19Split(short)
				}
				f.tf = c19AddFile(fset, f.name, content)
				files[f.name] = f
				mk[k] = f
			}
			for step, k := range sq {
				f := mk[k]
				for _, col := range []int{1, L/2 + 1} {
					c := &c19Case{f: f, class: "ascii", L: L, col: col, D: lay.D, kind: "normal", note: fmt.Sprintf("history %v, step %d", sq, step)}
					switch kinds[k] {
					case "readable-a", "readable-b":
						c.line = f.truth[lay.D-1]
						c.L = len(c.line)
						if col > c.L+1 {
							continue
						}
					default:
						c.kind, c.allowNone = kinds[k], true
					}
					w.eval(rep, pass, c)
					w.counts["history_cases"]++
				}
			}
		}
	}
}

func c19Lengths(tier common.Tier) []int {
	var out []int
	for L := 0; L <= 3*c19Limit; L++ {
		if tier == "thorough" || L <= 260 || (L >= 395 && L <= 410) || L >= 595 {
			out = append(out, L)
		}
	}
	return out
}

func C19(tier common.Tier) int {
	run := common.NewRun("C19", tier, "model_checking")
	Ls := c19Lengths(tier)
	variants := 3
	bound := "line lengths L in {0..260, 395..410, 595..600}"
	if tier == "thorough" {
		bound = "all line lengths L = 0..600"
	}
	run.SetRule(
		"state = one call of reporting.NewReporter(pass,nil).ReportViolation on a hand-built analysis.Pass: (content class, line length L, byte column, layout of the file, neighbour variant), "+
			"enumerated exhaustively; plus every sequence of up to 3 files of the kinds {readable a, readable b, unreadable, empty, shorter than the reported line} rendered by ONE reporter, two diagnostics per element, each judged like a first rendering (what the reporter remembers of earlier diagnostics must not show); the diagnostic line and every neighbour are position-coded (every 5-byte window of a line is unique and carries the line's own marker letter), the message given to "+
			"Pass.Report is parsed and each numbered row is located in its source line by search; caret and character are compared by display cell after tab expansion (tab stops every 8 cells, one cell per rune or invalid byte). "+
			"A case is non-trivial when the diagnostic line is longer than the display limit (needs truncation) or contains tabs or multi-byte characters, or when the input is degraded; "+
			"distinct = distinct (class, L, column) for regular inputs (layout and neighbour variant are not counted as distinct), distinct (kind, file, line, column) for degraded ones.",
		bound+" x all byte columns 1..L+1 x classes {ascii, tabfront, tabmid, mbfront, mbcut} x layouts {only 1/1, first 1/4, second 2/5, middle 10/12, last 100/100} x 3 neighbour-length rotations of {0,50,400} "+
			"(variant 1 also drops the final newline); plus degraded inputs: unreadable file, empty file, file of n=1..6 lines with the diagnostic on line n+1..n+4, a 70000-byte line at 5 places with diagnostics on and around it; "+
			"plus position-adjusted diagnostics (token.File.AddLineColumnInfo as go/scanner records //line directives): named file {another served file with its own position-coded lines, a name ReadFile does not serve, the same file} "+
			"x named line {first, second, inner, last, one past the end, far past the end} x form {//line f:L (column unknown), //line f:L:1, /*line f:L:C*/ inside the line with C in {1,100}} x diagnostic on the directive's line or the next x 16 columns covering head/middle/tail regimes of 0/30/450-byte named lines")
	run.Assume(
		"display limit = 200 bytes (reporting.MaxLineLength at the time of writing); ellipsis marker = \"...\"; source lines contain no '.'",
		"terminal model: tab stops every 8 cells counted from the start of the output line, every generated rune is one cell wide (ASCII and U+00E9), an invalid byte left by a cut is one cell",
		"columns are go/token byte columns; go/token is trusted, including FileSet.Position for //line-adjusted positions: the file, line and column 'the diagnostic names' are Position(pos).Filename/Line/Column, as every driver prints them",
		"excerpt window = 2 lines before and 1 after the diagnostic line, clamped to the file (reporter.go: readSourceLines(..., 2, 1))")
	run.NotJudged(
		"columns that point into the middle of a multi-byte character (never produced by go/token for a token start): containment and caret not judged, frame/rows/length are",
		"column L+1 (just past the end of the line): the caret may stand under the last character or in the cell after it",
		"a cut that splits a two-byte rune (also the rune at the reported column): counted in coverage.extra (rune_split_*), not judged - the statement speaks of bytes/characters shown, not of well-formed UTF-8 at the cut",
		"a neighbour line that bufio.Scanner cannot return (70000 bytes): the rows from that line on may be absent",
		"a line of 201..206 bytes shown in full would be accepted (within the limit plus markers)",
		"a leading/trailing ellipsis where nothing was omitted on that side is accepted",
		"position-adjusted diagnostics whose column go/token reports as 0 (//line f:L without column) or beyond the end of the named line (the physical column applied to a shorter named line): containment and caret not judged; which file, which rows, fragments and length are")
	if reporting.MaxLineLength != c19Limit {
		run.Assume(fmt.Sprintf("NOTE: reporting.MaxLineLength is now %d; the oracle keeps the statement's 200", reporting.MaxLineLength))
	}

	common.Sharded(run, common.NumWorkers(), func(run *common.Run, sh common.Shard) {
		w := &c19Worker{run: run, counts: map[string]int{}, nSamp: map[string]int{}}
		// longest lines first so that the shards end together
		for i := len(Ls) - 1; i >= 0; i-- {
			if sh.Mine(i) {
				w.sweepL(Ls[i], variants)
			}
		}
		if sh.I == 0 {
			w.degraded()
			w.adjusted()
			w.histories()
		}
		w.flush()
	})
	return run.Finish()
}

func init() { Register("C19", C19) }

package checks

// Systematic (never random) injection of annotations into real-world source text for C10.
// Only whole comment lines are inserted above a line whose first token is the annotated
// declaration / statement, and trailing comments are appended only where the rest of the line is
// blank — so the token stream of the file is unchanged and the package compiles exactly as before.

import (
	"bytes"
	"fmt"
	"go/ast"
	"go/parser"
	"go/token"
	"sort"
	"strings"
)

type c10Pattern struct {
	Name    string
	Types   bool // annotate type declarations and struct fields
	Funcs   bool // annotate functions and methods
	Parity  int  // -1 = every declaration, 0 = even-indexed, 1 = odd-indexed (index = position among the file's type specs and funcs)
	Ignores bool // @ignore comments at every block-starting statement, every third simple statement, file head and file end
}

// c10Patterns in the order they are run: the most comprehensive first, so that a run cut short
// by the time budget has covered the supersets.
var c10Patterns = []c10Pattern{
	{Name: "G", Types: true, Funcs: true, Ignores: true, Parity: -1},
	{Name: "C", Types: true, Funcs: true, Parity: -1},
	{Name: "D", Types: true, Funcs: true, Parity: 0},
	{Name: "E", Types: true, Funcs: true, Parity: 1},
	{Name: "A", Types: true, Parity: -1},
	{Name: "B", Funcs: true, Parity: -1},
	{Name: "F", Ignores: true, Parity: -1},
}

func c10PatternByName(n string) c10Pattern {
	for _, p := range c10Patterns {
		if p.Name == n {
			return p
		}
	}
	panic("no pattern " + n)
}

type c10InjectStats struct {
	Types, Fields, Funcs, Ignores, Skipped int
	Generic                                int // annotated generic types / functions / methods on generic receivers
}

func (s *c10InjectStats) add(o c10InjectStats) {
	s.Types += o.Types
	s.Fields += o.Fields
	s.Funcs += o.Funcs
	s.Ignores += o.Ignores
	s.Skipped += o.Skipped
	s.Generic += o.Generic
}

// c10LocalInterfaces returns the names of the first and the last interface type declared at top
// level in the files (in the order given), so that injected @implements annotations also name
// interfaces that exist and are compared method by method.
func c10LocalInterfaces(files map[string][]byte, order []string) []string {
	var names []string
	for _, fn := range order {
		f, err := parser.ParseFile(token.NewFileSet(), fn, files[fn], parser.SkipObjectResolution)
		if err != nil {
			continue
		}
		for _, d := range f.Decls {
			g, ok := d.(*ast.GenDecl)
			if !ok || g.Tok != token.TYPE {
				continue
			}
			for _, s := range g.Specs {
				ts := s.(*ast.TypeSpec)
				if _, ok := ts.Type.(*ast.InterfaceType); ok {
					names = append(names, ts.Name.Name)
				}
			}
		}
	}
	if len(names) <= 2 {
		return names
	}
	return []string{names[0], names[len(names)-1]}
}

// c10Inject returns src with the pattern's annotations inserted.
func c10Inject(filename string, src []byte, pat c10Pattern, ifaces []string) ([]byte, c10InjectStats, error) {
	var st c10InjectStats
	fset := token.NewFileSet()
	f, err := parser.ParseFile(fset, filename, src, parser.ParseComments|parser.SkipObjectResolution)
	if err != nil {
		return nil, st, err
	}
	tf := fset.File(f.Pos())
	lines := bytes.SplitAfter(src, []byte("\n"))
	above := map[int][]string{} // 1-based line -> comment lines inserted above it
	trail := map[int]string{}   // 1-based line -> comment appended to it

	lineText := func(line int) string {
		if line < 1 || line > len(lines) {
			return ""
		}
		return string(lines[line-1])
	}
	// firstOnLine: the token at pos is the first thing on its line; returns the line and its indentation
	firstOnLine := func(pos token.Pos) (int, string, bool) {
		p := fset.PositionFor(pos, false)
		t := lineText(p.Line)
		if p.Column-1 > len(t) {
			return 0, "", false
		}
		ind := t[:p.Column-1]
		if strings.TrimLeft(ind, " \t") != "" {
			return 0, "", false
		}
		return p.Line, ind, true
	}
	// lastOnLine: nothing but blanks follows end on its line
	lastOnLine := func(end token.Pos) (int, bool) {
		p := fset.PositionFor(end, false)
		t := lineText(p.Line)
		if p.Column-1 > len(t) {
			return 0, false
		}
		if strings.TrimSpace(t[p.Column-1:]) != "" {
			return 0, false
		}
		return p.Line, true
	}
	insert := func(pos token.Pos, comments ...string) bool {
		line, ind, ok := firstOnLine(pos)
		if !ok {
			st.Skipped++
			return false
		}
		for _, c := range comments {
			above[line] = append(above[line], ind+c)
		}
		return true
	}

	typeLines := []string{"// @immutable", "// @constructor New,Make", "// @testonly", "// @packageonly x",
		"// @implements io.Reader", "// @implements &Stringer"}
	for _, n := range ifaces {
		typeLines = append(typeLines, "// @implements &"+n)
	}
	funcLines := []string{"// @testonly", "// @packageonly x"}

	idx := -1
	want := func() bool {
		idx++
		return pat.Parity < 0 || idx%2 == pat.Parity
	}
	for _, d := range f.Decls {
		switch d := d.(type) {
		case *ast.GenDecl:
			if d.Tok != token.TYPE {
				continue
			}
			for _, s := range d.Specs {
				ts := s.(*ast.TypeSpec)
				if !want() || !pat.Types {
					continue
				}
				pos := d.Pos()
				if d.Lparen.IsValid() {
					pos = ts.Pos()
				}
				if !insert(pos, typeLines...) {
					continue
				}
				st.Types++
				if ts.TypeParams != nil {
					st.Generic++
				}
				if stt, ok := ts.Type.(*ast.StructType); ok && stt.Fields != nil {
					for _, fld := range stt.Fields.List {
						if insert(fld.Pos(), "// @mutable") {
							st.Fields++
						}
					}
				}
			}
		case *ast.FuncDecl:
			if !want() || !pat.Funcs {
				continue
			}
			if insert(d.Pos(), funcLines...) {
				st.Funcs++
				if d.Type.TypeParams != nil {
					st.Generic++
				} else if d.Recv != nil && len(d.Recv.List) == 1 {
					t := d.Recv.List[0].Type
					if se, ok := t.(*ast.StarExpr); ok {
						t = se.X
					}
					switch t.(type) {
					case *ast.IndexExpr, *ast.IndexListExpr:
						st.Generic++
					}
				}
			}
		}
	}

	if pat.Ignores {
		n := 0
		texts := []string{"// @ignore ALL", "// @ignore IMM01, CTOR"}
		simple := 0
		var visitList func(list []ast.Stmt)
		visitList = func(list []ast.Stmt) {
			for _, s := range list {
				switch s.(type) {
				case *ast.AssignStmt, *ast.ExprStmt, *ast.ReturnStmt, *ast.IncDecStmt:
					simple++
					if simple%3 == 0 {
						if line, ok := lastOnLine(s.End()); ok && trail[line] == "" {
							// not when the line already carries a comment: End() of a statement never includes one
							trail[line] = " // @ignore TONL, PKGO02"
							st.Ignores++
						}
					}
				}
			}
		}
		ast.Inspect(f, func(nd ast.Node) bool {
			switch s := nd.(type) {
			case *ast.BlockStmt:
				visitList(s.List)
			case *ast.CaseClause:
				visitList(s.Body)
			case *ast.CommClause:
				visitList(s.Body)
			}
			st0, ok := nd.(ast.Stmt)
			if !ok {
				return true
			}
			switch st0.(type) {
			case *ast.IfStmt, *ast.ForStmt, *ast.RangeStmt, *ast.SwitchStmt, *ast.TypeSwitchStmt, *ast.SelectStmt, *ast.BlockStmt:
				if _, isBody := nd.(*ast.BlockStmt); isBody {
					// only free-standing blocks start on their own line; bodies of func/if/for follow other tokens
					if _, _, ok := firstOnLine(nd.Pos()); !ok {
						return true
					}
				}
				if line, ind, ok := firstOnLine(st0.Pos()); ok {
					above[line] = append(above[line], ind+texts[n%2])
					n++
					st.Ignores++
				}
			}
			return true
		})
		// file-level @ignore directly above the package clause, and one after the last node
		if line, ind, ok := firstOnLine(f.Package); ok {
			above[line] = append(above[line], ind+"// @ignore TONL03")
			st.Ignores++
		}
	}

	// a trailing comment must not be appended to a line that already ends in a comment, and no
	// line inside a raw string or block comment may be touched: both are excluded because
	// insertion points are token starts / statement ends on lines checked above, except that a
	// statement may end where a comment follows — lastOnLine rejects those (non-blank rest).
	var out bytes.Buffer
	for i, l := range lines {
		ln := i + 1
		for _, c := range above[ln] {
			out.WriteString(c)
			out.WriteByte('\n')
		}
		if t, ok := trail[ln]; ok {
			body := strings.TrimRight(string(l), "\r\n")
			eol := string(l[len(body):])
			out.WriteString(body + t + eol)
			if eol == "" {
				out.WriteByte('\n')
			}
			continue
		}
		out.Write(l)
	}
	if pat.Ignores {
		if b := out.Bytes(); len(b) > 0 && b[len(b)-1] != '\n' {
			out.WriteByte('\n')
		}
		out.WriteString("\n// @ignore CTOR\n")
		st.Ignores++
	}
	_ = tf

	// the token stream must be unchanged
	if err := c10SameTokens(filename, src, out.Bytes()); err != nil {
		return nil, st, err
	}
	return out.Bytes(), st, nil
}

// c10SameTokens verifies that two sources have the same declarations by comparing the sequence
// of non-comment AST node kinds and identifier names; an injected comment must change nothing else.
func c10SameTokens(filename string, a, b []byte) error {
	sig := func(src []byte) (string, error) {
		fs := token.NewFileSet()
		f, err := parser.ParseFile(fs, filename, src, parser.SkipObjectResolution)
		if err != nil {
			return "", err
		}
		var sb strings.Builder
		ast.Inspect(f, func(n ast.Node) bool {
			switch n := n.(type) {
			case nil:
				sb.WriteByte(')')
			case *ast.Ident:
				sb.WriteString(n.Name + "(")
			case *ast.BasicLit:
				sb.WriteString(n.Value + "(")
			default:
				fmt.Fprintf(&sb, "%T(", n)
			}
			return true
		})
		return sb.String(), nil
	}
	sa, err := sig(a)
	if err != nil {
		return fmt.Errorf("original does not parse: %v", err)
	}
	sb, err := sig(b)
	if err != nil {
		return fmt.Errorf("injected text does not parse: %v", err)
	}
	if sa != sb {
		return fmt.Errorf("injection changed the syntax tree of %s", filename)
	}
	return nil
}

// c10InjectPkgFiles injects all files of one package (contents given by read) and returns the
// new contents keyed by file name.
func c10InjectPkgFiles(files []string, read func(string) ([]byte, error), pat c10Pattern) (map[string][]byte, c10InjectStats, error) {
	var st c10InjectStats
	src := map[string][]byte{}
	order := append([]string(nil), files...)
	sort.Strings(order)
	for _, fn := range order {
		b, err := read(fn)
		if err != nil {
			return nil, st, err
		}
		src[fn] = b
	}
	ifaces := c10LocalInterfaces(src, order)
	out := map[string][]byte{}
	for _, fn := range order {
		nb, s, err := c10Inject(fn, src[fn], pat, ifaces)
		if err != nil {
			return nil, st, fmt.Errorf("%s: %v", fn, err)
		}
		st.add(s)
		out[fn] = nb
	}
	return out, st, nil
}

// Package checks holds one file per property; each registers itself in Table from init().
package checks

import "verif/mc/internal/common"

var Table = map[string]func(common.Tier) int{}

func Register(id string, f func(common.Tier) int) { Table[id] = f }

package checks

// The near-miss program space of C09: a declaring package d and a using package u with would-be
// violations of every kind, and one comment that is almost — but by the property's wording not —
// an annotation, attached at one site.

import (
	"fmt"
	"strings"

	"verif/mc/internal/prog"
)

// c09Arg is the plausible argument that follows each keyword.
var c09Arg = map[string]string{
	"immutable": "", "constructor": " New", "testonly": "", "packageonly": " x",
	"implements": " &Stringer", "mutable": "", "ignore": " ALL",
}

type c09Form struct {
	Name string
	Make func(kw, arg string) string
}

// c09Forms are the near-miss spellings. None of them starts, after the slashes and blanks, with
// an at sign directly followed by the lowercase keyword as a whole word.
var c09Forms = []c09Form{
	{"mid-sentence", func(k, a string) string { return "// uses @" + k + a + " here" }},
	{"block-comment", func(k, a string) string { return "/* @" + k + a + " */" }},
	{"capitalised", func(k, a string) string { return "//@" + strings.ToUpper(k[:1]) + k[1:] + a }},
	{"upper-case", func(k, a string) string { return "// @" + strings.ToUpper(k) + a }},
	{"longer-word", func(k, a string) string { return "// @" + k + "x" + a }},
	{"truncated", func(k, a string) string { return "// @" + k[:len(k)-1] + a }},
	{"no-at-sign", func(k, a string) string { return "// " + k + a }},
	{"blank-after-at", func(k, a string) string { return "// @ " + k + a }},
	{"double-at", func(k, a string) string { return "//@@" + k + a }},
	{"dash-before-at", func(k, a string) string { return "// -@" + k + a }},
	{"nbsp-before-at", func(k, a string) string { return "//\u00a0@" + k + a }},
	{"vtab-before-at", func(k, a string) string { return "//\v@" + k + a }},
	// commented-out annotations: the keyword follows a SECOND comment marker inside the line
	{"commented-out", func(k, a string) string { return "// // @" + k + a }},
	{"quadruple-slash", func(k, a string) string { return "//// @" + k + a }},
	{"was-annotation", func(k, a string) string { return "// was: // @" + k + a + " (removed)" }},
	{"quoted", func(k, a string) string { return "// \"// @" + k + a + "\" is the syntax" }},
	{"after-colon", func(k, a string) string { return "// TODO: @" + k + a }},
	// the keyword as a quoted word or a code span at the start of the line
	{"double-quoted-keyword", func(k, a string) string { return "// \"@" + k + "\"" + a + " is deliberately not applied here" }},
	{"backquoted-keyword", func(k, a string) string { return "// `@" + k + "`" + a + " would be too strict" }},
	{"single-quoted-keyword", func(k, a string) string { return "// '@" + k + "'" + a }},
	// the keyword in another letter case at the start, and the lowercase keyword mentioned later in the same line
	{"capitalised-then-mention", func(k, a string) string {
		return "// @" + strings.ToUpper(k[:1]) + k[1:] + a + " is how the wiki spells it, the tool only knows @" + k + a
	}},
	{"upper-case-then-mention", func(k, a string) string { return "//@" + strings.ToUpper(k) + a + " (see @" + k + ")" }},
	{"mention-then-keyword-in-word", func(k, a string) string { return "// see @" + k + a + "; x@" + k + a }},
	// another, unknown @tag first, the keyword right after it
	{"other-tag-then-keyword", func(k, a string) string { return "// @todo @" + k + a + " once the loader stops patching it" }},
	{"two-other-tags-then-keyword", func(k, a string) string { return "//@see @since @" + k + a }},
	// a block comment one of whose LINES looks like an annotation comment (a quoted usage snippet)
	{"block-with-annotation-line", func(k, a string) string { return "/*\n// @" + k + a + "\n*/" }},
	{"block-with-indented-annotation-line", func(k, a string) string { return "/* usage:\n\t// @" + k + a + "\n   more prose */" }},
	{"block-with-bare-keyword-line", func(k, a string) string { return "/*\n@" + k + a + "\n*/" }},
}

// c09Site is one attachment site. TopLevelDoc says whether a comment placed there is a doc
// comment of a top-level declaration (where a well-formed annotation would put the program out
// of the property's scope).
type c09Site struct {
	Name        string
	Group       bool // the type is declared inside a parenthesised group
	TopLevelDoc bool
}

var c09Sites = []c09Site{
	{"doc-lone-type", false, true},
	{"doc-spec-in-group", true, true},
	{"doc-of-group", true, true},
	{"doc-func", false, true},
	{"doc-method", false, true},
	{"doc-var", false, true},
	{"doc-const", false, true},
	{"doc-struct-field", false, false},
	{"doc-local-type", false, false},
	// members nested INSIDE a top-level type: their doc comments are not doc comments of a top-level declaration
	{"doc-interface-method", false, false},
	{"trailing-interface-method", false, false},
	{"doc-func-typed-field", false, false},
	{"trailing-type", false, false},
	{"trailing-spec-in-group", true, false},
	{"trailing-func", false, false},
	{"trailing-field", false, false},
	{"trailing-local-type", false, false},
	{"trailing-var", false, false},
	{"detached-before-type", false, false},
	{"detached-before-func", false, false},
	// the declaration's own doc comment consists of compiler directives only; the comment stands detached above it
	{"detached-before-type-with-directive-doc", false, false},
	{"detached-before-func-with-directive-doc", false, false},
	{"file-header-detached", false, false},
	{"package-doc", false, false},
	{"inside-func-body", false, false},
	{"end-of-file", false, false},
}

// c09Place says where in its comment group the salted line stands.
var c09Places = []string{"solo", "after-text", "before-text"}

// c09Program renders the two packages with comment c at site s. place only matters for sites
// that take whole lines.
func c09Program(s c09Site, place string, c string) *prog.Program {
	slot := map[string]string{}
	lines := func(indent string) string {
		switch place {
		case "after-text":
			return indent + "// Ordinary documentation first.\n" + indent + c + "\n"
		case "before-text":
			return indent + c + "\n" + indent + "// Ordinary documentation afterwards.\n"
		}
		return indent + c + "\n"
	}
	switch s.Name {
	case "doc-lone-type", "doc-spec-in-group":
		slot["typeDoc"] = lines(map[bool]string{false: "", true: "\t"}[s.Group])
	case "doc-of-group":
		slot["groupDoc"] = lines("")
	case "doc-func":
		slot["funcDoc"] = lines("")
	case "doc-method":
		slot["methDoc"] = lines("")
	case "doc-var":
		slot["varDoc"] = lines("")
	case "doc-const":
		slot["constDoc"] = lines("")
	case "doc-struct-field":
		slot["fieldDoc"] = lines(map[bool]string{false: "\t", true: "\t\t"}[s.Group])
	case "doc-local-type":
		slot["localDoc"] = lines("\t")
	case "doc-interface-method":
		slot["imethDoc"] = lines("\t")
	case "trailing-interface-method":
		slot["imethTrail"] = " " + c
	case "doc-func-typed-field":
		slot["fnDoc"] = lines(map[bool]string{false: "\t", true: "\t\t"}[s.Group])
	case "trailing-type", "trailing-spec-in-group":
		slot["typeTrail"] = " " + c
	case "trailing-func":
		slot["funcTrail"] = " " + c
	case "trailing-field":
		slot["fieldTrail"] = " " + c
	case "trailing-local-type":
		slot["localTrail"] = " " + c
	case "trailing-var":
		slot["varTrail"] = " " + c
	case "detached-before-type":
		slot["typeDetached"] = lines("") + "\n"
	case "detached-before-func":
		slot["funcDetached"] = lines("") + "\n"
	case "detached-before-type-with-directive-doc":
		slot["typeDetached"] = lines("") + "\n"
		slot["typeDoc"] = "//go:generate echo generated\n"
	case "detached-before-func-with-directive-doc":
		slot["funcDetached"] = lines("") + "\n"
		slot["funcDoc"] = "//go:noinline\n"
	case "file-header-detached":
		slot["header"] = lines("") + "\n"
	case "package-doc":
		slot["header"] = lines("")
	case "inside-func-body":
		slot["body"] = lines("\t")
	case "end-of-file":
		slot["eof"] = "\n" + lines("")
	default:
		panic("unknown site " + s.Name)
	}

	var typeDecl string
	if s.Group {
		typeDecl = slot["groupDoc"] + "type (\n" +
			"\t// Other is an unrelated type of the same group.\n\tOther int\n\n" +
			slot["typeDoc"] + "\tT struct {\n" + slot["fieldDoc"] + "\t\tF int" + slot["fieldTrail"] + "\n\t\tS []int\n" + slot["fnDoc"] + "\t\tFn func() int\n\t}" + slot["typeTrail"] + "\n)\n"
	} else {
		typeDecl = slot["typeDetached"] + slot["typeDoc"] + "type T struct {\n" + slot["fieldDoc"] + "\tF int" + slot["fieldTrail"] + "\n\tS []int\n" + slot["fnDoc"] + "\tFn func() int\n}" + slot["typeTrail"] + "\n"
	}

	d := slot["header"] + "package d\n\n" +
		slot["constDoc"] + "const K = 1\n\n" +
		slot["varDoc"] + "var V int" + slot["varTrail"] + "\n\n" +
		"// Stringer is an interface that T does not implement.\ntype Stringer interface{ String() string }\n\n" +
		typeDecl + "\n" +
		"// Doer is implemented by *T; its method is called through the interface below and in u.\ntype Doer interface {\n" + slot["imethDoc"] + "\tDo() int" + slot["imethTrail"] + "\n}\n\n" +
		"func (t *T) Do() int { return t.F }\n\n" +
		"func NewT() *T { return &T{S: make([]int, 1)} }\n\n" +
		slot["funcDetached"] + slot["funcDoc"] + "func Helper() int { return 1 }" + slot["funcTrail"] + "\n\n" +
		slot["methDoc"] + "func (t *T) Get() int { return t.F }\n\n" +
		"func local() int {\n" +
		slot["localDoc"] + "\ttype L struct{ F int }" + slot["localTrail"] + "\n" +
		"\tvar l L\n\tl.F = 1\n\tl.F++\n\tl.F += 2\n\t_ = L{}\n\t_ = new(L)\n\treturn l.F\n}\n\n" +
		// the same comment on a function-local type that has the NAME of the package-level type T
		"func local2() int {\n" +
		slot["localDoc"] + "\ttype T struct{ F int }" + slot["localTrail"] + "\n" +
		"\tvar l T\n\tl.F = 1\n\tl.F++\n\t_ = T{}\n\t_ = new(T)\n\treturn l.F\n}\n\n" +
		"var _ = local2\n\n" +
		"func useInD() int {\n" + slot["body"] +
		"\tt := T{S: make([]int, 1)}\n\tt.F = 1\n\tt.F += 2\n\tt.F++\n\tt.S[0] = 1\n\tp := new(T)\n\tvar z T\n\t_ = z\n\tvar dr Doer = p\n\tif t.Fn != nil {\n\t\t_ = t.Fn()\n\t}\n\treturn Helper() + p.Get() + t.Get() + local() + dr.Do()\n}\n\n" +
		"var _ = useInD\n" + slot["eof"]

	u := "package u\n\nimport \"ex.com/m/d\"\n\n" +
		"type Holder struct{ X d.T }\n\n" +
		"func Use(p *d.T, h Holder) (d.T, int) {\n" +
		"\tvar x d.T\n\tx.F = 1\n\tx.F += 1\n\tx.F++\n\tx.S = make([]int, 1)\n\tx.S[0] = 2\n\tp.F = 3\n\th.X.F = 4\n" +
		"\ty := d.T{F: 1}\n\tz := new(d.T)\n\tw := &d.T{}\n" +
		"\tn := d.Helper() + y.Get() + z.Get() + x.Get() + w.Get()\n\tf := d.Helper\n\tg := (*d.T).Get\n\tvar s d.Stringer\n\t_ = s\n\tvar dr d.Doer = p\n\tif x.Fn != nil {\n\t\tn += x.Fn()\n\t}\n" +
		"\treturn x, n + f() + g(p) + d.K + d.V + dr.Do()\n}\n\n" +
		"var G = d.T{}\n\nvar H d.T\n\nvar _ = func() int { H.F = 1; return d.Helper() }()\n"

	ut := "package u\n\nimport \"ex.com/m/d\"\n\n" +
		"func useInTest() int {\n\tvar x d.T\n\tx.F = 9\n\ty := d.T{}\n\treturn d.Helper() + x.Get() + y.Get()\n}\n\nvar _ = useInTest\n"

	return &prog.Program{Pkgs: []prog.Pkg{
		{Path: "ex.com/m/d", Files: []prog.File{{Name: "d.go", Src: d}}},
		{Path: "ex.com/m/u", Files: []prog.File{{Name: "u.go", Src: u}, {Name: "u_test.go", Src: ut}}},
	}}
}

// c09TakesLines reports whether the site holds whole comment lines (so that the place in the
// group can vary); trailing sites hold exactly one comment.
func c09TakesLines(s c09Site) bool { return !strings.HasPrefix(s.Name, "trailing-") }

// c09SelfCheck runs the independent pre-scan over a generated program: no doc comment of a
// top-level declaration may start with a keyword. A failure is a generator bug.
func c09SelfCheck(p *prog.Program) error {
	res := &c09ScanResult{}
	for _, pk := range p.Pkgs {
		for _, f := range pk.Files {
			if err := c09ScanSource(pk.Path+"/"+f.Name, []byte(f.Src), res); err != nil {
				return err
			}
		}
	}
	if len(res.TopLevelDocHits) > 0 {
		return fmt.Errorf("program is outside the property's scope: %v", res.TopLevelDocHits)
	}
	return nil
}

// c09Categories maps a keyword to the diagnostic code prefix a real annotation of that keyword
// must produce on the generated program (positive control); "" = the keyword only suppresses.
var c09Categories = map[string]string{
	"immutable": "IMM", "constructor": "CTOR", "testonly": "TONL", "packageonly": "PKGO", "implements": "IMPL",
}

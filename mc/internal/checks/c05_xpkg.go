package checks

// C05, family "xpkg": methods promoted across package boundaries.
//
// Grid: (package of the interface, package of the embedded base) × interface method names
// {exported only, unexported only, both} × receiver kinds of the base's exported / unexported
// method {value, pointer}² × embedding form {B, *B, two levels, embedded interface} × {plain, &}.
// The annotated type always lives in package p; "the annotated type lives in the declaring
// package" is the (p, p) cell, "another package" the (a, a) cell, where the unexported method of
// the interface can only be satisfied through promotion; the mixed cells (a/p, p/a, a/b) are the
// ones in which a same-named unexported method of the wrong package must not satisfy it.

import (
	"fmt"
	"strings"
)

// c05XBases is appended to helper packages a and b: one base type per combination of receiver
// kinds of its exported method M and its unexported method seal.
const c05XBases = `type BaseVV struct{}
func (BaseVV) M() {}
func (BaseVV) seal() {}
type BaseVP struct{}
func (BaseVP) M() {}
func (*BaseVP) seal() {}
type BasePV struct{}
func (*BasePV) M() {}
func (BasePV) seal() {}
type BasePP struct{}
func (*BasePP) M() {}
func (*BasePP) seal() {}
`

func c05XpkgCases() []*c05Case {
	type place struct{ name, ifacePkg, basePkg string } // "p" = the annotated type's own package
	places := []place{
		{"iface=a,base=a", "a", "a"},
		{"iface=p,base=p", "p", "p"},
		{"iface=a,base=p", "a", "p"},
		{"iface=p,base=a", "p", "a"},
		{"iface=a,base=b", "a", "b"},
		{"iface=p-embeds-a,base=a", "p+a", "a"},
		{"iface=p-embeds-a,base=p", "p+a", "p"},
	}
	type ikind struct{ name, foreign, body string }
	ikinds := []ikind{
		{"exported-only", "Open", "M()"},
		{"unexported-only", "SealedU", "seal()"},
		{"both", "Sealed", "M(); seal()"},
	}
	recvs := []string{"VV", "VP", "PV", "PP"} // receiver kind of M, of seal
	forms := []string{"B", "*B", "E{*B}", "*E{B}", "iface"}
	star := func(k byte) string {
		if k == 'P' {
			return "*"
		}
		return ""
	}
	var out []*c05Case
	for _, pl := range places {
		for _, ik := range ikinds {
			for _, form := range forms {
				for _, rk := range recvs {
					if form == "iface" && rk != "VV" {
						continue // an embedded interface has no receiver kinds
					}
					for _, amp := range []bool{false, true} {
						var pre strings.Builder
						// the interface named by the annotation
						ann := c05Ann{Amp: amp}
						switch pl.ifacePkg {
						case "a":
							ann.Qual, ann.Name = "a", ik.foreign
						case "p":
							fmt.Fprintf(&pre, "type S§ interface { %s }\n", ik.body)
							ann.Name = "S§"
						case "p+a":
							fmt.Fprintf(&pre, "type S§ interface{ a.%s }\n", ik.foreign)
							ann.Name = "S§"
						}
						// what is embedded
						var base string
						if form == "iface" {
							switch pl.basePkg {
							case "a":
								base = "a.Sealed"
							case "b":
								continue // package b declares no sealed interface
							case "p":
								pre.WriteString("type K§ interface { M(); seal() }\n")
								base = "K§"
							}
						} else {
							switch pl.basePkg {
							case "a":
								base = "a.Base" + rk
							case "b":
								base = "al.Base" + rk
							case "p":
								fmt.Fprintf(&pre, "type B§ struct{}\nfunc (%sB§) M() {}\nfunc (%sB§) seal() {}\n", star(rk[0]), star(rk[1]))
								base = "B§"
							}
						}
						var decl string
						switch form {
						case "B", "iface":
							decl = "type T§ struct{ " + base + " }"
						case "*B":
							decl = "type T§ struct{ *" + base + " }"
						case "E{*B}":
							fmt.Fprintf(&pre, "type E§ struct{ *%s }\n", base)
							decl = "type T§ struct{ E§ }"
						case "*E{B}":
							fmt.Fprintf(&pre, "type E§ struct{ %s }\n", base)
							decl = "type T§ struct{ *E§ }"
						}
						// structural cause: the interface has an unexported method and the only
						// same-named method in T's method set is promoted from another package
						cause := "-"
						if ik.name != "exported-only" && pl.basePkg != "p" {
							cause = "unexported-promoted-from-other-package"
						}
						out = append(out, &c05Case{
							Fam:      "xpkg",
							Coord:    fmt.Sprintf("%s|methods=%s|embed=%s|recv=%s|amp=%s", pl.name, ik.name, form, rk, c05B(amp)),
							Cause:    cause,
							FileKey:  "default",
							Imports:  c05DefaultImports,
							Pre:      pre.String(),
							TypeDecl: decl,
							Anns:     []c05Ann{ann},
						})
					}
				}
			}
		}
	}
	return out
}

//go:build verif

package checks

import "github.com/a14e/gogreement/src/analyzer"

// resetConfig calls the one hook the harness adds to the repository (overlay file
// hooks/analyzer/zz_verif_reset.go, build tag verif). Only C08, C09 and C10 need it; check.sh
// builds every other check without the tag, so that a tree on which the hook no longer compiles
// still gets all the checks that do not depend on it.
func resetConfig() { analyzer.VerifResetConfig() }

const hookBuild = true

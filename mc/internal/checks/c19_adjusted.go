package checks

// C19, position-adjusted diagnostics: the position of the violation lies behind a //line (or
// /*line*/) directive, so FileSet.Position names another file / line / column than the physical
// ones. "The excerpt line numbered like the diagnostic shows that source line" then speaks of the
// file and line the diagnostic names: the row numbered N must be line N of Position(pos).Filename
// as pass.ReadFile serves it; when that file or line is not available there is no excerpt. The
// physical file and the named file carry different marker letters on every line, so a row taken
// from the wrong file or the wrong line is not a fragment of the expected one.

import (
	"errors"
	"fmt"
	"go/token"
	"strings"

	"github.com/a14e/gogreement/src/reporting"
)

type c19AdjTarget struct {
	kind  string // evidence kind
	file  string // name given in the directive
	lines []int  // line numbers given in the directive
}

// c19AdjLines builds a file whose line lengths cycle through the interesting cases; line i
// (0-based) carries marker c19Marker(i+shift).
func c19AdjLines(lens []int, shift int) []string {
	out := make([]string, len(lens))
	for i, n := range lens {
		out[i] = string(c19Coded(c19Marker(i+shift), n, 2))
	}
	return out
}

func (w *c19Worker) adjusted() {
	const (
		physName  = "/src/adj_phys.go"
		otherName = "/src/adj_other.go"
		tmplName  = "point.tmpl"
		pd        = 5  // physical line the directive takes effect on (1-based)
		inlineAt  = 20 // byte offset of the end of a /*line*/ comment inside line pd
	)
	// physical file: 10 lines; lines pd and pd+1 (where the diagnostics are) are 460 bytes long
	physLines := c19AdjLines([]int{450, 30, 0, 50, 460, 460, 450, 30, 450, 50}, 0)
	// the other file: 12 lines, markers shifted by 13 so that line N differs from the physical line N
	otherLines := c19AdjLines([]int{450, 30, 0, 50, 50, 450, 30, 50, 450, 50, 30, 450}, 13)
	physContent := c19JoinLines(physLines, true)
	otherContent := c19JoinLines(otherLines, true)
	served := map[string][]string{physName: physLines, otherName: otherLines}

	targets := []c19AdjTarget{
		{"adjusted-other-file", otherName, []int{1, 2, 3, 6, 7, 11, 12, 13, 40}},
		{"adjusted-unserved-file", tmplName, []int{1, 3}},
		{"adjusted-same-file", physName, []int{1, 2, 3, 4, 7, 8, 9, 10, 11, 40}},
	}
	type form struct {
		name   string
		inline bool
		col    int // column recorded with the directive (0 = unknown)
	}
	forms := []form{
		{"//line f:L", false, 0},
		{"//line f:L:1", false, 1},
		{"/*line f:L:1*/", true, 1},
		{"/*line f:L:100*/", true, 100},
	}
	// columns the diagnostic should name (when the form carries a column): both sides of every
	// regime boundary of a 450-byte line, the ends of a 30-byte line, the ends of a 460-byte line
	wantCols := []int{1, 10, 29, 30, 31, 197, 198, 199, 225, 253, 254, 255, 450, 451, 460, 461}

	for _, tg := range targets {
		for _, namedLine := range tg.lines {
			for _, fm := range forms {
				fset := token.NewFileSet()
				files := map[string]*c19File{
					physName:  {name: physName, served: []byte(physContent)},
					otherName: {name: otherName, served: []byte(otherContent)},
					tmplName:  {name: tmplName, readErr: errors.New("file not among the files of the package")},
				}
				pass := w.newPass(files, fset)
				tf := c19AddFile(fset, physName, physContent)
				base := int(tf.LineStart(pd)) - tf.Base()
				dirOff := base
				if fm.inline {
					dirOff = base + inlineAt
				}
				// an empty file name in a directive means "the current file": go/scanner passes that name on
				tf.AddLineColumnInfo(dirOff, tg.file, namedLine, fm.col)
				rep := reporting.NewReporter(pass, nil)
				for d := 0; d <= 1; d++ {
					lineStart := int(tf.LineStart(pd+d)) - tf.Base()
					physLen := len(physLines[pd+d-1])
					seen := map[int]bool{}
					for _, wc := range wantCols {
						// physical offset at which go/token will report column wc (when a column is known)
						off := lineStart + wc - 1
						if fm.inline && d == 0 {
							off = dirOff + (wc - fm.col)
							if off < dirOff {
								continue
							}
						}
						if off > lineStart+physLen || seen[off] {
							continue
						}
						seen[off] = true
						pos := token.Pos(tf.Base() + off)
						named := fset.Position(pos) // what every driver prints: file:line:column
						truth := served[named.Filename]
						c := &c19Case{class: "adjusted", kind: tg.kind, pos: pos, D: named.Line, col: named.Column}
						c.note = fmt.Sprintf("physical %s:%d:%d, directive %s with f=%q L=%d taking effect at physical line %d offset %d; go/token names %s",
							physName, pd+d, off-lineStart+1, fm.name, tg.file, namedLine, pd, dirOff-base, named)
						c.f = &c19File{name: fmt.Sprintf("%s|%s|%d|d%d|off%d", tg.kind, fm.name, namedLine, d, off-lineStart),
							layout: c19Layout{name: "adj:" + strings.TrimPrefix(tg.kind, "adjusted-"), D: named.Line, N: len(truth)}, truth: truth}
						if named.Line >= 1 && named.Line <= len(truth) {
							c.line = truth[named.Line-1]
							c.L = len(c.line)
						} else {
							c.allowNone = true // the named file or line is not available: no excerpt
						}
						switch {
						case named.Column == 0:
							c.noColumn = "column-unknown"
							w.counts["adjusted_column_unknown_not_judged_for_caret"]++
						case named.Column > c.L+1:
							c.noColumn = "column-outside-named-line"
							w.counts["adjusted_column_outside_named_line_not_judged_for_caret"]++
						}
						w.eval(rep, pass, c)
					}
				}
			}
		}
	}
}

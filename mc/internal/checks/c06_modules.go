package checks

import (
	"fmt"
	"os"
	"path/filepath"
	"strings"

	"verif/mc/internal/common"
	"verif/mc/internal/drv"
	"verif/mc/internal/e4"
	"verif/mc/internal/prog"
)

// c06TwoModules: the declaring package lives in ANOTHER module, required at a version (and replaced by a directory,
// so that it resolves offline) — the layout of every real dependency. Its annotations must take effect in the
// importing module exactly as they do inside one module: the importer's want markers are the same as in the
// single-module fixtures. Both drivers, the whole module and single packages.
func c06TwoModules(run *common.Run, root string) {
	dep := &prog.Program{Pkgs: []prog.Pkg{{Path: "ex.com/dep/model", Files: []prog.File{{Name: "model.go", Src: `package model

// Account is immutable except for its cache, and only NewAccount may create it.
// @immutable
// @constructor NewAccount
type Account struct {
	ID int
	// @mutable
	Cache int
	Tags  []string
}

func NewAccount() *Account { return &Account{} }

// Fake is test-only.
// @testonly
func Fake() *Account { return NewAccount() }

// Audit is only for package svc.
// @packageonly svc
func Audit() int { return 0 }

// Close is restricted to a package that does not exist.
// @packageonly nowhere
func (a *Account) Close() {}

// Reader is implemented by nobody here.
type Reader interface{ Read() int }
`}}}}}
	app := &prog.Program{Pkgs: []prog.Pkg{
		{Path: "ex.com/m/svc", Files: []prog.File{{Name: "svc.go", Src: `package svc

import "ex.com/dep/model"

// Impl claims an interface of the dependency that it does not implement.
// @implements model.Reader
type Impl struct{} // want IMPL03

func run(a *model.Account) {
	a.ID = 1 // want IMM01
	a.Cache = 2
	a.Tags[0] = "x" // want IMM04
	_ = model.Account{} // want CTOR01
	_ = new(model.Account) // want CTOR02
	_ = model.Fake() // want TONL02
	_ = model.Audit()
	a.Close() // want PKGO03
}
`}}},
		{Path: "ex.com/m/other", Files: []prog.File{{Name: "other.go", Src: `package other

import "ex.com/dep/model"

func run(a *model.Account) {
	a.ID++ // want IMM03
	_ = model.Audit() // want PKGO02
}
`}}},
	}}
	depDir, appDir := filepath.Join(root, "twomod", "dep"), filepath.Join(root, "twomod", "app")
	write := func(dir, gomod string, p *prog.Program, strip string) {
		if err := os.MkdirAll(dir, 0o755); err != nil {
			common.Fatalf("%v", err)
		}
		if err := os.WriteFile(filepath.Join(dir, "go.mod"), []byte(gomod), 0o644); err != nil {
			common.Fatalf("%v", err)
		}
		for _, pk := range p.Pkgs {
			d := filepath.Join(dir, strings.TrimPrefix(pk.Path, strip))
			os.MkdirAll(d, 0o755)
			for _, f := range pk.Files {
				if err := os.WriteFile(filepath.Join(d, f.Name), []byte(f.Src), 0o644); err != nil {
					common.Fatalf("%v", err)
				}
			}
		}
	}
	write(depDir, "module ex.com/dep\n\ngo 1.25\n", dep, "ex.com/dep/")
	write(appDir, "module ex.com/m\n\ngo 1.25\n\nrequire ex.com/dep v1.2.0\n\nreplace ex.com/dep v1.2.0 => ../dep\n", app, "ex.com/m/")
	for _, k := range []drv.Driver{drv.Standalone, drv.Vet} {
		for _, pats := range [][]string{{"./..."}, {"./svc"}, {"./other"}, {"./other", "./svc"}} {
			out := drv.Run(drv.Req{Driver: k, Dir: appDir, Patterns: pats})
			if cr := out.Crashed(); cr != "" {
				run.Report(common.Cex{Sig: fmt.Sprintf("crash|driver=%s|fixture=two-modules", k), Summary: cr})
			}
			for _, pk := range app.Pkgs {
				named := false
				for _, pt := range pats {
					if pt == "./..." || pt == "./"+strings.TrimPrefix(pk.Path, "ex.com/m/") {
						named = true
					}
				}
				if !named {
					continue
				}
				got, want := e4.KeysOf(out.Diags, pk.Path), e4.Wants(app, pk.Path)
				run.State(1, strings.Join(got, ","), fmt.Sprintf("two-modules|%s|%v|%s", k, pats, pk.Path))
				if strings.Join(got, "|") != strings.Join(want, "|") {
					missing, extra := diffKeys(want, got)
					run.Report(common.Cex{Sig: fmt.Sprintf("facts|driver=%s|fixture=two-modules|pkg=%s|missing=%s|extra=%s", driverClass(k.String()), pk.Path, codesOf(missing), codesOf(extra)),
						Summary: fmt.Sprintf("package %s importing an annotated package of a versioned dependency module, analysed by %s on %v: missing %v, unexpected %v", pk.Path, k, pats, missing, extra),
						Detail:  map[string]any{"cmd": out.Cmd, "want": want, "got": got}})
				}
			}
			if got := e4.KeysOf(out.Diags, "ex.com/dep/model"); len(got) > 0 {
				run.Report(common.Cex{Sig: "unnamed-pkg-reported|fixture=two-modules", Summary: fmt.Sprintf("%s reports diagnostics for the dependency module's package: %v", k, got)})
			}
		}
	}
	run.Count("two_module_cells", 8)
}

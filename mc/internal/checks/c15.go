package checks

import (
	"crypto/sha1"
	"fmt"
	"go/ast"
	"go/parser"
	"go/token"
	"go/types"
	"os"
	"sort"
	"strconv"
	"strings"
	"time"

	"github.com/a14e/gogreement/src/annotations"
	"github.com/a14e/gogreement/src/config"
	"github.com/a14e/gogreement/src/ignore"
	"golang.org/x/tools/go/analysis"

	"verif/mc/internal/common"
)

// C15 — the annotation grammar is exactly the documented one.
//
// Part 1: every comment text "//" + (sequence of <= n alphabet tokens) is attached to real
// declarations in a parsed, type-checked file and read back through the real
// annotations.ReadAllAnnotations / ignore.ReadIgnoreAnnotations; the result is compared field by
// field with the hand-written reference recogniser of c15_ref.go.
// Part 2: the attachment matrix (c15_attach.go).

const (
	c15PkgPath = "example.com/cpkg"
	c15File    = "/src/example.com/cpkg/batch.go"
)

type c15Token struct{ Text, Class string }

func c15Alphabet() []c15Token {
	var a []c15Token
	add := func(class string, texts ...string) {
		for _, t := range texts {
			c := class
			if c == "" {
				c = t
			}
			a = append(a, c15Token{t, c})
		}
	}
	// the empty token of the design is implicit: sequences of <= n tokens
	add("_", " ", "\t", "  ", "\f")
	add("VT", "\v")
	add("NBSP", "\u00a0")
	for _, k := range c15Keywords {
		add("", "@"+k)
	}
	add("", "@Immutable", "@immutablex", "@immutabl", "immutable", "@", "@@immutable", "@IGNORE")
	// every other keyword in another letter case (so that a wrong-case keyword can be followed by the right-case one)
	add("", "@Constructor", "@TestOnly", "@PackageOnly", "@Implements", "@MUTABLE")
	add("id", "New", "x1", "IMM01", "imm", "ALL")
	add("_id", "_x")
	add("num", "1x")
	add("uni", "é")
	add("path", "a/b", "a.b-c")
	add("q", "io.Reader")
	add("&id", "&Stringer")
	add("&q", "&io.Reader")
	add("", ",", ".", "&", "-", ";", "*")
	add("txt", "the factory.")
	return a
}

func c15Shape(alpha []c15Token, seq []int) string {
	var parts []string
	for _, t := range seq {
		c := alpha[t].Class
		if c == "_" && len(parts) > 0 && parts[len(parts)-1] == "_" {
			continue
		}
		parts = append(parts, c)
	}
	return strings.Join(parts, " ")
}

// ---------------------------------------------------------------------------------------------
// one work item = one distinct comment text

type c15Item struct {
	Text   string // exact comment text as written in the source ("//...", "/*...*/")
	Opener string // "//" or the name of the opener variant
	Shape  string
	Tokens int
	Toks   []c15Token
}

// c15Safe spells a token class with file-name-safe characters.
func c15Safe(c string) string {
	r := strings.NewReplacer("@", "at-", ",", "comma", ".", "dot", "&", "amp-", ";", "semi", "*", "star", "_id", "underscore-id")
	switch c {
	case "_":
		return "blank"
	case "-":
		return "dash"
	case "@":
		return "at"
	case "&":
		return "amp"
	}
	return r.Replace(c)
}

// c15Focus describes, for counterexample signatures, where keyword kw sits in the token
// sequence: what precedes it, what follows it directly, and the class of its first argument.
func c15Focus(it c15Item, kw string) string {
	idx := -1
	for i, t := range it.Toks {
		if t.Text == "@"+kw {
			idx = i
			break
		}
	}
	if idx < 0 {
		for _, t := range it.Toks {
			if t.Class != "_" {
				return "head=" + c15Safe(t.Class)
			}
		}
		return "head=none"
	}
	pre := "start"
	for _, t := range it.Toks[:idx] {
		if t.Class == "VT" || t.Class == "NBSP" {
			pre = "blank-lookalike"
		} else if t.Class != "_" {
			pre = "text"
			break
		}
	}
	if pre != "start" || it.Opener != "line" {
		return "pre=" + pre + "|sep=any|arg=any" // the keyword is not where the grammar wants it: what follows is immaterial
	}
	sep, arg := "end", "none"
	takesArg := kw == "constructor" || kw == "implements" || kw == "packageonly" || kw == "ignore"
	if idx+1 < len(it.Toks) {
		sep = it.Toks[idx+1].Class
		switch sep {
		case "_":
			arg = "end"
			for _, t := range it.Toks[idx+2:] {
				if t.Class != "_" {
					arg = t.Class
					if !takesArg {
						arg = "text"
					}
					break
				}
			}
		case "VT", "NBSP":
		default:
			sep = "glued"
		}
	}
	return "pre=" + pre + "|sep=" + c15Safe(sep) + "|arg=" + c15Safe(arg)
}

type c15Unit struct {
	item  int // index into the batch
	site  string
	name  string // object the annotation would be attached to
	recv  string
	line  int // first line of the comment
	fixed int // number of fixed "// @immutable" annotations expected on this object
}

type c15Entry struct{ Kind, Detail string }

func (e c15Entry) String() string { return e.Kind + e.Detail }

type c15Env struct {
	io  *types.Package
	cfg *config.Config
}

type c15MapImporter map[string]*types.Package

func (m c15MapImporter) Import(path string) (*types.Package, error) {
	if p, ok := m[path]; ok {
		return p, nil
	}
	return nil, fmt.Errorf("package %q not provided", path)
}

func c15NewEnv() *c15Env {
	fset := token.NewFileSet()
	f, err := parser.ParseFile(fset, "/src/io/io.go", "package io\n\ntype Reader interface {\n\tRead(p []byte) (n int, err error)\n}\n", 0)
	if err != nil {
		common.Fatalf("C15: fake io: %v", err)
	}
	p, err := (&types.Config{}).Check("io", fset, []*ast.File{f}, nil)
	if err != nil {
		common.Fatalf("C15: fake io: %v", err)
	}
	return &c15Env{io: p, cfg: config.Default()}
}

// c15Load parses and type-checks one source file as package example.com/cpkg and returns a real
// analysis.Pass over it.
func (env *c15Env) load(src string) (*analysis.Pass, *ast.File) {
	fset := token.NewFileSet()
	f, err := parser.ParseFile(fset, c15File, src, parser.ParseComments)
	if err != nil {
		common.Fatalf("C15: generated source does not parse: %v\n%s", err, src)
	}
	info := &types.Info{
		Types: map[ast.Expr]types.TypeAndValue{},
		Defs:  map[*ast.Ident]types.Object{},
		Uses:  map[*ast.Ident]types.Object{},
	}
	conf := types.Config{Importer: c15MapImporter{"io": env.io}}
	pkg, err := conf.Check(c15PkgPath, fset, []*ast.File{f}, info)
	if err != nil {
		common.Fatalf("C15: generated source does not type-check: %v\n%s", err, src)
	}
	pass := &analysis.Pass{
		Fset: fset, Files: []*ast.File{f}, Pkg: pkg, TypesInfo: info,
		TypesSizes: types.SizesFor("gc", "amd64"),
		Report:     func(analysis.Diagnostic) {},
		ResultOf:   map[*analysis.Analyzer]any{},
	}
	return pass, f
}

const c15Header = "package cpkg\n\nimport \"io\"\n\nvar _ io.Reader\n\ntype Stringer interface{ String() string }\n\n"

// c15Sites says at which additional sites (besides the doc comment of a top-level type) a
// comment text is exercised.
func c15Sites(text string) (field, fn, body bool) {
	low := strings.ToLower(text)
	return strings.Contains(low, "mutable"), strings.Contains(low, "only"), strings.Contains(low, "ignore")
}

type c15Batch struct {
	env     *c15Env
	run     *common.Run
	items   []c15Item
	annSeen int
}

func (b *c15Batch) add(it c15Item) {
	b.items = append(b.items, it)
	if len(b.items) >= 256 {
		b.flush()
	}
}

func (b *c15Batch) flush() {
	if len(b.items) == 0 {
		return
	}
	items := b.items
	b.items = nil

	var sb strings.Builder
	sb.WriteString(c15Header)
	line := 1 + strings.Count(c15Header, "\n")
	var units []c15Unit
	emit := func(s string) {
		sb.WriteString(s)
		line += strings.Count(s, "\n")
	}
	comment := func(indent string, k int, site, name, recv string, fixed int) {
		units = append(units, c15Unit{item: k, site: site, name: name, recv: recv, line: line, fixed: fixed})
		emit(indent + items[k].Text + "\n")
	}
	siteRuns := 0
	for k, it := range items {
		n := strconv.Itoa(k)
		comment("", k, "type", "T"+n, "", 0)
		emit("type T" + n + " struct {\n\tF int\n}\n\n")
		siteRuns++
		field, fn, body := c15Sites(it.Text)
		if field {
			emit("// @immutable\ntype M" + n + " struct {\n")
			comment("\t", k, "field", "M"+n, "", 1)
			emit("\tF int\n}\n\n")
			siteRuns++
		}
		if fn {
			comment("", k, "func", "F"+n, "", 0)
			emit("func F" + n + "() {}\n\n")
			star := ""
			if k%2 == 1 {
				star = "*"
			}
			comment("", k, "method", "Q"+n, "T"+n, 0)
			emit("func (t " + star + "T" + n + ") Q" + n + "() {}\n\n")
			siteRuns += 2
		}
		if body {
			emit("func G" + n + "() {\n")
			comment("\t", k, "body", "G"+n, "", 0)
			emit("\t_ = 0\n}\n\n")
			siteRuns++
		}
	}
	src := sb.String()

	got := map[int][]c15Entry{} // unit index -> observed entries
	byName := map[string]int{}
	byLine := map[int]int{}
	for i, u := range units {
		byName[u.name] = i
		byLine[u.line] = i
	}
	stray := func(what string) {
		b.run.Report(common.Cex{Sig: "grammar|stray|" + strings.SplitN(what, " ", 2)[0],
			Summary: "annotation attached to something that carries no generated comment: " + what,
			Detail:  map[string]any{"source": src}})
	}
	func() {
		defer func() {
			if r := recover(); r != nil {
				b.run.Report(common.Cex{Sig: "grammar|panic", Summary: fmt.Sprintf("panic while reading annotations: %v", r),
					Detail: map[string]any{"source": src}})
			}
		}()
		pass, _ := b.env.load(src)
		pa := annotations.ReadAllAnnotations(b.env.cfg, pass)
		is := ignore.ReadIgnoreAnnotations(b.env.cfg, pass)
		put := func(name string, e c15Entry) {
			i, ok := byName[name]
			if !ok {
				stray(e.String() + " on " + name)
				return
			}
			got[i] = append(got[i], e)
		}
		for _, a := range pa.ImmutableAnnotations {
			put(a.OnType, c15Entry{"immutable", ""})
		}
		for _, a := range pa.ConstructorAnnotations {
			put(a.OnType, c15Entry{"constructor", c15SetString(a.ConstructorNames)})
		}
		for _, a := range pa.ImplementsAnnotations {
			put(a.OnType, c15Entry{"implements", c15Impl(a.IsPointer, a.PackageName, a.InterfaceName)})
		}
		kindName := func(k annotations.TestOnlyKind, recv string) string {
			switch k {
			case annotations.TestOnlyOnType:
				return "/type(" + recv + ")"
			case annotations.TestOnlyOnFunc:
				return "/func(" + recv + ")"
			case annotations.TestOnlyOnMethod:
				return "/method(" + recv + ")"
			}
			return fmt.Sprintf("/kind%d(%s)", int(k), recv)
		}
		for _, a := range pa.TestonlyAnnotations {
			put(a.ObjectName, c15Entry{"testonly", kindName(a.Kind, a.ReceiverType)})
		}
		for _, a := range pa.PackageOnlyAnnotations {
			put(a.ObjectName, c15Entry{"packageonly", kindName(a.Kind, a.ReceiverType) + c15Allowed(a.AllowedPackages)})
		}
		for _, a := range pa.MutableAnnotations {
			put(a.OnType, c15Entry{"mutable", "(" + a.FieldName + ")"})
		}
		if is != nil {
			for _, m := range is.Markers {
				ln := pass.Fset.Position(m.StartPos).Line
				i, ok := byLine[ln]
				if !ok {
					stray(fmt.Sprintf("ignore%s at line %d", c15SetString(m.Codes), ln))
					continue
				}
				got[i] = append(got[i], c15Entry{"ignore", c15SetString(m.Codes)})
			}
		}
	}()

	// compare
	refs := make([]c15Ref, len(items))
	for k := range items {
		refs[k] = c15Reference(items[k].Text)
	}
	typeOutcome := make([]string, len(items))
	for i, u := range units {
		r := refs[u.item]
		want := c15Want(u, r)
		g := got[i]
		if u.site == "type" {
			typeOutcome[u.item] = c15Join(g)
		}
		gs, ws := c15Normalise(g, r), c15Normalise(want, r)
		if gs != ws {
			it := items[u.item]
			gl, wl := c15NormaliseList(g, r), c15NormaliseList(want, r)
			kw := r.Kind
			if kw == "" && len(gl) > 0 {
				kw = gl[0].Kind
			}
			gk, wk := c15Abstract(gl), c15Abstract(wl)
			diff := "kind"
			if gk == wk {
				diff = "detail"
			}
			b.run.Report(common.Cex{
				Sig:     fmt.Sprintf("grammar|site=%s|open=%s|kw=%s|%s|got=%s|want=%s|diff=%s", u.site, it.Opener, kw, c15Focus(it, kw), gk, wk, diff),
				Summary: fmt.Sprintf("comment %s as %s: implementation read {%s}, documented grammar says {%s}", strconv.Quote(it.Text), c15SiteName(u.site), gs, ws),
				Detail:  map[string]any{"comment": it.Text, "shape": it.Shape, "site": u.site, "got": gs, "want": ws, "reference": fmt.Sprintf("%+v", r)},
			})
		}
	}
	nontriv, nj := 0, 0
	kinds := map[string]int{}
	for k, it := range items {
		r := refs[k]
		key := ""
		if r.Kind != "" || r.Near {
			key = it.Opener + "|" + it.Shape
			nontriv++
		}
		if r.NJ != "" {
			nj++
		} else if r.Kind != "" {
			kinds[r.Kind]++
			b.annSeen++
			if b.annSeen%50021 == 7 {
				b.run.Sample(map[string]any{"comment": it.Text, "shape": it.Shape, "reference": fmt.Sprintf("%+v", r), "read_as_type_doc": typeOutcome[k]})
			}
		}
		b.run.State(it.Tokens, typeOutcome[k], key)
	}
	for k, n := range kinds {
		b.run.Count("ref_"+k, n)
	}
	b.run.Count("site_executions", siteRuns)
	b.run.Count("nontrivial_strings", nontriv)
	b.run.Count("not_judged_strings", nj)
	b.run.Count("batches", 1)
}

func c15SiteName(s string) string {
	switch s {
	case "type":
		return "doc comment of a top-level struct type"
	case "field":
		return "doc comment of a named field of an @immutable struct"
	case "func":
		return "doc comment of a top-level function"
	case "method":
		return "doc comment of a method"
	case "body":
		return "comment before a statement inside a function body"
	}
	return s
}

func c15SetString(xs []string) string {
	m := map[string]bool{}
	var o []string
	for _, x := range xs {
		if !m[x] {
			m[x] = true
			o = append(o, x)
		}
	}
	sort.Strings(o)
	return "[" + strings.Join(o, ",") + "]"
}

func c15Impl(ptr bool, pkg, name string) string {
	s := "("
	if ptr {
		s += "&"
	}
	if pkg != "" {
		s += pkg + "."
	}
	return s + name + ")"
}

// c15Allowed renders AllowedPackages as "declaring package allowed?" + the set of other packages.
func c15Allowed(pk []string) string {
	self := "-self"
	var rest []string
	for _, p := range pk {
		if p == c15PkgPath {
			self = "+self"
		} else {
			rest = append(rest, p)
		}
	}
	return "{" + self + "}" + c15SetString(rest)
}

// c15Want is what the documented grammar and attachment rules expect for one unit.
func c15Want(u c15Unit, r c15Ref) []c15Entry {
	var w []c15Entry
	for i := 0; i < u.fixed; i++ {
		w = append(w, c15Entry{"immutable", ""})
	}
	if r.Kind == "ignore" {
		w = append(w, c15Entry{"ignore", c15SetString(r.Names)})
	}
	switch u.site {
	case "type":
		switch r.Kind {
		case "immutable":
			w = append(w, c15Entry{"immutable", ""})
		case "constructor":
			w = append(w, c15Entry{"constructor", c15SetString(r.Names)})
		case "implements":
			w = append(w, c15Entry{"implements", c15Impl(r.Ptr, r.Pkg, r.Iface)})
		case "testonly":
			w = append(w, c15Entry{"testonly", "/type()"})
		case "packageonly":
			w = append(w, c15Entry{"packageonly", "/type(){+self}" + c15SetString(r.Names)})
		}
	case "field":
		if r.Kind == "mutable" {
			w = append(w, c15Entry{"mutable", "(F)"})
		}
	case "func", "method":
		k := "/func()"
		if u.site == "method" {
			k = "/method(" + u.recv + ")"
		}
		switch r.Kind {
		case "testonly":
			w = append(w, c15Entry{"testonly", k})
		case "packageonly":
			w = append(w, c15Entry{"packageonly", k + "{+self}" + c15SetString(r.Names)})
		}
	}
	return w
}

// c15NormaliseList removes from an entry list what the reference does not judge for this line.
func c15NormaliseList(es []c15Entry, r c15Ref) []c15Entry {
	var o []c15Entry
	for _, e := range es {
		if r.NJ != "" && e.Kind == r.Kind {
			if r.Kind == "packageonly" {
				if i := strings.Index(e.Detail, "["); i >= 0 {
					e.Detail = e.Detail[:i] + "[?]"
				}
			} else {
				continue
			}
		}
		o = append(o, e)
	}
	sort.Slice(o, func(i, j int) bool { return o[i].String() < o[j].String() })
	return o
}

func c15Join(es []c15Entry) string {
	var s []string
	for _, e := range es {
		s = append(s, e.String())
	}
	sort.Strings(s)
	return strings.Join(s, " ")
}

func c15Normalise(es []c15Entry, r c15Ref) string { return c15Join(c15NormaliseList(es, r)) }

// c15Abstract keeps the annotation kinds only (for signatures).
func c15Abstract(es []c15Entry) string {
	if len(es) == 0 {
		return "none"
	}
	var s []string
	for _, e := range es {
		s = append(s, e.Kind)
	}
	return strings.Join(s, "+")
}

// ---------------------------------------------------------------------------------------------
// enumeration

type c15Enum struct {
	alpha  []c15Token
	sh     common.Shard
	seen   map[[16]byte]struct{}
	emit   func(c15Item)
	stop   func() bool
	done   int // sequences visited
	halted bool
}

func c15Hash64(s []byte) uint64 {
	h := uint64(14695981039346656037)
	for i := 0; i < len(s); i++ {
		h ^= uint64(s[i])
		h *= 1099511628211
	}
	return h
}

// visit handles one token sequence: ownership by hash of the text after the first two bytes of
// the line-comment form (so that the same text reached through different token sequences or
// phases lands in the same worker), de-duplication on the full comment text.
func (e *c15Enum) visit(body []byte, seq []int, wrap func(body string) (text, opener string, ok bool)) {
	e.done++
	if e.sh.N > 1 && int(c15Hash64(body)%uint64(e.sh.N)) != e.sh.I {
		return
	}
	text, opener, ok := wrap(string(body))
	if !ok {
		return
	}
	sum := sha1.Sum([]byte(text))
	var key [16]byte
	copy(key[:], sum[:16])
	if _, dup := e.seen[key]; dup {
		return
	}
	e.seen[key] = struct{}{}
	toks := make([]c15Token, len(seq))
	for i, t := range seq {
		toks[i] = e.alpha[t]
	}
	e.emit(c15Item{Text: text, Opener: opener, Shape: c15Shape(e.alpha, seq), Tokens: len(seq), Toks: toks})
}

// product enumerates the Cartesian product of the given token sets (one set per position).
func (e *c15Enum) product(sets [][]int, wrap func(string) (string, string, bool)) {
	seq := make([]int, 0, len(sets))
	buf := make([]byte, 0, 128)
	var rec func(depth int)
	rec = func(depth int) {
		if e.halted {
			return
		}
		if depth == len(sets) {
			if e.done&0xfff == 0 && e.stop != nil && e.stop() {
				e.halted = true
				return
			}
			e.visit(buf, seq, wrap)
			return
		}
		for _, t := range sets[depth] {
			l := len(buf)
			buf = append(buf, e.alpha[t].Text...)
			seq = append(seq, t)
			rec(depth + 1)
			seq = seq[:len(seq)-1]
			buf = buf[:l]
		}
	}
	rec(0)
}

func c15WrapLine(body string) (string, string, bool) { return "//" + body, "line", true }

type c15OpenerSpec struct {
	Name string
	Wrap func(body string) (string, string, bool)
}

func c15Openers() []c15OpenerSpec {
	blockOK := func(b string) bool { return !strings.Contains(b, "*/") }
	return []c15OpenerSpec{
		{"///", func(b string) (string, string, bool) { return "///" + b, "triple-slash", true }},
		{"// //", func(b string) (string, string, bool) { return "// //" + b, "nested-line", true }},
		{"/*…*/", func(b string) (string, string, bool) { return "/*" + b + "*/", "block", blockOK(b) }},
		{"/*//…*/", func(b string) (string, string, bool) { return "/*//" + b + "*/", "block-with-line", blockOK(b) }},
		{"/*⏎//…⏎*/", func(b string) (string, string, bool) {
			return "/*\n//" + b + "\n*/", "multiline-block-with-line", blockOK(b)
		}},
		{"/*⏎…⏎*/", func(b string) (string, string, bool) { return "/*\n" + b + "\n*/", "multiline-block", blockOK(b) }},
	}
}

// c15ArgAlphabet is the sub-alphabet of the argument-focused phase.
var c15ArgTokens = []string{" ", "\t", "New", "_x", "x1", "1x", "é", "a/b", "a.b-c", "IMM01", "imm", "io.Reader", "&Stringer", ",", ".", "&", "-", ";", "the factory."}

func C15(tier common.Tier) int {
	run := common.NewRun("C15", tier, "model_checking")
	alpha := c15Alphabet()
	index := map[string]int{}
	all := make([]int, len(alpha))
	for i, t := range alpha {
		index[t.Text] = i
		all[i] = i
	}
	var argSet, kwSet []int
	for _, t := range c15ArgTokens {
		i, ok := index[t]
		if !ok {
			common.Fatalf("C15: argument token %q is not in the alphabet", t)
		}
		argSet = append(argSet, i)
	}
	for _, k := range c15Keywords {
		kwSet = append(kwSet, index["@"+k])
	}
	space := []int{index[" "]}

	depth, openDepth, argDepth, argDepth2 := 4, 3, 4, 4
	budget := 40 * time.Second
	if tier == "thorough" {
		depth, openDepth, argDepth, argDepth2 = 5, 4, 5, 4
		budget = 40 * time.Minute
	}
	if v, err := strconv.Atoi(os.Getenv("MC_C15_BUDGET_S")); err == nil && v > 0 {
		budget = time.Duration(v) * time.Second
	}
	nTok := len(alpha) + 1
	run.SetRule(
		"state = one distinct comment text. Part 1: \"//\" + every sequence of alphabet tokens up to the bound (de-duplicated on the concatenated text); the same bodies behind the openers "+
			"`///`, `// //`, `/*…*/`, `/*//…*/` and two multi-line block forms; and an argument-focused extension `//[space]@K space x1..xm` with x over an argument sub-alphabet. "+
			"Each text is written as the doc comment of a top-level struct type with a named field, and additionally as the doc of a named field of an "+
			"@immutable struct (texts containing 'mutable'), as the doc of a function and of a method (texts containing 'only'), and before a statement inside a function body (texts containing 'ignore'), "+
			"in a file that imports a (fake, type-checked) package io and declares a local interface Stringer; the file is parsed by go/parser, type-checked by go/types, wrapped in a real analysis.Pass and read by the real "+
			"annotations.ReadAllAnnotations and ignore.ReadIgnoreAnnotations (config.Default()). Every annotation produced for the carrying object (kind, ConstructorNames, AllowedPackages, IsPointer/PackageName/InterfaceName, "+
			"Kind/ReceiverType, mutable field, ignore codes) is compared with a hand-written left-to-right recogniser of the documented grammar (no regular expressions). Part 2: the attachment matrix, "+
			fmt.Sprintf("%d sites x 7 keywords, one file per cell, all annotations of the file compared with the expected set. ", len(c15AttachSites()))+
			"transitions = tokens in the sequence; a state is non-trivial when the reference says the text is an annotation or a near-miss ('@' first after the blanks); distinct non-trivial = distinct (opener, token-class shape); "+
			"the number of non-trivial texts is in extra.nontrivial_strings, per-kind counts in extra.ref_*.",
		fmt.Sprintf("all sequences of <= %d tokens over an alphabet of %d tokens (incl. the empty token): 6 blank-like {space, tab, two spaces, FF, VT, NBSP}, 7 keywords, 12 near-keywords (every keyword also in another letter case), 13 argument words, 6 punctuation marks, 1 prose phrase; "+
			"all sequences of <= %d tokens behind each of %d other openers; all `//@K space` + <= %d tokens and all `// @K space` + <= %d tokens of the %d-token argument sub-alphabet (incl. empty), K over the 7 keywords; attachment matrix complete",
			depth, nTok, openDepth, len(c15Openers()), argDepth, argDepth2, len(argSet)+1))
	run.Assume(
		"go/parser, go/scanner and go/types are trusted (in particular: ast.Comment.Text is the comment as written, with carriage returns removed by the scanner, so CR never reaches the grammar)",
		"blank = space, tab, form feed, carriage return (ASCII); vertical tab, NBSP and other Unicode spaces are not blanks",
		"Name and package qualifier in @implements are words over [A-Za-z0-9_]; @ignore codes are ASCII alphanumerics; @packageonly paths are over [A-Za-z0-9_/.-]; trailing comma and blanks around commas are allowed in lists",
		"a required list that does not parse means 'not an annotation'; an optional list that does not parse means 'annotation without list, the rest is ignored text'",
		"list results are compared as sets (order and repetition of names are not part of the statement); for @packageonly the declaring package must always be allowed",
		"de-duplication of comment texts uses a 128-bit SHA-1 prefix (a collision would silently drop one text; probability < 1e-20)",
		"scope (start/end) of @ignore markers is C07's subject; here a marker is matched to its comment by line and only its codes are compared",
	)
	run.NotJudged(c15NJTrailing, c15NJComma, c15NJUnicode,
		"resolution of the @implements package qualifier to an import path (PackageFullPath / PackageNotFound): C05",
		"order and multiplicity of names inside a list")

	common.Sharded(run, common.NumWorkers(), func(run *common.Run, sh common.Shard) {
		start := time.Now()
		env := c15NewEnv()
		if sh.I == 0 {
			c15Attachment(run, env)
		}
		batch := &c15Batch{env: env, run: run}
		en := &c15Enum{alpha: alpha, sh: sh, seen: map[[16]byte]struct{}{}}
		en.emit = batch.add
		en.stop = func() bool { return time.Since(start) > budget }
		rep := func(n int, set []int) [][]int {
			var s [][]int
			for i := 0; i < n; i++ {
				s = append(s, set)
			}
			return s
		}
		var phases []string
		phase := func(name string, f func()) {
			if en.halted {
				return
			}
			f()
			if en.halted {
				phases = append(phases, name+" (cut short)")
			} else {
				phases = append(phases, name)
			}
		}
		phase(fmt.Sprintf("all sequences of <= %d tokens", depth-1), func() {
			for n := 0; n < depth; n++ {
				en.product(rep(n, all), c15WrapLine)
			}
		})
		phase(fmt.Sprintf("openers, <= %d tokens", openDepth), func() {
			for n := 0; n <= openDepth; n++ {
				for _, op := range c15Openers() {
					en.product(rep(n, all), op.Wrap)
				}
			}
		})
		phase(fmt.Sprintf("argument-focused, <= %d argument tokens", argDepth), func() {
			for m := 0; m <= argDepth; m++ {
				en.product(append([][]int{kwSet, space}, rep(m, argSet)...), c15WrapLine)
				if m <= argDepth2 {
					en.product(append([][]int{space, kwSet, space}, rep(m, argSet)...), c15WrapLine)
				}
			}
		})
		phase(fmt.Sprintf("all sequences of exactly %d tokens", depth), func() {
			en.product(rep(depth, all), c15WrapLine)
		})
		batch.flush()
		if os.Getenv("MC_VERBOSE") != "" {
			fmt.Fprintf(os.Stderr, "C15 worker %d/%d: %d sequences visited, %d texts owned, %.1fs\n", sh.I, sh.N, en.done, len(en.seen), time.Since(start).Seconds())
		}
		if en.halted {
			run.SetRule("", "")
			run.NotExhaustive(fmt.Sprintf("worker %d/%d hit the %s time budget; phases: %s", sh.I, sh.N, budget, strings.Join(phases, "; ")))
		}
	})
	return run.Finish()
}

func init() { Register("C15", C15) }

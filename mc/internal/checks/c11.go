package checks

import (
	"fmt"
	"os"
	"sort"
	"strings"

	"github.com/a14e/gogreement/src/analyzer"

	"verif/mc/internal/common"
	"verif/mc/internal/drv"
	"verif/mc/internal/e1"
	"verif/mc/internal/e3"
	"verif/mc/internal/e4"
	"verif/mc/internal/prog"
)

func diagText(ds []prog.Diag, pkg string) string {
	var l []string
	for _, d := range ds {
		if pkg != "" && d.Pkg != pkg {
			continue
		}
		l = append(l, fmt.Sprintf("%s:%d:%d|%s|%s", d.File, d.Line, d.Col, d.Analyzer, d.Message))
	}
	sort.Strings(l)
	return strings.Join(l, "\n")
}

func permutationsOf(s []string) [][]string {
	if len(s) <= 1 {
		return [][]string{append([]string(nil), s...)}
	}
	var out [][]string
	for i := range s {
		rest := append(append([]string(nil), s[:i]...), s[i+1:]...)
		for _, p := range permutationsOf(rest) {
			out = append(out, append([]string{s[i]}, p...))
		}
	}
	return out
}

// C11: results are deterministic and independent of the analysis schedule.
func C11(tier common.Tier) int {
	run := common.NewRun("C11", tier, "model_checking")
	thorough := tier == "thorough"
	bound := 1
	if thorough {
		bound = 2
	}
	run.SetRule("state = one complete schedule of the analysis action DAG (8 analyzers x packages) under a cooperative scheduler that owns every cross-action operation (action start, ImportPackageFact, ExportPackageFact, Report, ReadFile, action end); the REAL Analyzer.Run functions execute in every schedule. All schedules with at most `bound` deviations from the default choice (keep running the current action, else lowest ready action) are enumerated depth-first; for each, diagnostics (position, analyzer, full message text) and the gob bytes of every exported fact must equal those of the default schedule. Conformance: the default schedule equals checker.Analyze in sequential and parallel mode. Run sets: every non-empty subset and every permutation of root packages, sequential and parallel, must give identical per-package results. Real drivers: gogreement -json vs -debug=p vs go vet, permuted package lists, with/without unrelated packages, repeated runs: byte-identical normalised output. Sync seam: in the harness build whose src/analyzer imports a cooperative stand-in for package sync, Once.Do entry, a blocked Once.Do and every flag read inside the configuration reader's critical section are scheduling points too; every execution starts with the process-wide configuration fresh under scan-tests=true exclude-paths=gen on a program whose diagnostics differ under any other configuration, and all schedules within the bound must agree with the default one (and with the want markers). Complement (sampling, reported as such): the -race build of the real binary, free-running on 16 cores, on every fixture once and several times on a corpus of 16 independent packages (+8 consumers) that exercise every annotation reader and checker, must print no DATA RACE. Non-trivial = a schedule that differs from the default order.",
		fmt.Sprintf("deviation bound %d over 6 programs (chain+unrelated, diamond+unrelated, line-directives, shared-syntax, file-boundaries, ignores-everywhere, impl-texts) and over the config-matters program with the sync seam; all run sets and root permutations; 3 driver modes x permutations x 3 repetitions; race runs", bound))
	run.Assume("scheduling points at Pass callbacks are sufficient for order dependence through shared state; unsynchronised accesses between points are delegated to the free-running -race pass", "Go's per-map random iteration order is re-drawn in every execution: a message built by ranging over a map shows up as a mismatch with high probability but is not owned by the scheduler")
	shapes := e4.Shapes()
	progs := []*prog.Program{e4.WithUnrelated(e4.Chain(shapes[1])), e4.WithUnrelated(e4.Diamond(shapes[3]))}
	progs = append(progs, e4.LineDirectives(), e4.SharedSyntax(), e4.FileBoundaries(), e4.IgnoresEverywhere(), e4.ImplTexts())
	names := []string{"chain+unrelated", "diamond+unrelated", "line-directives", "shared-syntax", "file-boundaries", "ignores-everywhere", "impl-texts"}

	common.Sharded(run, common.NumWorkers(), func(run *common.Run, sh common.Shard) {
		for pi, p := range progs {
			ld, err := prog.Load(p)
			if err != nil {
				common.Fatalf("fixture: %v", err)
			}
			var roots []string
			for _, pk := range p.Pkgs {
				roots = append(roots, pk.Path)
			}
			s := e3.Build(ld, analyzer.AllAnalyzers(), roots)
			ref, err := s.Run(nil)
			if err != nil {
				common.Fatalf("default schedule: %v", err)
			}
			refObs := ref.Observation()
			if sh.I == 0 {
				// replay determinism: the same schedule twice gives identical observations
				again, err := s.Run(ref.Choices)
				if err != nil || again.Observation() != refObs {
					run.Report(common.Cex{Sig: "replay-nondeterministic|" + names[pi], Summary: fmt.Sprintf("replaying the default schedule of %s gives a different observation (err=%v)", names[pi], err),
						Detail: map[string]any{"first": refObs, "second": again.Observation()}})
				}
				// conformance with the real driver
				for _, par := range []bool{false, true} {
					res := prog.Analyze(ld, prog.Opts{Parallel: par})
					if diagText(res.Diags, "") != diagText(ref.Diags, "") {
						run.Report(common.Cex{Sig: fmt.Sprintf("conformance|parallel=%v|%s", par, names[pi]),
							Summary: fmt.Sprintf("the controlled scheduler's default schedule and checker.Analyze(parallel=%v) disagree on %s", par, names[pi])})
					}
					run.Count("traces_validated_against_checker_Analyze", 1)
				}
				// wants
				for _, pk := range p.Pkgs {
					got := e4.KeysOf(ref.Diags, pk.Path)
					want := e4.Wants(p, pk.Path)
					if strings.Join(got, "|") != strings.Join(want, "|") {
						run.Report(common.Cex{Sig: "fixture-wants|" + pk.Path, Summary: fmt.Sprintf("default schedule: %s got %v want %v", pk.Path, got, want)})
					}
				}
				run.Count("actions_"+names[pi], s.NumActions())
				run.Count("scheduling_points_default_"+names[pi], len(ref.Points))
				run.Sample(map[string]any{"program": names[pi], "actions": s.NumActions(), "points_in_default_schedule": len(ref.Points), "default_choices": "all 0"})
			}
			_, err = s.Explore(bound, func(b int) bool { return sh.Mine(b) }, func(x *e3.Exec) {
				obs := x.Observation()
				dev := 0
				for _, c := range x.Choices {
					if c != 0 {
						dev++
					}
				}
				nt := ""
				if dev > 0 {
					nt = fmt.Sprintf("%s|%v", names[pi], x.Choices)
				}
				run.State(len(x.Points), common.Hash(obs), nt)
				if obs != refObs {
					// confirm by replaying once more
					y, err := s.Run(x.Choices)
					confirmed := err == nil && y.Observation() == obs
					what := "diagnostics-or-facts-differ"
					if x.Panic != "" {
						what = "panic"
					}
					// which packages differ
					var diff []string
					for _, pk := range p.Pkgs {
						if diagText(x.Diags, pk.Path) != diagText(ref.Diags, pk.Path) {
							diff = append(diff, pk.Path)
						}
					}
					run.Report(common.Cex{Sig: fmt.Sprintf("schedule|%s|%s|pkgs=%s|replay-confirmed=%v", names[pi], what, strings.Join(diff, "+"), confirmed),
						Summary: fmt.Sprintf("schedule with %d deviation(s) on %s changes the result for packages %v (replay confirmed: %v)", dev, names[pi], diff, confirmed),
						Detail:  map[string]any{"choices": x.Choices, "observation": obs, "reference": refObs}})
				}
			})
			if err != nil {
				run.Report(common.Cex{Sig: "scheduler-error|" + names[pi], Summary: err.Error()})
			}
			if sh.I != 0 {
				continue
			}
			// run sets and root permutations, in-process, real driver
			perPkg := map[string]string{}
			for _, pk := range p.Pkgs {
				perPkg[pk.Path] = diagText(ref.Diags, pk.Path)
			}
			var sets [][]string
			for mask := 1; mask < 1<<len(roots); mask++ {
				var set []string
				for i, r := range roots {
					if mask&(1<<i) != 0 {
						set = append(set, r)
					}
				}
				if len(set) <= 3 || thorough {
					sets = append(sets, permutationsOf(set)...)
				} else {
					rev := make([]string, len(set))
					for i := range set {
						rev[len(set)-1-i] = set[i]
					}
					sets = append(sets, set, rev)
				}
			}
			for _, set := range sets {
				for _, par := range []bool{false, true} {
					res := prog.Analyze(ld, prog.Opts{Roots: set, Parallel: par})
					run.State(1, "", fmt.Sprintf("runset|%s|%v|%v", names[pi], set, par))
					for _, r := range set {
						if diagText(res.Diags, r) != perPkg[r] {
							run.Report(common.Cex{Sig: fmt.Sprintf("runset|%s|pkg=%s|parallel=%v", names[pi], r, par),
								Summary: fmt.Sprintf("diagnostics of %s differ when the roots are %v (parallel=%v)", r, set, par)})
						}
					}
				}
			}
		}
	})

	// Parse order: go/packages parses the files of a package concurrently, so which file gets the lower
	// position range is a scheduling accident of the loader. Both orders are enumerated on programs whose
	// packages have several files with @ignore markers for the same codes.
	{
		ig := e1.IgBases()[0].Clone()
		for _, f := range ig.Files {
			n := 0
			for i := range f.Lines {
				t := f.Lines[i].Text
				if (strings.Contains(t, "d.T{}") || strings.Contains(t, " T{}") || strings.Contains(t, ".F = ")) && !strings.Contains(t, "//") && n < 3 {
					f.Lines[i].Text += " // @ignore CTOR01, IMM01"
					n++
				}
			}
		}
		for pi, p := range append([]*prog.Program{ig.Program()}, progs...) {
			a, err1 := prog.LoadOrder(p, false)
			b, err2 := prog.LoadOrder(p, true)
			if err1 != nil || err2 != nil {
				common.Fatalf("parse-order fixture: %v %v", err1, err2)
			}
			ra, rb := prog.Analyze(a, prog.Opts{}), prog.Analyze(b, prog.Opts{})
			run.State(2, "", fmt.Sprintf("parse-order|%d", pi))
			if diagText(ra.Diags, "") != diagText(rb.Diags, "") || ra.Panic != rb.Panic {
				missing, extra := diffKeys(prog.Keys(ra.Diags), prog.Keys(rb.Diags))
				run.Report(common.Cex{Sig: fmt.Sprintf("parse-order|program=%d|lost=%s|gained=%s", pi, codesOf(missing), codesOf(extra)),
					Summary: fmt.Sprintf("the diagnostics depend on the order in which the loader parsed the files of a package (position ranges): listed order vs reversed: only in listed order %v, only in reversed %v %s%s", missing, extra, ra.Panic, rb.Panic)})
			}
		}
	}

	// real drivers
	drv.Binary()
	root := drv.Scratch()
	defer os.RemoveAll(root)
	for pi, p := range progs {
		dir := fmt.Sprintf("%s/p%d", root, pi)
		drv.WriteModule(dir, p)
		var pats []string
		for _, pk := range p.Pkgs {
			pats = append(pats, "./"+strings.TrimPrefix(pk.Path, "ex.com/m/"))
		}
		ref := drv.Run(drv.Req{Driver: drv.Standalone, Dir: dir, Patterns: pats})
		type cell struct {
			k     drv.Driver
			flags []string
			pats  []string
		}
		var cells []cell
		rev := make([]string, len(pats))
		for i := range pats {
			rev[len(pats)-1-i] = pats[i]
		}
		rot := append(append([]string(nil), pats[1:]...), pats[0])
		without := pats[:len(pats)-1] // without the unrelated package
		for rep := 0; rep < 3; rep++ {
			for _, ps := range [][]string{pats, rev, rot, without, {"./..."}} {
				cells = append(cells, cell{drv.Standalone, nil, ps}, cell{drv.Standalone, []string{"-debug=p"}, ps}, cell{drv.Vet, nil, ps})
			}
		}
		// the same under a project-wide exclusion made of tokens that are no codes (they exclude nothing): per-package results must
		// still be those of the reference run, whichever packages are analysed alongside and in whichever order
		for _, ps := range [][]string{pats, rev, rot, without, {"./..."}} {
			ex := "-config.exclude-checks=ZZZ9,QQQ1"
			cells = append(cells, cell{drv.Standalone, []string{ex}, ps}, cell{drv.Standalone, []string{ex, "-debug=p"}, ps}, cell{drv.Vet, []string{ex}, ps})
			for _, one := range ps {
				if one != "./..." {
					cells = append(cells, cell{drv.Standalone, []string{ex}, []string{one}})
				}
			}
		}
		drv.ParallelDo(len(cells), common.NumWorkers(), func(i int) {
			c := cells[i]
			o := drv.Run(drv.Req{Driver: c.k, Dir: dir, Flags: c.flags, Patterns: c.pats})
			if cr := o.Crashed(); cr != "" {
				run.Report(common.Cex{Sig: "crash|driver", Summary: cr})
			}
			run.State(1, "", fmt.Sprintf("driver|%d|%d", pi, i))
			for _, pk := range p.Pkgs {
				named := false
				for _, pt := range c.pats {
					if pt == "./..." || pt == "./"+strings.TrimPrefix(pk.Path, "ex.com/m/") {
						named = true
					}
				}
				if !named {
					continue
				}
				if diagText(o.Diags, pk.Path) != diagText(ref.Diags, pk.Path) {
					run.Report(common.Cex{Sig: fmt.Sprintf("driver-nondeterminism|driver=%s%s|pkg=%s", c.k, strings.Join(c.flags, ""), pk.Path),
						Summary: fmt.Sprintf("%s %v on patterns %v: output for %s differs from the reference run", c.k, c.flags, c.pats, pk.Path),
						Detail:  map[string]any{"cmd": o.Cmd}})
				}
			}
		})
	}
	// test variants: several type-checked instances of one import path in one run; every annotation is
	// correct, so every cell must be silent (and therefore equal to every other cell)
	{
		tv := e4.TestVariants()
		dir := root + "/tv"
		drv.WriteModule(dir, tv)
		type cell struct {
			k     drv.Driver
			flags []string
			pats  []string
		}
		var cells []cell
		reps := 2
		if thorough {
			reps = 6
		}
		for rep := 0; rep < reps; rep++ {
			for _, ps := range [][]string{{"./..."}, {"./a"}, {"./b"}, {"./a", "./b"}, {"./b", "./a"}} {
				for _, scan := range []string{"-config.scan-tests=false", "-config.scan-tests=true"} {
					cells = append(cells, cell{drv.Standalone, []string{scan}, ps}, cell{drv.Standalone, []string{scan, "-debug=p"}, ps}, cell{drv.Vet, []string{scan}, ps})
				}
			}
		}
		drv.ParallelDo(len(cells), common.NumWorkers(), func(i int) {
			c := cells[i]
			o := drv.Run(drv.Req{Driver: c.k, Dir: dir, Flags: c.flags, Patterns: c.pats})
			run.State(1, "", fmt.Sprintf("testvariants|%d", i))
			if cr := o.Crashed(); cr != "" {
				run.Report(common.Cex{Sig: "crash|testvariants", Summary: cr})
			}
			if len(o.Diags) > 0 {
				run.Report(common.Cex{Sig: fmt.Sprintf("testvariants|driver=%s|flags=%s|code=%s", c.k, strings.Join(c.flags, ","), o.Diags[0].Code),
					Summary: fmt.Sprintf("%s %v on %v reports %d diagnostics on a module whose annotations are all correct (other cells report none): first %s at %s:%d",
						c.k, c.flags, c.pats, len(o.Diags), o.Diags[0].Code, o.Diags[0].File, o.Diags[0].Line),
					Detail: map[string]any{"cmd": o.Cmd, "message": o.Diags[0].Message}})
			}
		})
	}
	// race complement
	drv.RaceBinary()
	races, raceRuns := 0, 6
	if thorough {
		raceRuns = 24
	}
	// the fixtures once each, and a corpus of many independent packages (all their actions run at once) several times
	corpus := e4.RaceCorpus(16)
	if _, err := prog.Load(corpus); err != nil {
		common.Fatalf("race corpus: %v", err)
	}
	drv.WriteModule(root+"/rc", corpus)
	raceRuns += len(progs)
	drv.ParallelDo(raceRuns, 3, func(i int) {
		dir := root + "/rc"
		if i < len(progs) {
			dir = fmt.Sprintf("%s/p%d", root, i)
		}
		o := drv.Run(drv.Req{Driver: drv.Standalone, Dir: dir, Race: true, Env: map[string]string{"GORACE": "halt_on_error=0"}})
		if strings.Contains(o.Stderr, "DATA RACE") && !strings.Contains(o.Stderr, "a14e/gogreement/src") {
			// a race that does not involve GoGreement's own code (driver / toolchain): recorded, not judged
			run.Count("races_outside_gogreement_not_judged", 1)
		} else if strings.Contains(o.Stderr, "DATA RACE") {
			races++
			i0 := strings.Index(o.Stderr, "DATA RACE")
			end := i0 + 1500
			if end > len(o.Stderr) {
				end = len(o.Stderr)
			}
			run.Report(common.Cex{Sig: "data-race", Summary: "the -race build of the real binary reports a data race", Detail: map[string]any{"report": o.Stderr[i0:end]}})
		}
	})
	run.Count("race_detector_runs_sampling_complement", raceRuns)
	c11SyncSeam(run, bound)
	return run.Finish()
}

func init() { Register("C11", C11) }

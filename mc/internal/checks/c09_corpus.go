package checks

// Corpus plumbing shared by C09 (unannotated real-world code is silent) and C10 (annotated
// real-world code does not crash): a scratch consumer module from which the Go standard library
// and the modules GoGreement itself depends on can be named on the command line of the real
// drivers, an explicit pre-listing step that drops what does not load offline, and an
// independent pre-scan for annotation keywords.

import (
	"bytes"
	"encoding/json"
	"fmt"
	"go/ast"
	"go/parser"
	"go/token"
	"io"
	"os"
	"os/exec"
	"path/filepath"
	"sort"
	"strings"

	"verif/mc/internal/common"
)

func c09RepoDir() string {
	if r := os.Getenv("VERIF_REPO"); r != "" {
		return r
	}
	return "/repo"
}

// c09Modules are the modules of the corpus besides std: what /repo/go.mod requires.
var c09Modules = []string{
	"golang.org/x/tools",
	"golang.org/x/mod",
	"golang.org/x/sync",
	"github.com/stretchr/testify",
	"gopkg.in/yaml.v3",
	"github.com/davecgh/go-spew",
	"github.com/pmezard/go-difflib",
	"github.com/cloudflare/ahocorasick",
}

const c09ConsumerGoMod = `module ex.com/consumer

go 1.25

require (
	github.com/cloudflare/ahocorasick v0.0.0-20240916140611-054963ec9396
	github.com/davecgh/go-spew v1.1.1
	github.com/pmezard/go-difflib v1.0.0
	github.com/stretchr/testify v1.11.1
	golang.org/x/mod v0.29.0
	golang.org/x/sync v0.17.0
	golang.org/x/tools v0.38.0
	gopkg.in/yaml.v3 v3.0.1
)

// test-only dependencies of gopkg.in/yaml.v3 at versions that are present in the module cache
require (
	github.com/kr/pretty v0.1.0
	github.com/kr/text v0.1.0
	gopkg.in/check.v1 v1.0.0-20180628173108-788fd7840127
)
`

const c09ConsumerSrc = `// Package consumer only exists so that the packages of the corpus can be named from a module.
package consumer

import (
	_ "github.com/cloudflare/ahocorasick"
	_ "github.com/davecgh/go-spew/spew"
	_ "github.com/pmezard/go-difflib/difflib"
	_ "github.com/stretchr/testify/assert"
	_ "golang.org/x/mod/semver"
	_ "golang.org/x/sync/errgroup"
	_ "golang.org/x/tools/go/analysis"
	_ "gopkg.in/yaml.v3"
)
`

// c09WriteConsumer materialises the consumer module under dir. extraGoMod is appended to go.mod
// (C10 uses it for replace directives pointing at injected copies).
func c09WriteConsumer(dir, extraGoMod string) {
	c09must(os.MkdirAll(dir, 0o755))
	c09must(os.WriteFile(filepath.Join(dir, "go.mod"), []byte(c09ConsumerGoMod+extraGoMod), 0o644))
	sum, err := os.ReadFile(filepath.Join(c09RepoDir(), "go.sum"))
	c09must(err)
	c09must(os.WriteFile(filepath.Join(dir, "go.sum"), sum, 0o644))
	c09must(os.WriteFile(filepath.Join(dir, "consumer.go"), []byte(c09ConsumerSrc), 0o644))
}

func c09must(err error) {
	if err != nil {
		common.Fatalf("%v", err)
	}
}

// c09GoEnv is the environment of every go command the corpus code runs itself.
func c09GoEnv() []string {
	var env []string
	for _, kv := range os.Environ() {
		if strings.HasPrefix(kv, "GOGREEMENT_") || strings.HasPrefix(kv, "MC_") || strings.HasPrefix(kv, "GOMAXPROCS=") ||
			strings.HasPrefix(kv, "CGO_ENABLED=") || strings.HasPrefix(kv, "GOFLAGS=") || strings.HasPrefix(kv, "GOPROXY=") {
			continue
		}
		env = append(env, kv)
	}
	return append(env, "GOFLAGS=-mod=mod", "GOPROXY=off", "CGO_ENABLED=0")
}

// corpusPkg is one package of the corpus as the go command sees it with CGO_ENABLED=0.
type corpusPkg struct {
	Path         string
	Dir          string
	Std          bool
	Module       string
	GoFiles      []string // absolute paths
	TestFiles    []string // in-package and external test files, absolute paths
	Imports      []string // resolved through ImportMap
	TestImports  []string // resolved; union of TestImports and XTestImports
	Deps         []string // transitive, resolved (non-test)
}

func (p *corpusPkg) AllFiles() []string {
	return append(append([]string(nil), p.GoFiles...), p.TestFiles...)
}

type c09ListEntry struct {
	ImportPath   string
	Dir          string
	Standard     bool
	ForTest      string
	Incomplete   bool
	Module       *struct{ Path string }
	GoFiles      []string
	CgoFiles     []string
	TestGoFiles  []string
	XTestGoFiles []string
	Imports      []string
	TestImports  []string
	XTestImports []string
	ImportMap    map[string]string
	Deps         []string
	Error        *struct{ Err string }
	DepsErrors   []*struct{ Err string }
}

// c09List is the explicit pre-listing step: `go list -e -test -json` over the patterns. A
// package is dropped (with the reason) when it, its test variant, its external test package or
// its generated test main carries an error, a dependency error or is incomplete.
func c09List(dir string, patterns []string) (pkgs []*corpusPkg, dropped map[string]string) {
	args := append([]string{"list", "-e", "-test",
		"-json=ImportPath,Dir,Standard,ForTest,Incomplete,Module,GoFiles,CgoFiles,TestGoFiles,XTestGoFiles,Imports,TestImports,XTestImports,ImportMap,Deps,Error,DepsErrors"},
		patterns...)
	cmd := exec.Command("go", args...)
	cmd.Dir = dir
	cmd.Env = c09GoEnv()
	var so, se bytes.Buffer
	cmd.Stdout, cmd.Stderr = &so, &se
	if err := cmd.Run(); err != nil {
		common.Fatalf("go list %v: %v\n%s", patterns, err, se.String())
	}
	dropped = map[string]string{}
	byPath := map[string]*corpusPkg{}
	var order []string
	dec := json.NewDecoder(&so)
	for {
		var e c09ListEntry
		if err := dec.Decode(&e); err == io.EOF {
			break
		} else if err != nil {
			common.Fatalf("go list output: %v", err)
		}
		base := e.ImportPath
		variant := false
		if i := strings.Index(base, " ["); i >= 0 {
			base, variant = base[:i], true
		}
		if e.ForTest != "" {
			base, variant = e.ForTest, true
		} else if strings.HasSuffix(base, ".test") {
			base, variant = strings.TrimSuffix(base, ".test"), true
		}
		reason := ""
		switch {
		case e.Error != nil:
			reason = e.Error.Err
		case len(e.DepsErrors) > 0:
			reason = e.DepsErrors[0].Err
		case e.Incomplete:
			reason = "incomplete"
		case len(e.CgoFiles) > 0:
			reason = "uses cgo"
		}
		if reason != "" {
			if _, ok := dropped[base]; !ok {
				dropped[base] = c09FirstLine(reason)
			}
		}
		if variant {
			continue
		}
		res := func(list []string) []string {
			var out []string
			for _, ip := range list {
				if m, ok := e.ImportMap[ip]; ok {
					ip = m
				}
				if ip != "C" && ip != "unsafe" {
					out = append(out, ip)
				}
			}
			return out
		}
		abs := func(list []string) []string {
			var out []string
			for _, f := range list {
				out = append(out, filepath.Join(e.Dir, f))
			}
			return out
		}
		p := &corpusPkg{Path: e.ImportPath, Dir: e.Dir, Std: e.Standard,
			GoFiles: abs(e.GoFiles), TestFiles: append(abs(e.TestGoFiles), abs(e.XTestGoFiles)...),
			Imports: res(e.Imports), TestImports: append(res(e.TestImports), res(e.XTestImports)...), Deps: res(e.Deps)}
		if e.Module != nil {
			p.Module = e.Module.Path
		}
		if _, dup := byPath[p.Path]; !dup {
			byPath[p.Path] = p
			order = append(order, p.Path)
		}
	}
	sort.Strings(order)
	for _, ip := range order {
		if _, bad := dropped[ip]; bad {
			continue
		}
		if len(byPath[ip].GoFiles)+len(byPath[ip].TestFiles) == 0 {
			dropped[ip] = "no Go files"
			continue
		}
		pkgs = append(pkgs, byPath[ip])
	}
	return pkgs, dropped
}

func c09FirstLine(s string) string {
	if i := strings.IndexByte(s, '\n'); i >= 0 {
		s = s[:i]
	}
	if len(s) > 160 {
		s = s[:160]
	}
	return s
}

// c09DropReasons groups dropped packages by cause for the evidence record.
func c09DropReasons(dropped map[string]string) map[string]int {
	out := map[string]int{}
	for _, why := range dropped {
		switch {
		case strings.Contains(why, "module lookup disabled"), strings.Contains(why, "cannot find module"):
			out["needs a module that is not in the offline module cache"]++
		case strings.Contains(why, "build constraints exclude"):
			out["build constraints exclude all files"]++
		case strings.Contains(why, "cgo"):
			out["uses cgo"]++
		default:
			out[why]++
		}
	}
	return out
}

// ---------------------------------------------------------------------------------------------
// Independent pre-scan

// c09Keywords are the seven annotation keywords, without the at sign.
var c09Keywords = []string{"immutable", "constructor", "testonly", "packageonly", "implements", "mutable", "ignore"}

// c09KeywordLead is the harness's own reading of "the comment starts with a lowercase annotation
// keyword": a line comment whose text after the two slashes and after blanks (space, tab, form
// feed, carriage return) is an at sign directly followed by a keyword which is not continued by
// a letter, digit or underscore. It deliberately does not use GoGreement's regular expressions,
// and it errs on the side of calling something an annotation (`// @immutable.` counts).
func c09KeywordLead(text string) string {
	if !strings.HasPrefix(text, "//") {
		return "" // a /* */ comment is never an annotation by the statement
	}
	s := text[2:]
	i := 0
	for i < len(s) && (s[i] == ' ' || s[i] == '\t' || s[i] == '\f' || s[i] == '\r') {
		i++
	}
	if i >= len(s) || s[i] != '@' {
		return ""
	}
	s = s[i+1:]
	for _, k := range c09Keywords {
		if !strings.HasPrefix(s, k) {
			continue
		}
		rest := s[len(k):]
		if rest == "" {
			return k
		}
		c := rest[0]
		if c == '_' || (c >= '0' && c <= '9') || (c >= 'a' && c <= 'z') || (c >= 'A' && c <= 'Z') {
			continue // prefix of a longer word
		}
		return k
	}
	return ""
}

// c09Mentions reports whether a comment mentions a keyword in any letter case anywhere.
func c09Mentions(text string) bool {
	l := strings.ToLower(text)
	for _, k := range c09Keywords {
		if strings.Contains(l, "@"+k) {
			return true
		}
	}
	return false
}

type c09ScanResult struct {
	TopLevelDocHits []string // "file:line keyword" — puts the package out of the property's scope
	ElsewhereLeads  int      // keyword-leading comments that are NOT doc comments of top-level declarations (in scope)
	Mentions        int      // comments mentioning "@keyword" in any case, anywhere
	Comments        int
	TypeParams      bool // the file set declares a generic type or function
}

// c09ScanSource scans one file. Doc comments of top-level declarations are: the Doc of every
// GenDecl and FuncDecl in File.Decls and the Doc of every spec of such a GenDecl; every line of
// the comment group is looked at.
func c09ScanSource(filename string, src []byte, res *c09ScanResult) error {
	fset := token.NewFileSet()
	f, err := parser.ParseFile(fset, filename, src, parser.ParseComments|parser.SkipObjectResolution)
	if err != nil {
		return err
	}
	top := map[*ast.CommentGroup]bool{}
	mark := func(g *ast.CommentGroup) {
		if g != nil {
			top[g] = true
		}
	}
	for _, d := range f.Decls {
		switch d := d.(type) {
		case *ast.FuncDecl:
			mark(d.Doc)
			if d.Type.TypeParams != nil {
				res.TypeParams = true
			}
		case *ast.GenDecl:
			mark(d.Doc)
			for _, s := range d.Specs {
				switch s := s.(type) {
				case *ast.TypeSpec:
					mark(s.Doc)
					if s.TypeParams != nil {
						res.TypeParams = true
					}
				case *ast.ValueSpec:
					mark(s.Doc)
				case *ast.ImportSpec:
					mark(s.Doc)
				}
			}
		}
	}
	for _, g := range f.Comments {
		for _, c := range g.List {
			res.Comments++
			if c09Mentions(c.Text) {
				res.Mentions++
			}
			if k := c09KeywordLead(c.Text); k != "" {
				if top[g] {
					res.TopLevelDocHits = append(res.TopLevelDocHits, fmt.Sprintf("%s:%d @%s", filename, fset.Position(c.Pos()).Line, k))
				} else {
					res.ElsewhereLeads++
				}
			}
		}
	}
	return nil
}

func c09ScanPkg(p *corpusPkg) *c09ScanResult {
	res := &c09ScanResult{}
	for _, fn := range p.AllFiles() {
		src, err := os.ReadFile(fn)
		c09must(err)
		if err := c09ScanSource(fn, src, res); err != nil {
			common.Fatalf("pre-scan cannot parse %s: %v", fn, err)
		}
	}
	return res
}

// ---------------------------------------------------------------------------------------------
// Pattern sets

// c09QuickStd is the fixed list of the quick tier: every std package without a slash in its
// path plus a hand-picked set with one slash. It is intersected with what `go list std` reports.
func c09QuickStd(std []*corpusPkg) []*corpusPkg {
	extra := map[string]bool{}
	for _, p := range []string{"archive/tar", "compress/flate", "container/list", "crypto/tls", "crypto/x509", "database/sql",
		"encoding/gob", "encoding/json", "encoding/xml", "go/ast", "go/parser", "go/printer", "go/token", "go/types",
		"html/template", "io/fs", "log/slog", "math/big", "net/http", "net/url", "os/exec", "path/filepath",
		"regexp/syntax", "sync/atomic", "text/template"} {
		extra[p] = true
	}
	var out []*corpusPkg
	for _, p := range std {
		if !strings.Contains(p.Path, "/") || extra[p.Path] {
			out = append(out, p)
		}
	}
	return out
}

func c09Batches(pkgs []*corpusPkg, size int) [][]*corpusPkg {
	var out [][]*corpusPkg
	for len(pkgs) > 0 {
		n := size
		if n > len(pkgs) {
			n = len(pkgs)
		}
		out = append(out, pkgs[:n])
		pkgs = pkgs[n:]
	}
	return out
}

func c09Paths(pkgs []*corpusPkg) []string {
	var out []string
	for _, p := range pkgs {
		out = append(out, p.Path)
	}
	return out
}

// c09BasePkg maps a package id as the drivers print it ("p", "p_test", "p.test") to the corpus
// package it belongs to.
func c09BasePkg(id string, in map[string]bool) string {
	if in[id] {
		return id
	}
	for _, suf := range []string{"_test", ".test"} {
		if b := strings.TrimSuffix(id, suf); b != id && in[b] {
			return b
		}
	}
	return id
}

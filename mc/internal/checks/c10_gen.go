package checks

// Generated programs of C10. Family P1: every statement shape the checkers walk x every position
// (no enclosing function, generic code, methods, closures, second file, ...) x same / importing
// package, over declarations that carry every annotation. Family P2: odd annotation placements.

import (
	"fmt"
	"os"
	"path/filepath"
	"strings"
	"sync"
	"time"

	"verif/mc/internal/common"
	"verif/mc/internal/drv"
	"verif/mc/internal/prog"
)

const c10FakeIO = `package io

type Reader interface {
	Read(p []byte) (n int, err error)
}

type Writer interface {
	Write(p []byte) (n int, err error)
}
`

// c10DeclD is the declaring package: everything is annotated.
const c10DeclD = `package d

import "PREFIX/io"

var _ io.Reader

// K is a constant.
const K = 1

// Stringer is implemented by nothing here.
type Stringer interface{ String() string }

// Getter is a generic interface.
type Getter[V any] interface{ Get() V }

// T carries every annotation.
// @immutable
// @constructor New, Make
// @testonly
// @packageonly x
// @implements io.Reader
// @implements &Stringer
// @implements &Getter
type T struct {
	F int
	// @mutable
	M  int
	S  []int
	Mp map[string]int
	P  *T
}

// Helper is restricted.
// @testonly
// @packageonly x
func Helper() int { return 1 }

func New() *T { return &T{S: make([]int, 1), Mp: map[string]int{}, P: &T{P: &T{}}} }

// Get is restricted.
// @testonly
// @packageonly x
func (t *T) Get() int { return t.F }

// Val has a value receiver.
// @packageonly
func (t T) Val() int { return t.F }

// Box is generic.
// @immutable
// @constructor NewBox
// @testonly
// @packageonly x
// @implements &Getter
// @implements &Stringer
type Box[V any] struct {
	// @mutable
	W V
	V V
	L []V
}

func NewBox[V any](v V) *Box[V] { return &Box[V]{V: v, L: make([]V, 1)} }

// Get is restricted.
// @testonly
// @packageonly x
func (b *Box[V]) Get() V { return b.V }

// Set is restricted.
// @testonly
// @packageonly x
func (b *Box[V]) Set(v V) { b.V = v; b.L[0] = v }

// G is a generic function.
// @testonly
// @packageonly x
func G[V any](v V) V { return v }

// C is a counter.
// @immutable
// @constructor NewC
// @testonly
type C int

func (c *C) Inc() { *c++; *c += 1; *c = 5 }
`

// c10Stmts are self-contained blocks; "Q." is replaced by "d." in the importing package and by
// nothing in the declaring package.
var c10Stmts = []string{
	`{ var x Q.T; x.F = 1 }`,
	`{ var x Q.T; x.F += 1; x.F |= 1; x.F <<= 1; x.F &^= 1 }`,
	`{ var x Q.T; x.F++; x.F-- }`,
	`{ x := Q.New(); x.S[0] = 1; x.S[0]++; x.S[0] += 1 }`,
	`{ x := Q.New(); x.Mp["a"] = 1; x.Mp["a"]++; delete(x.Mp, "a"); clear(x.Mp) }`,
	`{ x := Q.New(); x.M = 2; x.M++ }`,
	`{ x := Q.New(); *x = Q.T{}; *x.P = Q.T{} }`,
	`{ x := Q.New(); x.P.P.F = 1 }`,
	`{ x := Q.New(); (*x).F = 1; (x.F) = 1; (x).F = 2; ((x)).S[0] = 3 }`,
	`{ x := Q.New(); q := &x.F; *q = 1; *q++ }`,
	`{ x := Q.New(); x.S = append(x.S, 1); copy(x.S, []int{1}) }`,
	`{ x := Q.New(); x.F, x.M = 1, 2; x.F, x.M = x.M, x.F; x.F, _ = func() (int, int) { return 1, 2 }() }`,
	`{ _ = Q.T{F: 1}; _ = &Q.T{}; _ = (&Q.T{}).F }`,
	`{ _ = new(Q.T); _ = new(*Q.T); _ = new([]Q.T); _ = new(int); _ = make([]Q.T, 1) }`,
	`{ var x Q.T; _ = x; var y, z Q.T; _, _ = y, z; var w *Q.T; _ = w; var v, u = Q.T{}, 1; _, _ = v, u }`,
	`{ _ = []Q.T{{F: 1}}; _ = map[string]Q.T{"a": {}}; _ = [2]*Q.T{{}, nil}; _ = struct{ X Q.T }{}; _ = [...]Q.T{2: {}} }`,
	`{ _ = Q.Helper(); f := Q.Helper; _ = f(); defer Q.Helper(); go Q.Helper() }`,
	`{ _ = Q.New().Get(); g := Q.New().Get; _ = g(); h := (*Q.T).Get; _ = h(Q.New()); _ = Q.T.Val(Q.T{}); _ = (*Q.T).Val(Q.New()) }`,
	`{ var i interface{} = Q.New(); _ = i.(*Q.T); _, _ = i.(Q.T); switch v := i.(type) { case *Q.T: v.F = 1; case Q.T: _ = v; case Q.Box[int], *Q.Box[string]: _ = v } }`,
	`{ for i := range Q.New().S { _ = i }; x := Q.New(); for x.F = 0; x.F < 1; x.F++ { }; for _, x.F = range []int{1} { }; for x.F, x.M = range []int{1} { } }`,
	`{ x := Q.New(); func() { x.F = 1 }(); defer func() { x.F = 2 }(); go func() { x.F = 3 }() }`,
	`{ b := Q.Box[int]{}; b.V = 1; b.W = 2; c := Q.NewBox(1); c.V++; c.L[0] = 2; c.W = 3; _ = new(Q.Box[string]); var e Q.Box[Q.T]; e.V.F = 1; e.W.F = 2 }`,
	`{ _ = Q.G[int](1); _ = Q.G(Q.T{}); f := Q.G[Q.T]; _ = f; _ = Q.NewBox("s").Get(); Q.NewBox(1).Set(2); _ = Q.NewBox[Q.T] }`,
	`{ var c Q.C; c.Inc(); c++; c = 3; c += 1; _ = c; p := &c; *p = 1; *p++; _ = Q.C(1) }`,
	`{ type L struct{ X Q.T }; var l L; l.X.F = 1; type L2 = Q.T; var l2 L2; l2.F = 1; _ = L2{}; type T2 Q.T; _ = T2(Q.T{}); var t2 T2; t2.F = 1 }`,
	`{ var sg Q.Stringer; _ = sg; var gt Q.Getter[int] = Q.NewBox(1); _ = gt.Get(); var x interface{ Get() int } = Q.New(); _ = x.Get() }`,
	`{ ch := make(chan Q.T, 1); ch <- Q.T{}; y := <-ch; y.F = 1; cp := make(chan *Q.T, 1); select { case v := <-cp: v.F = 1; default: } }`,
	`{ arr := [1]Q.T{}; arr[0].F = 1; m := map[string]*Q.T{}; m["a"].F = 1; fn := func() *Q.T { return Q.New() }; fn().F = 1; sl := []*Q.T{Q.New()}; sl[0].S[0] = 1 }`,
	`{ var e struct{ Q.T }; e.F = 1; e.T.F = 2; _ = e.Val(); var e2 struct{ *Q.T }; e2.T = Q.New(); e2.F = 1; _ = e2.Get() }`,
	`{ x := Q.New(); pp := &x; (*pp).F = 1; (**pp).F = 2; **pp = Q.T{} }`,
	`{ new := func(int) int { return 0 }; _ = new(1); T := 1; _ = T; Helper := func() int { return 0 }; _ = Helper(); New := 2; _ = New }`,
	`{ L: for { x := Q.New(); x.F = 1; if x.F > 0 { break L }; continue L }; goto E; E: }`,
	`{ new := func() int { return 0 }; _ = new(); make := func(a, b int) *Q.T { return nil }; make(1, 2).F = 1; { new := func(a, b int) int { return a }; _ = new(1, 2) } }`,
	`{ x := Q.New(); switch x.F = 1; x.F { case 1: x.F = 2; fallthrough; default: x.F++ }; if x.F = 3; x.F > 0 { x.F = 4 } else if x.M = 1; true { x.F = 5 } else { x.F = 6 } }`,
	`{ type E = error; var e E; _ = e; type E2 = E; var e2 E2 = nil; _ = e2; type E3 error; var e3 E3; _ = e3; _ = []error{nil}; _ = map[error]E{}; _ = struct{ error }{}; var f func(error) E; _ = f; _ = new(error); _ = new(E); _ = (*error)(nil); _ = error(nil); _ = E(nil); fn := error.Error; _ = fn; type A = any; _ = A(1); _ = new(A); _ = []A{1}; type CA = comparable; type CI interface{ comparable; error }; var x Q.T; x.F = 1 }`,
	`{ type W struct{ Q.T }; type RefA = *W; type RefD *W; var a RefA = &W{}; a.F = 1; a.S[0]++; var dd RefD = &W{}; dd.F++; dd.S[0] = 1; dd.M += 2; type W2 struct{ RefA }; var w2 W2; w2.F = 3; type W3 struct{ *W2 }; w3 := W3{&w2}; w3.F--; w3.Mp["k"] = 1 }`,
	`{ type PT = *Q.T; type DP *Q.T; var p PT = Q.New(); p.F = 1; var q DP = Q.New(); q.F++; (*q).S[0] = 2; type PP = *PT; var pp PP = &p; (*pp).F = 3; (**pp).M = 4 }`,
	`{ _ = len("a"); _ = cap([]int{}); _ = min(1, 2); _ = max(1, 2); _ = real(1i); _ = complex(1, 2); print(); println(); _ = recover(); defer panic(nil); _ = nil == error(nil); _ = true; const c = iota; _ = c; type B = byte; type R = rune; _ = B(1) == 2; _ = R(1) == 2; _ = []B("a"); _ = new(B); var s string; _ = s; _ = Q.T{F: len(s)}; _ = new(Q.T) }`,
}

type c10Position struct {
	Name  string
	OnlyD bool
	OnlyU bool
	// Files renders the files of the using code; header is "package p" plus the import (if any),
	// bare is "package p" alone.
	Files func(header, bare, block string) []prog.File
}

var c10Positions = []c10Position{
	{Name: "pkgvar-first-decl-of-first-file", Files: func(h, _, b string) []prog.File {
		return []prog.File{{Name: "a.go", Src: h + "var _ = func() int {\n\t" + b + "\n\treturn 0\n}()\n"}}
	}},
	{Name: "pkgvar-after-func", Files: func(h, _, b string) []prog.File {
		return []prog.File{{Name: "a.go", Src: h + "func before() int { return 1 }\n\nvar _ = func() int {\n\t" + b + "\n\treturn 0\n}()\n\nfunc after() {}\n"}}
	}},
	{Name: "func", Files: func(h, _, b string) []prog.File {
		return []prog.File{{Name: "a.go", Src: h + "func f1() {\n\t" + b + "\n}\n"}}
	}},
	{Name: "methods", Files: func(h, _, b string) []prog.File {
		return []prog.File{{Name: "a.go", Src: h + "type r1 struct{}\n\nfunc (r *r1) m() {\n\t" + b + "\n}\n\nfunc (*r1) m2() {\n\t" + b + "\n}\n\nfunc (_ r1) m3() {\n\t" + b + "\n}\n"}}
	}},
	{Name: "closure-in-func", Files: func(h, _, b string) []prog.File {
		return []prog.File{{Name: "a.go", Src: h + "func f2() {\n\tfunc() {\n\t\tfunc() {\n\t\t\t" + b + "\n\t\t}()\n\t}()\n}\n"}}
	}},
	{Name: "generic-func", Files: func(h, _, b string) []prog.File {
		return []prog.File{{Name: "a.go", Src: h + "func gf[V any, W comparable](v V, w W) {\n\t" + b + "\n}\n\nfunc usegf() { gf(1, \"s\"); gf[string, int](\"\", 1) }\n"}}
	}},
	{Name: "method-on-generic-type", Files: func(h, _, b string) []prog.File {
		return []prog.File{{Name: "a.go", Src: h + "type gr[V any] struct{ v V }\n\nfunc (r *gr[V]) m() {\n\t" + b + "\n}\n\nfunc (gr[_]) m2() {\n\t" + b + "\n}\n\nvar _ = gr[int]{}\n"}}
	}},
	{Name: "init", Files: func(h, _, b string) []prog.File {
		return []prog.File{{Name: "a.go", Src: h + "func init() {\n\t" + b + "\n}\n\nfunc init() {\n\t" + b + "\n}\n"}}
	}},
	{Name: "second-file-before-any-func", Files: func(h, bare, b string) []prog.File {
		return []prog.File{{Name: "a.go", Src: bare + "func last() int { return 1 }\n"},
			{Name: "b.go", Src: h + "var _ = func() int {\n\t" + b + "\n\treturn 0\n}()\n"}}
	}},
	{Name: "function-named-like-constructor", OnlyU: true, Files: func(h, _, b string) []prog.File {
		return []prog.File{{Name: "a.go", Src: h + "func New() {\n\t" + b + "\n}\n\nfunc NewBox() {\n\t" + b + "\n}\n"}}
	}},
	{Name: "inside-constructor", OnlyD: true, Files: func(h, _, b string) []prog.File {
		return []prog.File{{Name: "a.go", Src: h + "func Make() {\n\t" + b + "\n}\n\nfunc NewC() {\n\t" + b + "\n}\n"}}
	}},
	{Name: "test-file", Files: func(h, _, b string) []prog.File {
		return []prog.File{{Name: "a_test.go", Src: h + "func f3() {\n\t" + b + "\n}\n\nvar _ = f3\n"}}
	}},
	{Name: "method-on-annotated-type", OnlyD: true, Files: func(h, _, b string) []prog.File {
		return []prog.File{{Name: "a.go", Src: h + "func (t *T) mm() {\n\t" + b + "\n}\n\nfunc (b *Box[V]) mm() {\n\t" + b + "\n}\n\nfunc (c C) mm() {\n\t" + b + "\n}\n"}}
	}},
	{Name: "const-var-group-and-func-literal-field", Files: func(h, _, b string) []prog.File {
		return []prog.File{{Name: "a.go", Src: h + "var (\n\tv1 = 1\n\tv2 = func() int {\n\t\t" + b + "\n\t\treturn v1\n\t}\n)\n\nvar table = []struct{ f func() }{{f: func() {\n\t" + b + "\n}}}\n"}}
	}},
}

type c10Gen struct {
	ID    string // directory-safe, unique
	Shape string // structural name used in signatures
	P     *prog.Program
	Core  bool // also run on disk in the quick tier
}

func c10Prefix(id string) string { return "ex.com/m/" + id }

func c10P1() []c10Gen {
	var out []c10Gen
	for pi, pos := range c10Positions {
		for si, st := range c10Stmts {
			for _, pkg := range []string{"u", "d"} {
				if (pkg == "u" && pos.OnlyD) || (pkg == "d" && pos.OnlyU) {
					continue
				}
				id := fmt.Sprintf("p1_%02d_%02d_%s", pi, si, pkg)
				pre := c10Prefix(id)
				decl := strings.ReplaceAll(c10DeclD, "PREFIX", pre)
				ioPkg := prog.Pkg{Path: pre + "/io", Files: []prog.File{{Name: "io.go", Src: c10FakeIO}}}
				var p *prog.Program
				if pkg == "u" {
					block := strings.ReplaceAll(st, "Q.", "d.")
					files := pos.Files("package u\n\nimport \""+pre+"/d\"\n\n", "package u\n\n", block)
					for fi := range files {
						if strings.Contains(files[fi].Src, "import \"") {
							files[fi].Src += "\nvar _ = d.K\n" // keeps the import used without preceding the first declaration
						}
					}
					p = &prog.Program{Pkgs: []prog.Pkg{ioPkg,
						{Path: pre + "/d", Files: []prog.File{{Name: "d.go", Src: decl}}},
						{Path: pre + "/u", Files: files}}}
				} else {
					block := strings.ReplaceAll(st, "Q.", "")
					files := pos.Files("package d\n\n", "package d\n\n", block)
					// the using files come first so that "first declaration of the first file" holds
					files = append(files, prog.File{Name: "d.go", Src: decl})
					p = &prog.Program{Pkgs: []prog.Pkg{ioPkg, {Path: pre + "/d", Files: files}}}
				}
				out = append(out, c10Gen{ID: id, Shape: fmt.Sprintf("stmt%02d@%s/%s", si, pos.Name, pkg), P: p,
					Core: pi == 0 || (pi == 2 && pkg == "u")})
			}
		}
	}
	return out
}

// c10P2Src lists the odd placements. Each entry: name, then package path suffix / file name /
// source triples separated in the struct. PREFIX is replaced by the program's import path prefix.
type c10P2File struct{ Pkg, Name, Src string }

type c10P2Prog struct {
	Name  string
	Files []c10P2File // packages in dependency order
}

func c10P2() []c10Gen {
	long := strings.Repeat("a", 70000)
	wide := strings.Repeat(" ", 260)
	progs := []c10P2Prog{
		{"implements-generic", []c10P2File{{"d", "d.go", `package d

type Getter[V any] interface{ Get() V }

type Pair[K comparable, V any] interface {
	Key() K
	Val() V
}

// @implements &Getter
// @implements Getter[int]
// @implements &Pair
// @implements &d.Getter
type Box[V any] struct{ v V }

func (b *Box[V]) Get() V { return b.v }

// @implements &Getter
// @implements Getter
type IntBox struct{}

func (IntBox) Get() int { return 0 }

// @implements &Pair
type KV[K comparable, V any] struct {
	k K
	v V
}

func (p KV[K, V]) Key() K { return p.k }
func (p *KV[K, V]) Val() V { return p.v }

var _ = Box[int]{}
`}}},
		{"implements-underlying-interface", []c10P2File{{"d", "d.go", `package d

type Stringer interface{ String() string }

// @implements &Stringer
// @implements Stringer
type S2 Stringer

// @implements Stringer
// @implements &I2
type I2 interface {
	Stringer
	Extra()
}

// @implements &I2
// @implements Stringer
type S3 struct{ I2 }

// @implements &Stringer
type S4 struct{ *S3 }

// @implements I2
type S5 = S3

// @implements &Stringer
type F func() string

func (f F) String() string { return f() }
`}}},
		{"implements-builtins", []c10P2File{{"d", "d.go", `package d

// @implements error
// @implements &error
// @implements any
// @implements comparable
// @implements &comparable
// @implements int
// @implements &string
type E1 struct{}

func (E1) Error() string { return "" }

// @implements error
// @implements builtin.error
// @implements unsafe.Pointer
type E2 int

// @implements &E1
// @implements E2
// @implements E3
type E3 error

// @implements any
type A any
`}}},
		{"implements-type-sets", []c10P2File{{"d", "d.go", `package d

type Num interface{ ~int | ~float64 }

type Ord interface {
	comparable
	Less(o any) bool
}

type Mixed interface {
	~int
	String() string
}

type Empty interface{}

// @implements Num
// @implements &Ord
// @implements Mixed
// @implements Empty
type MyInt int

func (m MyInt) Less(o any) bool { return false }
func (m MyInt) String() string  { return "" }

func Sum[V Num](a, b V) V { return a + b }

var _ = Sum[MyInt](1, 2)
`}}},
		{"implements-signatures", []c10P2File{{"d", "d.go", `package d

type T struct{ F int }

type Box[V any] struct{ V V }

type Big interface {
	A(a ...int)
	B(f func(int) (string, error)) chan<- int
	C(m map[string][]*T) [3]int
	D(s struct{ X int }) interface{ M() }
	E(b Box[int]) *Box[string]
	F(pp **T) (n int, err error)
	G(...interface{})
	H(x [][]map[int]chan *T, y <-chan func(...T) *[]T)
	I(a, b int, c string) (x, y int)
	J(func(func(func())))
	unexported(T)
}

// @implements &Big
// @implements Big
type Impl struct{}

func (*Impl) A(a ...int)                                       {}
func (*Impl) B(f func(int) (string, error)) chan<- int         { return nil }
func (*Impl) C(m map[string][]*T) [3]int                       { return [3]int{} }
func (*Impl) D(s struct{ X int }) interface{ M() }             { return nil }
func (*Impl) E(b Box[int]) *Box[string]                        { return nil }
func (*Impl) F(pp **T) (n int, err error)                      { return 0, nil }
func (*Impl) G(...interface{})                                 {}
func (*Impl) H(x [][]map[int]chan *T, y <-chan func(...T) *[]T) {}
func (*Impl) I(a, b int, c string) (x, y int)                  { return 0, 0 }
func (*Impl) J(func(func(func())))                             {}
func (*Impl) unexported(T)                                     {}

// @implements &Big
type Partial struct{}

func (Partial) A(a []int)    {}
func (*Partial) G(...any)    {}
func (Partial) I() (int, int) { return 0, 0 }
`}}},
		{"annotations-on-aliases", []c10P2File{{"d", "d.go", `package d

type Stringer interface{ String() string }

// @immutable
// @constructor New
type T struct{ F int }

type Box[V any] struct{ V V }

// @implements &Stringer
// @immutable
// @constructor NewA
// @testonly
// @packageonly x
type A = T

// @immutable
// @constructor NewAP
type AP = *T

// @immutable
// @testonly
type BI = Box[int]

// @immutable
// @constructor NewGA
// @implements &Stringer
type GA[V any] = Box[V]

// @immutable
type Anon = struct{ X int }

// @testonly
type Iface = interface{ M() }

func use() {
	var a A
	a.F = 1
	_ = A{}
	var p AP = &T{}
	p.F = 2
	var b BI
	b.V = 3
	var g GA[string]
	g.V = "x"
	_ = GA[int]{}
	var n Anon
	n.X = 1
	var i Iface
	_ = i
}
`}, {"u", "u.go", `package u

import "PREFIX/d"

func use() {
	var a d.A
	a.F = 1
	_ = d.A{}
	_ = new(d.A)
	var p d.AP
	_ = p
	var b d.BI
	b.V = 3
	var g d.GA[string]
	g.V = "x"
	var n d.Anon
	n.X = 1
	var i d.Iface
	_ = i
}
`}}},
		{"implements-missing-and-import-spellings", []c10P2File{{"io", "io.go", c10FakeIO}, {"d", "d.go", `package d

import (
	xio "PREFIX/io"
)

var _ xio.Reader

// @implements Nope
// @implements nope.Thing
// @implements &xio.Nope
// @implements io.Reader
// @implements &xio.Reader
// @implements xio.Writer extra words, and "quotes"
// @implements &
// @implements
// @implements &&xio.Reader
// @implements xio.
// @implements .Reader
type T struct{}

func (*T) Read(p []byte) (n int, err error) { return 0, nil }
`}, {"e", "e.go", `package e

import . "PREFIX/io"

var _ Reader

// @implements Reader
// @implements io.Reader
// @implements &..Reader
type T struct{}
`}, {"f", "f.go", `package f

import _ "PREFIX/io"

// @implements io.Reader
// @implements &_.Reader
type T struct{}
`}}},
		{"implements-interface-of-other-package", []c10P2File{{"d", "d.go", `package d

type Getter[V any] interface{ Get() V }

type Stringer interface{ String() string }

type hidden interface{ secret() }

type WithHidden interface {
	hidden
	Open()
}
`}, {"u", "u.go", `package u

import "PREFIX/d"

var _ d.Stringer

// @implements &d.Getter
// @implements d.Stringer
// @implements &d.WithHidden
// @implements d.hidden
type T struct{}

func (T) Get() int       { return 0 }
func (*T) String() string { return "" }
func (T) Open()          {}
`}}},
		{"constructor-on-non-structs", []c10P2File{{"d", "d.go", `package d

// @constructor New
type N int

// @constructor New
type IF interface{}

// @constructor New
type Fn func()

// @constructor New
type Mp map[string]int

// @constructor New
type Ch chan int

// @constructor New
type Sl []int

// @constructor New
type Ar [2]int

// @constructor New
type PT *N

// @constructor New
type GS[V any] []V

// @constructor New, New, New,
type Dup struct{}

func New() {
	_ = N(1)
	_ = Sl{1}
}

func use() {
	_ = N(1)
	var n N
	_ = n
	_ = new(N)
	_ = []N{1}
	_ = map[N]N{}
	var i IF
	_ = i
	var f Fn = func() {}
	_ = Fn(nil)
	f()
	_ = Mp{}
	_ = make(Mp)
	_ = make(Ch)
	_ = Sl{1}
	_ = Ar{}
	var p PT
	_ = p
	_ = GS[int]{1}
	_ = new(GS[string])
	var g GS[N]
	_ = g
	_ = Dup{}
	_ = [](Sl){{1}}
	_ = map[string]Mp{"a": {"b": 1}}
}
`}}},
		{"mutable-on-embedded-and-odd-fields", []c10P2File{{"d", "d.go", `package d

type Other struct{ O int }

type Box[V any] struct{ V V }

type T struct{ F int }

// @immutable
type E struct {
	// @mutable
	T
	// @mutable
	*Other
	// @mutable
	Box[int]
	// @mutable
	a, b int
	// @mutable
	_ int
	// @mutable
	Fn func()
	/* @mutable */
	c int
	d int // @mutable
	// @mutable

	e int
	// @mutable
	// @mutable
	g struct {
		// @mutable
		h int
	}
}

func use() {
	var e E
	e.T.F = 1
	e.F = 2
	e.a = 1
	e.b = 1
	e.Other = nil
	e.O = 3
	e.V = 4
	e.Box.V = 5
	e.Fn = nil
	e.c, e.d, e.e = 1, 2, 3
	e.g.h = 1
	e.T = T{}
}

// @immutable
type Empty struct{}

// @immutable
type NoFields struct {
}
`}}},
		{"immutable-on-non-structs", []c10P2File{{"d", "d.go", `package d

// @immutable
type L []int

// @immutable
type M map[string]int

// @immutable
type P *L

// @immutable
type F func()

// @immutable
type I interface{ M() }

// @immutable
type Ch chan int

// @immutable
type A [3]int

// @immutable
type S string

func (l *L) Set() { (*l)[0] = 1; *l = nil }
func (l L) Set2()  { l[0] = 1 }
func (a *A) Set()  { a[0] = 1; (*a)[1] = 2; *a = A{} }
func (m M) Set()   { m["a"] = 1 }

type holder struct {
	l L
	m M
	a A
	i I
}

func use() {
	var l L = []int{1}
	l[0] = 1
	var m M = map[string]int{}
	m["a"] = 1
	var a A
	a[0] = 1
	var h holder
	h.l[0] = 1
	h.m["a"] = 1
	h.a[0] = 1
	h.l = nil
	h.i = nil
	var s S
	s += "x"
	_ = s
}
`}}},
		{"empty-files", []c10P2File{
			{"e", "a.go", "package e\n"},
			{"e", "b.go", "// only comments\n\n// @immutable\n\npackage e\n\n// trailing comment\n// @ignore ALL\n"},
			{"e", "c.go", "package e"},
			{"e", "d.go", "// @ignore ALL\npackage e\n\n// @ignore IMM\n"},
			{"e", "e.go", "/* @ignore ALL */ package e // @ignore CTOR\n// @ignore TONL"},
			{"e", "f.go", "package e\n\nimport ()\n\nconst ()\n\nvar ()\n\ntype ()\n"},
			{"g", "g.go", "// Package g has one type.\npackage g\n\n// @immutable\n// @constructor New\ntype T struct{ F int }\n\nfunc use() { var t T; t.F = 1 }\n"},
			{"g", "h.go", "package g\n"},
		}},
		{"ignore-positions", []c10P2File{{"d", "d.go", `// @ignore IMM01
package d

// @ignore ALL
import ()

// @immutable
// @constructor New
// @ignore CTOR
type T struct {
	// @ignore IMM
	F int // @ignore ALL
	// @ignore ALL
}

// @ignore
type I interface {
	// @ignore ALL
	M() // @ignore IMM01, , CTOR
	// @ignore all, imm01,
}

const (
	// @ignore ALL
	K = 1 // @ignore ALL
	// @ignore ALL
)

func empty() {
	// @ignore ALL
}

func empty2() { /* @ignore ALL */ }

func empty3() {} // @ignore ALL

func body() {
	var t T // @ignore CTOR03
	t.F = 1 // @ignore IMM01
	// @ignore ALL
	t.F = 2
	/* @ignore ALL */ t.F = 3 // @ignore IMM01
	if t.F > 0 { // @ignore ALL
		t.F = 4
		// @ignore ALL
	} else { // @ignore IMM
		// @ignore IMM
	}
	_ = T{ // @ignore CTOR
		// @ignore CTOR
		F: 1, // @ignore CTOR
		// @ignore CTOR
	}
	_ = fn(
		// @ignore ALL
		T{},
		// @ignore ALL
	)
	switch {
	// @ignore ALL
	case true:
		// @ignore ALL
	}
	for {
		// @ignore ALL
		break
		// @ignore ALL
	}
	func() {
		// @ignore ALL
	}()
	t.F = 5
	// @ignore IMM01, CTOR01, TONL01, PKGO01, IMPL01, IMM02, IMM03, IMM04, CTOR02, CTOR03, TONL02, TONL03, PKGO02, PKGO03, IMPL02, IMPL03, X, Y, Z, ALL
}

func fn(...T) int { return 0 }

var _ = func() int {
	// @ignore ALL
	var t T
	t.F = 1
	return 0
	// @ignore ALL
}()

//@ignore ALL
var g T // @ignore CTOR03

// @ignore ALL
`}, {"e", "e.go", "// @ignore ALL"+"\n"+`package e
// @ignore ALL
// @ignore ALL
`}}},
		{"receivers", []c10P2File{{"d", "d.go", `package d

// @immutable
// @constructor New
// @testonly
// @packageonly x
type T struct{ F int }

// @immutable
type Box[V any] struct{ V V }

// @testonly
// @packageonly x
func (T) A() {}

// @testonly
// @packageonly x
func (*T) B() {}

// @testonly
// @packageonly x
func (_ T) C() {}

// @testonly
// @packageonly x
func (_ *T) D() {}

// @testonly
// @packageonly x
func (b *Box[_]) X() {}

// @testonly
// @packageonly x
func (Box[V]) Y() {}

// @testonly
// @packageonly x
func (b Box[W]) Z(w W) { b.V = w }

type emb struct{ T }

type embp struct{ *T }

type unexp struct{}

// @testonly
// @packageonly
func (unexp) m() {}

func (t *T) reset() {
	*t = T{}
	t.F = 1
	func() { *t = T{}; t.F++ }()
	t2 := t
	*t2 = T{}
}

func (t T) copyset() { t.F = 1; (&t).F = 2 }

func other(t *T) { *t = T{}; t.F = 1 }

func use() {
	var t T
	t.A()
	t.B()
	t.C()
	(&t).D()
	T.A(t)
	(*T).B(&t)
	var e emb
	e.A()
	e.B()
	var ep embp
	ep.C()
	var b Box[int]
	b.X()
	b.Y()
	b.Z(1)
	Box[int].Y(b)
	(*Box[string]).X(nil)
	unexp{}.m()
	var i interface{ A() } = t
	i.A()
}
`}, {"u", "u.go", `package u

import "PREFIX/d"

type emb struct{ d.T }

func use() {
	var t d.T
	t.A()
	t.B()
	d.T.A(t)
	(*d.T).B(&t)
	var e emb
	e.A()
	e.C()
	var b d.Box[int]
	b.X()
	b.Z(1)
	d.Box[int].Y(b)
	f := t.A
	f()
	var i interface{ A() } = t
	i.A()
}
`}}},
		{"import-spellings", []c10P2File{{"d", "d.go", `package d

// @immutable
// @constructor New
// @testonly
// @packageonly
type T struct{ F int }

// @testonly
// @packageonly
func Helper() int { return 1 }
`}, {"x/d", "d.go", `package d

// @immutable
// @constructor New
// @testonly
// @packageonly x
type T struct{ F int }

// @testonly
func Helper() int { return 2 }
`}, {"dd", "other.go", `package other

// @immutable
// @constructor New
// @testonly
// @packageonly dd, other
type T struct{ F int }

// @packageonly PREFIX/u
func Helper() int { return 3 }
`}, {"u", "u.go", `package u

import (
	. "PREFIX/d"
	d2 "PREFIX/x/d"
	"PREFIX/dd"
	_ "PREFIX/x/d"
)

func use() {
	var t T
	t.F = 1
	_ = T{}
	_ = Helper()
	var t2 d2.T
	t2.F = 1
	_ = d2.Helper()
	var t3 other.T
	t3.F = 1
	_ = other.Helper()
	_ = new(other.T)
}
`}, {"d/u", "u.go", `package d

import up "PREFIX/d"

// a package that shares its name with the package it imports
func use() {
	var t up.T
	t.F = 1
	_ = up.Helper()
}
`}}},
		{"odd-declarations", []c10P2File{{"d", "d.go", `package d

// @testonly
// @packageonly x
func init() {}

// @testonly
// @packageonly x
func _() {}

// @testonly
// @packageonly x
// @testonly
// @packageonly y, z
// @packageonly
func Dup() {}

// @immutable
// @immutable
// @constructor A
// @constructor B
// @testonly
// @testonly
type (
	// inner doc without annotation
	G1 struct{ F int }

	G2 struct{ F int } // @immutable

	// @packageonly q
	G3 int
)

// @immutable
type _ struct{ F int }

// @testonly
var V int

// @packageonly
const K = 1

// @testonly
// @packageonly x
func Generic[A any, B comparable, C interface{ ~int }](a A, b B, c C) {}

// @testonly
func Variadic(a ...int) {}

type Iface interface {
	// @testonly
	// @packageonly
	M()
}

func use() {
	Dup()
	var g G1
	g.F = 1
	_ = G2{}
	var g3 G3
	_ = g3
	Generic(1, "a", 2)
	Generic[int, string, int](1, "a", 2)
	Variadic()
	Variadic([]int{1}...)
	_ = V + K
	var i Iface
	if i != nil {
		i.M()
	}
}
`}, {"u", "u.go", `package u

import "PREFIX/d"

func use() {
	d.Dup()
	var g d.G1
	g.F = 1
	_ = d.G2{}
	var g3 d.G3
	_ = g3
	d.Generic(1, "a", 2)
	d.Generic[int, string, int](1, "a", 2)
	f := d.Generic[int, int, int]
	f(1, 2, 3)
	d.Variadic()
	var i d.Iface
	if i != nil {
		i.M()
	}
}
`}}},
		{"selectors-and-type-positions", []c10P2File{{"d", "d.go", `package d

// @immutable
// @constructor New
// @testonly
// @packageonly x
type T struct {
	F  int
	Fn func() int
	In interface{ Get() int }
}

// @testonly
// @packageonly x
func (t *T) Get() int { return t.F }

// @testonly
// @packageonly x
var Hook = func() int { return 1 }

// @testonly
// @packageonly x
type Box[V any] struct{ V V }

// @packageonly x
type Con interface{ ~int | ~string }

const K = 1
`}, {"u", "u.go", `package u

import "PREFIX/d"

type S struct {
	d.T
	P  *d.T
	B  d.Box[d.T] ` + "`json:\"b\"`" + `
	Fs []func(d.T) *d.T
	M  map[*d.T]d.Box[*d.T]
}

type Al = d.T

type Def d.T

type Gen[V d.Con, W interface{ *d.T }] struct{ v V }

func f1[V d.Con](v V) d.T { return d.T{F: d.K} }

func f2(t d.T, ts ...d.T) (r d.T, err error) { return }

func use() {
	var s S
	_ = s.Fn
	_ = s.T.Fn()
	_ = s.In.Get()
	_ = s.P.Get()
	_ = s.Get()
	_ = d.Hook()
	h := d.Hook
	_ = h
	_ = f1[int](1)
	_, _ = f2(d.T{}, d.T{F: 1}, Al{})
	var g Gen[int, *d.T]
	_ = g
	var x interface{} = s
	switch x.(type) {
	case d.T, *d.T, d.Box[int], Def, Al2:
	}
	_ = [](d.T){}
	_ = (d.T)(Def{})
	_ = Def(d.T{})
	_ = func(d.T) d.T { return d.T{} }
	var arr [d.K]d.T
	_ = arr
	_ = len([d.K]d.T{})
	_ = struct{ d.T }{}.F
}

type Al2 = *d.Box[string]
`}}},
		{"recursive-types", []c10P2File{{"d", "d.go", `package d

// @immutable
// @constructor NewR
// @implements &Node
type R struct {
	Next *R
	Kids []R
	M    map[string]R
	F    func(R) R
}

type Node interface {
	Self() Node
	Kids2() []Node
	Map() map[Node]Node
}

func (r *R) Self() Node         { return r }
func (r *R) Kids2() []Node      { return nil }
func (r *R) Map() map[Node]Node { return nil }

// @immutable
// @implements &Cmp
type Tree[V any] struct {
	L, R *Tree[V]
	V    V
}

type Cmp[V any] interface{ Less(V) bool }

// @implements &Cmp
type Int int

func (i Int) Less(o Int) bool { return i < o }

func Min[V Cmp[V]](a, b V) V {
	if a.Less(b) {
		return a
	}
	return b
}

type A struct{ B *B }

// @immutable
type B struct{ A *A }

func use() {
	r := &R{}
	r.Next.Next.Next = nil
	r.Kids[0].Kids[0].Next = r
	t := &Tree[int]{}
	t.L.R.V = 1
	t.L = nil
	_ = Min(Int(1), Int(2))
	var a A
	a.B.A.B.A = nil
}
`}}},
		{"long-lines-and-odd-bytes", []c10P2File{{"d", "d.go", `package d

// @immutable
// @constructor New
type T struct{ F int }
`}, {"u", "a.go", "package u\n\nimport \"PREFIX/d\"\n\nfunc wide() {\n\tvar t *d.T\n" + wide + "t.F = 1\n\t_ = \"" + strings.Repeat("x", 150) + "\"; t.F = 2; _ = \"" + strings.Repeat("y", 150) + "\"; t.F = 3\n}\n"},
			{"u", "b.go", "package u\n\nimport \"PREFIX/d\"\n\nvar _ = \"" + long + "\"\n\nfunc afterLong() { var t *d.T; t.F = 1 }\n"},
			{"u", "c.go", "package u\r\n\r\nimport \"PREFIX/d\"\r\n\r\nfunc crlf() {\r\n\tvar t *d.T\r\n\tt.F = 1\r\n}\r\n"},
			{"u", "d.go", "\ufeffpackage u\n\nimport \"PREFIX/d\"\n\nfunc bom() {\n\tvar t *d.T\n\t/* 世界\té */ t.F = 1 // 世界\n\t_ = \"  \"; t.F = 2\n}\n"},
			{"u", "e.go", "package u\n\nimport \"PREFIX/d\"\n\nfunc noNewline() { var t *d.T; t.F = 1 }\n\nvar last = d.T{}"},
			{"u", "f.go", "package u; import \"PREFIX/d\"; var first = d.T{}; func oneLine() { var t *d.T; t.F = 1 }\n"},
			{"u", "g.go", "package u\n\nimport \"PREFIX/d\"\n\nfunc lineDirectives() {\n\tvar t *d.T\n//line /nonexistent/x.go:99999\n\tt.F = 1\n//line g.go:1\n\tt.F = 2\n//line g.go:100000:7\n\tt.F = 3\n/*line :1:1*/ t.F = 4\n//line other.go:3\n\tt.F = 5\n}\n"},
			// //line directives combined with @ignore comments in every placement (generated code carries both)
			{"u", "h.go", "// @ignore TONL\npackage u\n\nimport \"PREFIX/d\"\n\n//line gen.tmpl:9000\nfunc lineAndIgnore() {\n\tvar t *d.T\n\tt.F = 1 // @ignore IMM01\n\t// @ignore IMM\n\tt.F = 2\n//line gen.tmpl:1\n\tt.F = 3 // @ignore ALL\n}\n\n//line other.tmpl:70000\nvar afterLine = d.T{} // @ignore CTOR01\n\n// @ignore CTOR\n//line third.tmpl:5\nvar afterLine2 = d.T{}\n"},
		}},
		{"universe-objects", []c10P2File{{"d", "d.go", `package d

import "unsafe"

// Failure is an alias of a predeclared named type (its TypeName has no package).
// @immutable
// @constructor NewFailure
// @testonly
// @packageonly x
// @implements error
type Failure = error

// Cmp aliases the other predeclared named type.
// @packageonly x
type Cmp = comparable

// Any aliases any.
// @testonly
type Any = any

// Ptr aliases unsafe.Pointer.
// @immutable
// @packageonly x
type Ptr = unsafe.Pointer

// W embeds error.
// @immutable
// @constructor NewW
// @testonly
// @packageonly x
// @implements error
// @implements &error
type W struct {
	error
	// @mutable
	Any
	P Ptr
	F int
}

// E3 is defined over error.
// @immutable
// @implements error
type E3 error

// @constructor NewFailure
func NewFailure() Failure { return nil }

func NewW() *W { return &W{} }

// Err is restricted.
// @testonly
// @packageonly x
func Err(e error) Failure { return e }

func C[V Cmp](v V) V { return v }

func own() {
	var f Failure
	_ = f
	_ = Err(nil)
	w := W{}
	w.error = nil
	w.Any = 1
	w.F = 1
	w.P = nil
	_ = w.Error
	_ = C(1)
	var e3 E3
	_ = e3
	_ = unsafe.Sizeof(w)
	_ = (*W)(unsafe.Pointer(&w))
}
`}, {"u", "u.go", `package u

import (
	"unsafe"

	"PREFIX/d"
)

type Failure = error

type Failure2 = d.Failure

type Cmp = comparable

type local struct {
	error
	d.Failure
}

var G d.Failure

var G2 Failure = d.Err(nil)

func use(e error, f d.Failure, p d.Ptr) (Failure, d.Any) {
	var x d.Failure
	_ = x
	var y Failure
	_ = y
	var z Failure2
	_ = z
	_ = d.Err(e)
	w := d.W{}
	w.F = 1
	w.P = unsafe.Pointer(&w)
	w.Any = nil
	_ = new(d.W)
	_ = new(d.Failure)
	_ = new(Failure)
	_ = []d.Failure{nil}
	_ = d.C[int]
	_ = d.E3(nil)
	var e3 d.E3
	_ = e3
	_ = local{}
	_ = unsafe.Pointer(nil)
	_ = d.Ptr(nil)
	_ = unsafe.Sizeof(p)
	return nil, nil
}
`}}},
		{"shadowing", []c10P2File{{"d", "d.go", `package d

// @immutable
// @constructor New
// @testonly
// @packageonly x
type T struct{ F int }

// @testonly
// @packageonly x
func Helper() int { return 1 }

func New() *T { return &T{} }
`}, {"u", "u.go", `package u

import "PREFIX/d"

type holder struct {
	Helper func() int
	New    int
	T      int
}

type other struct{}

func (other) New() *d.T    { return d.New() }
func (other) Helper() int  { return 0 }

func f(d int) int { return d }

func use() {
	T := 1
	_ = T
	Helper := func() int { return 0 }
	_ = Helper()
	var h holder
	h.Helper = Helper
	_ = h.Helper()
	h.T = 1
	h.New++
	_ = other{}.New()
	_ = other{}.Helper()
	{
		type T struct{ F int }
		var t T
		t.F = 1
		_ = T{}
	}
	{
		d := struct{ T struct{ F int } }{}
		d.T.F = 1
	}
T:
	for {
		break T
	}
	new := 1
	_ = new
}
`}}},
	}
	var out []c10Gen
	// defined types that refer to themselves without a struct in between: anything that unwraps pointers / elements
	// "until a named type is reached" meets the same named type again
	progs = append(progs, c10P2Prog{"recursive-defined-types", []c10P2File{{"d", "d.go", `package d

// Link is a pointer to itself.
// @immutable
// @constructor NewLink
// @testonly
// @packageonly x
type Link *Link

// A and B point at each other.
// @testonly
type A *B

// @packageonly x
type B *A

// S, M, F, C, Arr are recursive through their element / result types.
// @immutable
// @testonly
type S []S

// @constructor NewM
// @packageonly x
type M map[string]M

// @testonly
type F func() F

// @immutable
type C chan C

// Helper is restricted.
// @testonly
// @packageonly x
func Helper() int { return 0 }

func NewLink() Link { return nil }

func NewM() M { return M{} }

var head Link

var ab A

type holder struct {
	L  Link
	PL *Link
	S  S
	M  M
	F  F
	C  C
	A  A
	B  B
}

func useD(l Link, pl **Link, s S, m M, f F, c C) (Link, S) {
	var z Link
	var h holder
	h.S = S{S{}, nil}
	h.M = M{"k": M{}}
	m["k"] = nil
	s[0] = nil
	h.F = f()
	h.L = *l
	*pl = &z
	_ = new(Link)
	_ = new(S)
	_ = []Link{nil}
	_ = Helper()
	return head, h.S
}

var _ = useD
`}, {"u", "u.go", `package u

import "PREFIX/d"

type wrap struct {
	Link d.Link
	S    d.S
	d.M
}

func useU(l d.Link, s d.S, m d.M, f d.F, a d.A, b d.B) d.Link {
	var z d.Link
	var w wrap
	w.S = d.S{nil}
	w.Link = l
	m["k"] = d.M{}
	s[0] = d.S{}
	_ = f()()
	_ = *a
	_ = **b
	_ = new(d.Link)
	_ = []d.S{{}}
	_ = map[string]d.M{"k": {}}
	_ = d.Helper()
	return z
}

var _ = useU
`}}})
	// programs with exactly ONE annotation: every keyword on every kind of declaration it may stand on, alone in the
	// module (whatever index or registry a checker builds starts empty and receives this one entry first)
	for _, one := range []struct{ kw, line string }{
		{"immutable", "// @immutable"}, {"constructor", "// @constructor New"}, {"testonly", "// @testonly"},
		{"packageonly", "// @packageonly x"}, {"packageonly-bare", "// @packageonly"}, {"implements", "// @implements &Doer"}, {"mutable", "// @mutable"},
	} {
		for _, site := range []string{"type", "func", "ptr-method", "value-method", "field", "generic-method"} {
			at := func(k string) string {
				if k == site {
					return one.line + "\n"
				}
				return ""
			}
			atField := ""
			if site == "field" {
				atField = "\t" + one.line + "\n"
			}
			d := "package d\n\ntype Doer interface{ Do() int }\n\n" +
				at("type") + "type T struct {\n" + atField + "\tF int\n\tS []int\n}\n\n" +
				at("func") + "func New() *T { return &T{S: make([]int, 1)} }\n\n" +
				at("ptr-method") + "func (t *T) Set(v int) { t.F = v; t.S[0] = v; t.F++ }\n\n" +
				at("value-method") + "func (t T) Get() int { return t.F }\n\n" +
				"type G[V any] struct{ X V }\n\n" +
				at("generic-method") + "func (g *G[V]) Put(v V) { g.X = v }\n\n" +
				"func useD() int {\n\tt := T{}\n\tt.F = 1\n\tp := new(T)\n\tp.Set(2)\n\tvar g G[int]\n\tg.Put(3)\n\treturn t.Get() + New().Get()\n}\n\nvar _ = useD\n"
			u := "package u\n\nimport \"PREFIX/d\"\n\nfunc useU() int {\n\tt := d.T{}\n\tt.F = 1\n\tt.F += 2\n\tt.S = nil\n\tp := new(d.T)\n\tp.Set(2)\n\tvar z d.T\n\tvar g d.G[string]\n\tg.Put(\"x\")\n\tf := p.Set\n\tf(3)\n\treturn t.Get() + z.Get() + d.New().Get()\n}\n\nvar _ = useU\n"
			ut := "package u\n\nimport \"PREFIX/d\"\n\nfunc useT() int { return d.New().Get() }\n\nvar _ = useT\n"
			progs = append(progs, c10P2Prog{"single-annotation-" + one.kw + "-on-" + site, []c10P2File{{"d", "d.go", d}, {"u", "u.go", u}, {"u", "u_test.go", ut}}})
		}
	}
	for i, pg := range progs {
		id := fmt.Sprintf("p2_%02d", i)
		pre := c10Prefix(id)
		var pkgs []prog.Pkg
		for _, f := range pg.Files {
			path := pre + "/" + f.Pkg
			src := strings.ReplaceAll(f.Src, "PREFIX", pre)
			if n := len(pkgs); n > 0 && pkgs[n-1].Path == path {
				pkgs[n-1].Files = append(pkgs[n-1].Files, prog.File{Name: f.Name, Src: src})
			} else {
				pkgs = append(pkgs, prog.Pkg{Path: path, Files: []prog.File{{Name: f.Name, Src: src}}})
			}
		}
		out = append(out, c10Gen{ID: id, Shape: pg.Name, P: &prog.Program{Pkgs: pkgs}, Core: true})
	}
	return out
}

// c10Generated runs both families in-process under default and scan-tests, and on disk with both
// real drivers (quick: the core subset; thorough: everything).
// c10InProcessHang bounds one in-process analysis of a generated program (each normally takes a few milliseconds).
const c10InProcessHang = 90 * time.Second

func c10Generated(run *common.Run, root string, thorough bool) {
	gens := append(c10P1(), c10P2()...)
	run.Count("generated_programs", len(gens))
	// compile check first: a program that does not compile is a generator bug
	loaded := make([]*prog.Loaded, len(gens))
	for i, g := range gens {
		ld, err := prog.Load(g.P)
		if err != nil {
			common.Fatalf("C10 generated program %s (%s) does not compile: %v\n%s", g.ID, g.Shape, err, g.P.Text())
		}
		loaded[i] = ld
	}
	inProcessHung := false
	for _, cfg := range c09Configs[:2] {
		if inProcessHung {
			break
		}
		c09SetInProcessConfig(cfg)
		for i, g := range gens {
			if inProcessHung {
				break // whatever blocked the analysis (a leaked lock, a spinning goroutine) stays in this process
			}
			// watchdog: these programs take milliseconds; an analysis that is still running after the bound is a hang
			var res *prog.Result
			done := make(chan struct{})
			go func() { defer close(done); res = prog.Analyze(loaded[i], prog.Opts{}) }()
			select {
			case <-done:
			case <-time.After(c10InProcessHang):
				inProcessHung = true
				run.Report(common.Cex{Sig: "hang|where=" + g.Shape + "|in-process",
					Summary: fmt.Sprintf("in-process analysis of generated program %s (%s) did not finish within %s (the previous %d programs took milliseconds each)", g.Shape, cfg.Name, c10InProcessHang, i),
					Detail:  map[string]any{"program": g.P.Text(), "config": cfg.Name}})
				continue
			}
			if res.Panic != "" {
				// second execution before it is believed; also yields the stack
				_, _, ptxt, stack := c10Analyze(loaded[i].Pkgs)
				if ptxt == "" {
					ptxt = res.Panic
				}
				c10ReportCrash(run, g.Shape, ptxt, stack, map[string]any{"program": g.P.Text(), "config": cfg.Name, "driver": "in-process"})
			}
			for _, e := range res.Errs {
				if strings.Contains(e, "failed prerequisites") {
					continue
				}
				run.Report(common.Cex{Sig: "crash|where=" + g.Shape + "|analyzer error: " + c10PanicLine(e),
					Summary: fmt.Sprintf("analyzer error on generated program %s (%s): %s", g.Shape, cfg.Name, e), Detail: map[string]any{"program": g.P.Text()}})
			}
			nt := ""
			if len(res.Diags) > 0 {
				nt = "gen|" + g.ID + "|" + cfg.Name
			}
			run.State(1, strings.Join(prog.Keys(res.Diags), ","), nt)
			run.Count("generated_diagnostics_produced", len(res.Diags))
			if i%401 == 3 && cfg.Name == "default" {
				run.Sample(map[string]any{"generated": g.Shape, "diagnostics": len(res.Diags)})
			}
		}
	}
	c09SetInProcessConfig(c09Configs[0])

	// on disk: one module holding every selected program under its own directory
	dir := filepath.Join(root, "gen")
	all := &prog.Program{}
	var sel []c10Gen
	for _, g := range gens {
		if thorough || g.Core {
			sel = append(sel, g)
			all.Pkgs = append(all.Pkgs, g.P.Pkgs...)
		}
	}
	drv.WriteModule(dir, all)
	run.Count("generated_programs_on_disk", len(sel))
	var wg sync.WaitGroup
	for _, d := range []drv.Driver{drv.Standalone, drv.Vet} {
		for _, cfg := range c09Configs[:2] {
			wg.Add(1)
			go func(d drv.Driver, cfg c09Config) {
				defer wg.Done()
				out, _ := c10RunWithBound(drv.Req{Driver: d, Dir: dir, Flags: cfg.Flags, Env: c10DriverEnv}, c10HangMinimum)
				if out == nil {
					run.Report(common.Cex{Sig: fmt.Sprintf("hang|where=generated programs|driver=%s", d), Summary: fmt.Sprintf("%s on the generated programs still running after %s", d, c10HangMinimum)})
					return
				}
				if crash := c10CrashText(out, d); crash != "" {
					found := false
					for _, g := range sel {
						if found || !c10Attribute(crash) {
							break
						}
						o1, _ := c10RunWithBound(drv.Req{Driver: d, Dir: dir, Flags: cfg.Flags, Env: c10DriverEnv, Patterns: []string{"./" + g.ID + "/..."}}, c10HangMinimum)
						if o1 != nil && c10CrashText(o1, d) != "" {
							found = true
							c10Attributed(crash)
							c10ReportCrash(run, g.Shape, c10CrashText(o1, d), c10StackOf(o1), map[string]any{"program": g.P.Text(), "config": cfg.Name, "driver": d.String(), "cmd": o1.Cmd})
						}
					}
					if !found {
						c10ReportCrash(run, "generated programs (all)", crash, c10StackOf(out), map[string]any{"config": cfg.Name, "driver": d.String(), "cmd": out.Cmd})
					}
				} else if out.Exit != 0 {
					common.Fatalf("%s exited %d on the generated programs without crash marker:\n%s", out.Cmd, out.Exit, c09Tail(out.Stderr))
				}
				n := map[string]int{}
				for _, dg := range out.Diags {
					parts := strings.Split(strings.TrimPrefix(dg.Pkg, "ex.com/m/"), "/")
					n[parts[0]]++
				}
				for _, g := range sel {
					nt := ""
					if n[g.ID] > 0 {
						nt = "gen-disk|" + g.ID + "|" + cfg.Name + "|" + d.String()
					}
					run.State(1, fmt.Sprintf("%s|%s|%s|%d", g.ID, cfg.Name, d, n[g.ID]), nt)
				}
				run.Count("generated_on_disk_diagnostics_produced", len(out.Diags))
			}(d, cfg)
		}
	}
	wg.Wait()
	_ = os.Remove
}

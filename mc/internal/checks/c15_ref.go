package checks

import (
	"unicode"
	"unicode/utf8"
)

// Reference recogniser for C15: a hand-written, left-to-right reading of the documented
// annotation grammar. It deliberately uses no regular expressions and shares no code with the
// implementation.
//
//	line      = "//" blank* "@" K ( end | blank+ [argument] [blank+ text] )
//	blank     = space | tab | form feed | carriage return
//	K         = immutable | constructor | testonly | packageonly | implements | mutable | ignore   (lowercase)
//	implements argument (required)  = ["&"] [word "."] word          word = [A-Za-z0-9_]+
//	constructor argument (required) = list(identifier)               identifier = [A-Za-z_][A-Za-z0-9_]*
//	ignore argument (required)      = list(code)                     code = [A-Za-z0-9]+ , reported upper-cased
//	packageonly argument (optional) = list(path)                     path = [A-Za-z0-9_/.-]+
//	list(x)   = x ( blank* "," blank* x )* [ blank* "," ]
//
// The argument is the longest list that is followed by end of line or a blank. A required
// argument that does not parse means the line is not an annotation; an optional argument that
// does not parse means "no argument, the rest is ignored text".

var c15Keywords = []string{"immutable", "constructor", "testonly", "packageonly", "implements", "mutable", "ignore"}

type c15Ref struct {
	Near  bool     // '@' is the first non-blank character after "//"
	Kind  string   // "" = not an annotation
	Names []string // constructor names | allowed packages (without the declaring one) | codes (upper-cased)
	Ptr   bool
	Pkg   string
	Iface string
	// NJ names the not-judged class the line falls in ("" = fully judged). For the required
	// lists (constructor, ignore) a non-empty NJ means "whether the line is an annotation is not
	// judged"; for packageonly it means "it is an annotation, the list is not judged".
	NJ string
}

const (
	c15NJTrailing = "a list whose trailing comma is followed, after whitespace, by further non-blank text (`@constructor New, 1x`, `@packageonly a, ,b`, `@ignore IMM01, -`): list-with-trailing-comma plus ignored text, or a malformed list?"
	c15NJComma    = "whitespace-separated text after the list that itself begins with a comma (`@constructor New ,1x`, `@packageonly a ,;`): ignored text, or a malformed list continuation?"
	c15NJUnicode  = "@constructor names containing non-ASCII letters (`@constructor é`, `@constructor New,é`): the statement says 'Go identifiers' (which may be Unicode), the project documentation only shows ASCII names"
)

func c15Blank(b byte) bool { return b == ' ' || b == '\t' || b == '\f' || b == '\r' }

func c15Word(b byte) bool {
	return b == '_' || (b >= '0' && b <= '9') || (b >= 'a' && b <= 'z') || (b >= 'A' && b <= 'Z')
}

func c15Alnum(b byte) bool {
	return (b >= '0' && b <= '9') || (b >= 'a' && b <= 'z') || (b >= 'A' && b <= 'Z')
}

func c15Letter(b byte) bool { return (b >= 'a' && b <= 'z') || (b >= 'A' && b <= 'Z') }

// item scanners: length in bytes of the longest item starting at s[p:], 0 if none.
func c15IdentASCII(s string, p int) int {
	if p >= len(s) || !(c15Letter(s[p]) || s[p] == '_') {
		return 0
	}
	n := 1
	for p+n < len(s) && c15Word(s[p+n]) {
		n++
	}
	return n
}

func c15IdentUnicode(s string, p int) int {
	n := 0
	for p+n < len(s) {
		r, w := utf8.DecodeRuneInString(s[p+n:])
		if r == utf8.RuneError && w <= 1 {
			break
		}
		if r == '_' || unicode.IsLetter(r) || (n > 0 && unicode.IsDigit(r)) {
			n += w
			continue
		}
		break
	}
	return n
}

func c15Code(s string, p int) int {
	n := 0
	for p+n < len(s) && c15Alnum(s[p+n]) {
		n++
	}
	return n
}

func c15Path(s string, p int) int {
	n := 0
	for p+n < len(s) {
		b := s[p+n]
		if c15Word(b) || b == '/' || b == '.' || b == '-' {
			n++
			continue
		}
		break
	}
	return n
}

func c15SkipBlanks(s string, p int) int {
	for p < len(s) && c15Blank(s[p]) {
		p++
	}
	return p
}

// c15List reads the list argument starting at s[a:]. ok=false: no well-formed list there.
// nj is the not-judged class of the chosen reading ("" if none).
func c15List(s string, a int, item func(string, int) int) (names []string, ok bool, nj string) {
	var items []string
	var itemEnd []int  // position just after item k
	var commaEnd []int // position just after the comma that follows item k, or -1
	p := a
	n := item(s, p)
	if n == 0 {
		return nil, false, ""
	}
	for {
		items = append(items, s[p:p+n])
		p += n
		itemEnd = append(itemEnd, p)
		commaEnd = append(commaEnd, -1)
		q := c15SkipBlanks(s, p)
		if q >= len(s) || s[q] != ',' {
			break
		}
		commaEnd[len(commaEnd)-1] = q + 1
		r := c15SkipBlanks(s, q+1)
		n = item(s, r)
		if n == 0 {
			break
		}
		p = r
	}
	follows := func(e int) bool { return e == len(s) || c15Blank(s[e]) }
	for k := len(items) - 1; k >= 0; k-- {
		for _, trailing := range []bool{true, false} {
			e := itemEnd[k]
			if trailing {
				e = commaEnd[k]
				if e < 0 {
					continue
				}
			}
			if !follows(e) {
				continue
			}
			t := c15SkipBlanks(s, e)
			if t < len(s) {
				if trailing {
					nj = c15NJTrailing
				} else if s[t] == ',' {
					nj = c15NJComma
				}
			}
			return items[:k+1], true, nj
		}
	}
	return nil, false, ""
}

func c15Upper(s string) string {
	b := []byte(s)
	for i, c := range b {
		if c >= 'a' && c <= 'z' {
			b[i] = c - 'a' + 'A'
		}
	}
	return string(b)
}

func c15SameList(a, b []string) bool {
	if len(a) != len(b) {
		return false
	}
	for i := range a {
		if a[i] != b[i] {
			return false
		}
	}
	return true
}

// c15Reference classifies one comment exactly as it appears in ast.Comment.Text.
func c15Reference(text string) c15Ref {
	var r c15Ref
	if len(text) < 2 || text[0] != '/' || text[1] != '/' {
		return r // block comments are not comment *lines*
	}
	i := c15SkipBlanks(text, 2)
	if i >= len(text) || text[i] != '@' {
		return r
	}
	r.Near = true
	kw, j := "", 0
	for _, k := range c15Keywords {
		e := i + 1 + len(k)
		if e <= len(text) && text[i+1:e] == k && (e == len(text) || c15Blank(text[e])) {
			kw, j = k, e
			break
		}
	}
	if kw == "" {
		return r
	}
	a := c15SkipBlanks(text, j) // a == len(text): no argument
	switch kw {
	case "immutable", "testonly", "mutable":
		r.Kind = kw
	case "implements":
		p := a
		if p < len(text) && text[p] == '&' {
			r.Ptr = true
			p++
		}
		n := 0
		for p+n < len(text) && c15Word(text[p+n]) {
			n++
		}
		if n == 0 {
			return c15Ref{Near: true}
		}
		w1 := text[p : p+n]
		p += n
		if p+1 < len(text) && text[p] == '.' && c15Word(text[p+1]) {
			m := 0
			for p+1+m < len(text) && c15Word(text[p+1+m]) {
				m++
			}
			r.Pkg, r.Iface = w1, text[p+1:p+1+m]
			p += 1 + m
		} else {
			r.Iface = w1
		}
		if p != len(text) && !c15Blank(text[p]) {
			return c15Ref{Near: true}
		}
		r.Kind = kw
	case "constructor":
		// Go identifiers: a Unicode letter or '_' followed by Unicode letters, digits and '_'
		names, ok, nj := c15List(text, a, c15IdentUnicode)
		if ok {
			r.Kind, r.Names, r.NJ = kw, names, nj
		}
	case "ignore":
		names, ok, nj := c15List(text, a, c15Code)
		if ok {
			r.Kind, r.NJ = kw, nj
			for _, n := range names {
				r.Names = append(r.Names, c15Upper(n))
			}
		}
	case "packageonly":
		names, ok, nj := c15List(text, a, c15Path)
		r.Kind = kw
		if ok {
			r.Names, r.NJ = names, nj
		}
	}
	return r
}

package checks

import (
	"fmt"
	"sort"
	"strings"

	"verif/mc/internal/common"
	"verif/mc/internal/e1"
)

// C13: enforcement follows type identity, not spelling. Metamorphic: every state of the
// IMM/CTOR history space is analysed with the subject type named directly and again with every
// identical-type spelling; the per-site verdicts must be equal.
func C13(tier common.Tier) int {
	run := common.NewRun("C13", tier, "model_checking")
	depth := 1
	if tier == "thorough" {
		depth = 2
	}
	run.SetRule("state = (family IMM|CTOR, package d|u, annotation mix, declaration history, spelling); each state is analysed by the real analyzers twice — subject type named directly and under the spelling — and the per-site verdicts (site identity -> codes) must be identical. Non-trivial = the direct spelling yields at least one diagnostic.",
		fmt.Sprintf("all histories of depth<=%d over the C01/C02 encloser alphabet x 2 files, 3 annotation mixes, spellings {local alias, alias in a third package, renamed import, parenthesised type, alias of pointer type, dot import (IMM/CTOR: with the using package's own T removed), alias declared inside the function body (use universe)}", depth))
	run.Assume("go/types identical-type semantics; the direct spelling's verdicts are judged separately by C01/C02")
	run.NotJudged("generic aliases")
	fams := []*e1.Family{&e1.FamIMM, &e1.FamCTOR}
	spells := []e1.Spell{e1.SpLocalAlias, e1.SpThirdAlias, e1.SpRenamedImp, e1.SpParen, e1.SpPtrAlias}
	mixes := []e1.Mix{{Imm: true, Ctor: 1, Mut: true}, {Imm: true, Ctor: 2}, {Imm: true, Ctor: 0, Mut: false, Extra: 2}}
	common.Sharded(run, common.NumWorkers(), func(run *common.Run, sh common.Shard) {
		idx := 0
		for _, fam := range fams {
			sites := fam.Sites()
			for _, inU := range []bool{false, true} {
				alpha := e1.Alphabet(fam, inU, []int{0, 1})
				for _, mix := range mixes {
					e1.Histories(alpha, depth, -1, func(_ int, h []e1.Block) {
						idx++
						if !sh.Mine(idx) {
							return
						}
						base := &e1.Spec{InU: inU, Mix: mix, Blocks: h, Sites: sites}
						bo := e1.Observe(fam, base)
						for _, sp := range spells {
							if !inU && (sp == e1.SpThirdAlias || sp == e1.SpRenamedImp) {
								continue
							}
							v := *base
							v.Spell = sp
							vo := e1.Observe(fam, &v)
							compareSpell(run, fam, &v, bo, vo)
						}
						if inU {
							// dot import: only possible when the using package declares no T of its own
							nb := *base
							nb.Mix.NoOwn = true
							nbo := e1.Observe(fam, &nb)
							v := nb
							v.Spell = e1.SpDotImport
							compareSpell(run, fam, &v, nbo, e1.Observe(fam, &v))
						}
						if idx%997 == 1 {
							run.Sample(map[string]any{"family": fam.Name, "spec": e1.SpecJSON(base), "spellings": len(spells)})
						}
					})
				}
			}
		}
		// Use-site universe (@testonly / @packageonly): statement sequences under each spelling.
		useSites := e1.UseSites()
		for _, fam := range []string{"TONL", "PKGO"} {
			var all []int
			for i, st := range useSites {
				if fam == "TONL" && !st.TONL {
					continue
				}
				all = append(all, i)
			}
			pkgs := []e1.UsePkg{e1.UPkgU, e1.UPkgD}
			if fam == "PKGO" {
				pkgs = []e1.UsePkg{e1.UPkgU, e1.UPkgW}
			}
			for _, pk := range pkgs {
				for _, mix := range []e1.UseMix{{TestOnly: true, Allow: 4}, {TestOnly: true, Allow: 1, AnnOrder: 1}} {
					for _, encl := range []e1.UseEncl{e1.UEPlain, e1.UEPkgVar, e1.UEMethQ, e1.UETestOnlyMeth, e1.UETestOnlyFunc} {
						// the @testonly enclosers (their receiver is spelled through an alias under the alias spellings; everything
						// in them is exempt for C03, nothing for C04): single statements and core pairs, first file only
						light := encl == e1.UETestOnlyMeth || encl == e1.UETestOnlyFunc
						for _, file := range []int{0, 1} {
							if light && file == 1 {
								continue
							}
							// all sequences of length <= 2 over the whole alphabet (quick: pairs with a core statement); thorough adds length 3 over the core statements
							var coreIdx []int
							for _, i := range all {
								if useSites[i].Core {
									coreIdx = append(coreIdx, i)
								}
							}
							visit := func(emit func(st []int)) {
								if light {
									seqs(all, 1, emit)
									seqs(coreIdx, 2, func(st []int) {
										if len(st) == 2 {
											emit(st)
										}
									})
									return
								}
								seqs(all, 2, func(st []int) {
									if depth == 1 && len(st) == 2 && !useSites[st[0]].Core && !useSites[st[1]].Core {
										return // quick tier: pairs with at least one core statement
									}
									emit(st)
								})
								if depth > 1 {
									seqs(coreIdx, 3, func(st []int) {
										if len(st) == 3 {
											emit(st)
										}
									})
								}
							}
							visit(func(st []int) {
								idx++
								if !sh.Mine(idx) {
									return
								}
								blocks := []e1.UseBlock{{Encl: encl, File: file, Stmts: st}, {Encl: e1.UEStructField, File: 1}}
								base := &e1.UseSpec{Pkg: pk, Mix: mix, Sites: useSites, Blocks: blocks}
								bb, brest, bcrash, _ := e1.UseObserve(fam, base)
								for _, sp := range []e1.Spell{e1.SpLocalAlias, e1.SpThirdAlias, e1.SpRenamedImp, e1.SpDotImport, e1.SpBodyAlias, e1.SpMixedAlias, e1.SpDeclAlias, e1.SpDeclAliasDot} {
									if pk.Path != e1.PathD && sp == e1.SpDeclAlias {
										continue // importers name the declaring package's alias bare, under a dot import (the next spelling)
									}
									if pk.Path == e1.PathD && sp != e1.SpLocalAlias && sp != e1.SpMixedAlias && sp != e1.SpDeclAlias {
										continue
									}
									v := *base
									v.Spell = sp
									vb, vrest, vcrash, text := e1.UseObserve(fam, &v)
									compareUseSpell(run, fam, &v, bb, vb, brest, vrest, bcrash, vcrash, text)
								}
							})
						}
					}
				}
			}
		}
	})
	return run.Finish()
}

// compareUseSpell: codes reported for every reference (TONL02/03, PKGO02/03) must be equal site by
// site; the once-per-file codes (TONL01, PKGO01) are compared as "which types are reported in the
// using package", because an alias declaration is itself the first mention of the type.
//
// That exception is needed only where the alias declaration is: under the local-alias spelling in file a.go. In every
// other file, and under the spellings that add no declaration to the using package (alias in a third package, renamed
// import, dot import), the once-per-file codes are compared site by site as well.
func compareUseSpell(run *common.Run, fam string, v *e1.UseSpec, bb, vb map[string]string, brest, vrest []string, bcrash, vcrash, text string) {
	fileOf := func(key string) int {
		var id int
		fmt.Sscanf(key, "%d.", &id)
		if id >= 1 && id <= len(v.Blocks) {
			return v.Blocks[id-1].File
		}
		return 0
	}
	sp := e1.SpellNames[v.Spell]
	if bcrash != "" || vcrash != "" {
		if bcrash != vcrash {
			run.Report(common.Cex{Sig: fmt.Sprintf("crash|%s|spell=%s", fam, sp), Summary: "analysis crashes under one spelling only: " + vcrash + bcrash,
				Detail: map[string]any{"spec": e1.UseSpecString(v), "program": text}})
		}
		run.State(1, "crash", "")
		return
	}
	once := fam + "01"
	typesOf := func(m map[string]string) string {
		set := map[string]bool{}
		for k, codes := range m {
			if strings.Contains(codes, once) {
				switch {
				case strings.Contains(k, "Mock2"):
					set["Mock2"] = true
				default:
					set["Mock"] = true
				}
			}
		}
		var l []string
		for t := range set {
			l = append(l, t)
		}
		sort.Strings(l)
		return strings.Join(l, "+")
	}
	strip := func(codes string) string {
		var l []string
		for _, c := range strings.Split(codes, ",") {
			if c != "" && c != once {
				l = append(l, c)
			}
		}
		return strings.Join(l, ",")
	}
	nt := ""
	var out strings.Builder
	var keys []string
	for k := range bb {
		keys = append(keys, k)
	}
	sort.Strings(keys)
	for _, k := range keys {
		b, w := strip(bb[k]), strip(vb[k])
		// an alias declaration is a reference for C04 but none of the uses C03 lists: only PKGO01 can move onto it
		if fam == "TONL" || (v.Spell != e1.SpBodyAlias && ((v.Spell != e1.SpLocalAlias && v.Spell != e1.SpMixedAlias) || fileOf(k) != 0)) {
			b, w = bb[k], vb[k]
		}
		if bb[k] != "" {
			nt = e1.UseSpecString(v) + fam
		}
		out.WriteString(vb[k] + ";")
		if b != w {
			run.Report(common.Cex{Sig: fmt.Sprintf("usespell|%s|spell=%s|pkg=%s|site=%s|direct=%s|variant=%s", fam, sp, v.Pkg.Path, k[strings.Index(k, "/")+1:], b, w),
				Summary: fmt.Sprintf("%s: reference %q gets [%s] when named directly, [%s] under spelling %s; %s", fam, k, b, w, sp, e1.UseSpecString(v)),
				Detail:  map[string]any{"spec": e1.UseSpecString(v), "program": text}})
		}
	}
	if bt, vt := typesOf(bb), typesOf(vb); bt != vt {
		run.Report(common.Cex{Sig: fmt.Sprintf("usespell-types|%s|spell=%s|pkg=%s|direct=%s|variant=%s", fam, sp, v.Pkg.Path, bt, vt),
			Summary: fmt.Sprintf("%s: types reported in the using package differ: direct {%s}, under spelling %s {%s}; %s", once, bt, sp, vt, e1.UseSpecString(v)),
			Detail:  map[string]any{"spec": e1.UseSpecString(v), "direct": bb, "variant": vb, "program": text}})
	}
	if strings.Join(brest, ";") != "" {
		run.Report(common.Cex{Sig: fmt.Sprintf("nonsite|%s|direct", fam), Summary: "diagnostic outside candidate sites under the direct spelling: " + strings.Join(brest, ";"),
			Detail: map[string]any{"spec": e1.UseSpecString(v)}})
	}
	_ = vrest // under alias spellings the alias declaration line is a recorded site; anything else is checked by C03/C04
	run.State(1, out.String(), nt)
}

func compareSpell(run *common.Run, fam *e1.Family, v *e1.Spec, bo, vo *e1.Observation) {
	sp := e1.SpellNames[v.Spell]
	pk := "d"
	if v.InU {
		pk = "u"
	}
	if bo.Crash != "" || vo.Crash != "" {
		if bo.Crash != vo.Crash {
			run.Report(common.Cex{Sig: fmt.Sprintf("crash|%s|spell=%s|pkg=%s", fam.Name, sp, pk),
				Summary: fmt.Sprintf("analysis crashes under one spelling only (%s): direct=%q variant=%q", sp, bo.Crash, vo.Crash),
				Detail:  map[string]any{"spec": e1.SpecJSON(v), "program": vo.Text}})
		}
		run.State(len(v.Blocks), "crash", "")
		return
	}
	var keys []string
	for k := range bo.BySite {
		keys = append(keys, k)
	}
	sort.Strings(keys)
	nt := ""
	var out strings.Builder
	for _, k := range keys {
		b, w := bo.BySite[k], vo.BySite[k]
		if b != "" {
			nt = fmt.Sprintf("%v|%s|%s", e1.SpecJSON(v), fam.Name, sp)
		}
		out.WriteString(w + ";")
		if b == w {
			continue
		}
		parts := strings.SplitN(k, "/", 3)
		bi := 1
		fmt.Sscanf(parts[0], "%d", &bi)
		bi-- // site ids carry the 1-based block id
		if bi < 0 || bi >= len(v.Blocks) {
			bi = 0
		}
		run.Report(common.Cex{
			Sig: fmt.Sprintf("spell|%s|spell=%s|pkg=%s|encl=%s|site=%s|direct=%s|variant=%s", fam.Name, sp, pk, v.Blocks[bi].Encl, parts[1], b, w),
			Summary: fmt.Sprintf("statement %q in %s of package %s gets [%s] when the type is named directly but [%s] under spelling %q",
				parts[1], v.Blocks[bi].Encl, pk, b, w, sp),
			Detail: map[string]any{"spec": e1.SpecJSON(v), "site": k, "direct": b, "variant": w, "program": vo.Text}})
	}
	if len(vo.NonSite) > 0 || len(bo.NonSite) > 0 {
		if strings.Join(vo.NonSite, ";") != strings.Join(bo.NonSite, ";") {
			run.Report(common.Cex{Sig: fmt.Sprintf("nonsite|%s|spell=%s|pkg=%s", fam.Name, sp, pk),
				Summary: fmt.Sprintf("diagnostics outside candidate sites differ under spelling %s: direct=%v variant=%v", sp, bo.NonSite, vo.NonSite),
				Detail:  map[string]any{"spec": e1.SpecJSON(v), "program": vo.Text}})
		}
	}
	run.State(len(v.Blocks)+1, out.String(), nt)
}

func init() { Register("C13", C13) }

package checks

import (
	"fmt"
	"os"
	"path/filepath"
	"sort"
	"strings"
	"sync"

	"github.com/a14e/gogreement/src/analyzer"

	"verif/mc/internal/common"
	"verif/mc/internal/drv"
	"verif/mc/internal/prog"
)

type c09Config struct {
	Name         string
	Flags        []string // for the real drivers
	ScanTests    string   // for the in-process ConfigReader
	ExcludePaths string
}

var c09Configs = []c09Config{
	{"default", nil, "false", "testdata"},
	{"scan-tests", []string{"-config.scan-tests=true"}, "true", "testdata"},
	{"exclude-paths-empty", []string{"-config.exclude-paths="}, "false", ""},
}

// c09SetInProcessConfig drives the real ConfigReader of this process to the configuration.
func c09SetInProcessConfig(c c09Config) {
	if err := analyzer.ConfigReader.Flags.Set("scan-tests", c.ScanTests); err != nil {
		common.Fatalf("flag scan-tests: %v", err)
	}
	if err := analyzer.ConfigReader.Flags.Set("exclude-paths", c.ExcludePaths); err != nil {
		common.Fatalf("flag exclude-paths: %v", err)
	}
	if err := analyzer.ConfigReader.Flags.Set("exclude-checks", ""); err != nil {
		common.Fatalf("flag exclude-checks: %v", err)
	}
	resetConfig()
}

// C09: code without annotations is never reported.
func C09(tier common.Tier) int {
	run := common.NewRun("C09", tier, "exploration")
	thorough := tier == "thorough"
	run.SetRule("two finite spaces, both enumerated completely on the real code. (1) Corpus: every package of the Go standard library (CGO_ENABLED=0) and of the modules GoGreement depends on that loads offline, minus packages in which the harness's own scanner finds a doc comment of a top-level declaration starting with an annotation keyword; each package is analysed by the real binary (`gogreement -json`) and by `go vet -vettool -json` under the configurations default, scan-tests=true and exclude-paths=(empty); oracle: no diagnostic, no analyzer error, no crash marker, exit status 0. One state per (package, configuration, driver). (2) Near-miss programs: attachment site x place in the comment group x near-miss spelling x keyword, plus well-formed annotations at the sites that are not doc comments of a top-level declaration; two packages with would-be violations of every kind, analysed in-process (checker.Analyze over the real analyzers) under the same three configurations; oracle: no diagnostic. Positive controls (a real annotation at a doc site must produce diagnostics of its family) guard against a vacuous generator. Non-trivial = a program or package whose comments mention an @keyword.",
		map[bool]string{false: "quick: fixed list of std packages + golang.org/x/tools/go/analysis/...; full near-miss space", true: "thorough: all of std + all packages of x/tools v0.38.0, x/mod, x/sync, testify, yaml.v3, go-spew, go-difflib, ahocorasick; full near-miss space"}[thorough])
	run.Assume("go list, go/parser, go/types, the x/tools drivers and the go command are trusted",
		"\"starts with a keyword\" is read as: a // comment whose text after blanks (space, tab, FF, CR) is '@' + keyword not continued by a letter, digit or underscore; every line of a doc comment group counts",
		"doc comments of top-level declarations = Doc of every GenDecl / FuncDecl of a file and of every spec inside such a GenDecl",
		"in-process configurations are set through the real flag set plus the VerifResetConfig hook (build tag verif)")
	run.NotJudged("well-formed annotations placed as doc comment of a var, const or import declaration (they are doc comments of a top-level declaration, so the statement's precondition does not hold)",
		"well-formed `// @ignore` as doc comment of a top-level declaration (same reason)",
		"packages that do not load offline or that the pre-scan removes (counted in coverage.extra)",
		"cgo files and files excluded by build constraints on linux/amd64")

	drv.Binary()
	// the near-miss space runs in this process (sequentially: the configuration is process-wide)
	// while the corpus keeps the real drivers busy in child processes
	done := make(chan struct{})
	go func() { defer close(done); c09NearMiss(run) }()
	c09Corpus(run, thorough)
	<-done
	return run.Finish()
}

func c09Corpus(run *common.Run, thorough bool) {
	root := drv.Scratch()
	defer os.RemoveAll(root)
	dir := filepath.Join(root, "consumer")
	c09WriteConsumer(dir, "")

	std, stdDropped := c09List(dir, []string{"std"})
	var modPatterns []string
	if thorough {
		for _, m := range c09Modules {
			modPatterns = append(modPatterns, m+"/...")
		}
	} else {
		std = c09QuickStd(std)
		modPatterns = []string{"golang.org/x/tools/go/analysis/..."}
	}
	mods, modDropped := c09List(dir, modPatterns)
	all := append(append([]*corpusPkg(nil), std...), mods...)
	dropped := map[string]string{}
	for k, v := range stdDropped {
		dropped[k] = v
	}
	for k, v := range modDropped {
		dropped[k] = v
	}
	run.Count("corpus_packages_listed", len(all)+len(dropped))
	run.Count("corpus_dropped_do_not_load_offline", len(dropped))
	for why, n := range c09DropReasons(dropped) {
		run.Count("corpus_dropped: "+why, n)
	}

	// independent pre-scan
	scans := make([]*c09ScanResult, len(all))
	drv.ParallelDo(len(all), common.NumWorkers(), func(i int) { scans[i] = c09ScanPkg(all[i]) })
	var corpus []*corpusPkg
	mention := map[string]bool{}
	var removed []string
	for i, p := range all {
		s := scans[i]
		run.Count("corpus_files_scanned", len(p.AllFiles()))
		run.Count("corpus_comments_scanned", s.Comments)
		if len(s.TopLevelDocHits) > 0 {
			removed = append(removed, p.Path+" ("+s.TopLevelDocHits[0]+")")
			continue
		}
		run.Count("corpus_keyword_leading_comments_not_on_top_level_docs", s.ElsewhereLeads)
		run.Count("corpus_comments_mentioning_a_keyword", s.Mentions)
		if s.TypeParams {
			run.Count("corpus_packages_with_generics", 1)
		}
		if s.Mentions > 0 {
			mention[p.Path] = true
		}
		corpus = append(corpus, p)
	}
	run.Count("corpus_prescan_removed", len(removed))
	if len(removed) > 0 {
		run.Sample(map[string]any{"prescan_removed": removed})
	}
	run.Count("corpus_packages_analysed", len(corpus))
	if len(corpus) < 50 {
		common.Fatalf("corpus has only %d packages; dropped: %v", len(corpus), dropped)
	}

	// std and module packages are batched separately so that a batch never mixes the two
	var batches [][]*corpusPkg
	var stdC, modC []*corpusPkg
	for _, p := range corpus {
		if p.Std {
			stdC = append(stdC, p)
		} else {
			modC = append(modC, p)
		}
	}
	batches = append(c09Batches(stdC, 40), c09Batches(modC, 40)...)
	type cell struct {
		batch  int
		cfg    c09Config
		driver drv.Driver
	}
	var cells []cell
	for _, d := range []drv.Driver{drv.Vet, drv.Standalone} {
		for _, c := range c09Configs {
			for b := range batches {
				cells = append(cells, cell{b, c, d})
			}
		}
	}
	run.Count("corpus_driver_invocations", len(cells))
	workers := common.NumWorkers()
	if workers > 8 {
		workers = 8
	}
	var mu sync.Mutex
	sampled := 0
	drv.ParallelDo(len(cells), workers, func(i int) {
		c := cells[i]
		b := batches[c.batch]
		out := drv.Run(drv.Req{Driver: c.driver, Dir: dir, Flags: c.cfg.Flags, Env: map[string]string{"CGO_ENABLED": "0"}, Patterns: c09Paths(b)})
		in := map[string]bool{}
		for _, p := range b {
			in[p.Path] = true
		}
		if crash := c10CrashText(out, c.driver); crash != "" {
			run.Report(common.Cex{Sig: fmt.Sprintf("corpus|crash|driver=%s|config=%s|%s", c.driver, c.cfg.Name, c09FirstLine(crash)),
				Summary: fmt.Sprintf("%s (%s) did not end normally on unannotated packages %s..%s: %s", c.driver, c.cfg.Name, b[0].Path, b[len(b)-1].Path, c09FirstLine(crash)),
				Detail:  map[string]any{"cmd": out.Cmd, "dir": "scratch consumer module (see c09_corpus.go)", "crash": crash}})
		} else if out.Exit != 0 && len(out.Diags) == 0 {
			// the pre-listing step exists so that this cannot happen; it is a harness problem, not a verdict
			common.Fatalf("%s exited %d without diagnostics or crash marker:\n%s", out.Cmd, out.Exit, c09Tail(out.Stderr))
		}
		byPkg := map[string][]prog.Diag{}
		for _, d := range out.Diags {
			k := c09BasePkg(d.Pkg, in)
			byPkg[k] = append(byPkg[k], d)
		}
		for k, ds := range byPkg {
			codes := map[string]bool{}
			for _, d := range ds {
				codes[d.Code] = true
			}
			for code := range codes {
				var first prog.Diag
				for _, d := range ds {
					if d.Code == code {
						first = d
						break
					}
				}
				run.Report(common.Cex{Sig: fmt.Sprintf("corpus|pkg=%s|code=%s", k, code),
					Summary: fmt.Sprintf("unannotated package %s gets %s from %s (%s): %s:%d:%d %s", k, code, c.driver, c.cfg.Name, first.File, first.Line, first.Col, c09FirstLine(first.Message)),
					Detail:  map[string]any{"cmd": out.Cmd, "config": c.cfg.Name, "driver": c.driver.String(), "diagnostics": len(ds), "first": first}})
			}
		}
		for _, p := range b {
			nt := ""
			if mention[p.Path] {
				nt = "corpus|" + p.Path + "|" + c.cfg.Name + "|" + c.driver.String()
			}
			run.State(1, fmt.Sprintf("%s|%d", p.Path, len(byPkg[p.Path])), nt)
		}
		mu.Lock()
		if sampled < 2 && i%7 == 0 {
			sampled++
			run.Sample(map[string]any{"driver": c.driver.String(), "config": c.cfg.Name, "first_package": b[0].Path, "packages_in_batch": len(b), "exit": out.Exit})
		}
		mu.Unlock()
	})
}

func c09Tail(s string) string {
	if len(s) > 3000 {
		return s[len(s)-3000:]
	}
	return s
}

func c09NearMiss(run *common.Run) {
	type item struct {
		site  c09Site
		place string
		form  string // form name, or "well-formed"
		kw    string
		text  string
	}
	var items []item
	for _, s := range c09Sites {
		places := []string{"solo"}
		if c09TakesLines(s) {
			places = c09Places
		}
		for _, kw := range c09Keywords {
			for _, pl := range places {
				for _, f := range c09Forms {
					items = append(items, item{s, pl, f.Name, kw, f.Make(kw, c09Arg[kw])})
				}
				if !s.TopLevelDoc {
					items = append(items, item{s, pl, "well-formed", kw, "// @" + kw + c09Arg[kw]})
				}
			}
		}
	}
	run.Count("nearmiss_programs", len(items))
	for _, cfg := range c09Configs {
		c09SetInProcessConfig(cfg)
		// positive controls: a real annotation at a doc site produces diagnostics of its family
		for _, ctl := range []struct{ site, kw string }{
			{"doc-lone-type", "immutable"}, {"doc-lone-type", "constructor"}, {"doc-lone-type", "testonly"}, {"doc-lone-type", "packageonly"}, {"doc-lone-type", "implements"},
			{"doc-spec-in-group", "immutable"}, {"doc-of-group", "constructor"}, {"doc-func", "testonly"}, {"doc-func", "packageonly"}, {"doc-method", "testonly"}, {"doc-method", "packageonly"},
		} {
			var site c09Site
			for _, s := range c09Sites {
				if s.Name == ctl.site {
					site = s
				}
			}
			p := c09Program(site, "after-text", "// @"+ctl.kw+c09Arg[ctl.kw])
			res, err := prog.Run(p, prog.Opts{})
			if err != nil {
				common.Fatalf("C09 control program does not compile: %v\n%s", err, p.Text())
			}
			n := 0
			for _, d := range res.Diags {
				if strings.HasPrefix(d.Code, c09Categories[ctl.kw]) {
					n++
				}
			}
			if res.Panic != "" || len(res.Errs) > 0 {
				run.Report(common.Cex{Sig: fmt.Sprintf("nearmiss|site=%s|comment=control|code=crash", ctl.site),
					Summary: fmt.Sprintf("analysis of the positive-control program (@%s at %s, %s) fails: panic=%q errs=%v", ctl.kw, ctl.site, cfg.Name, res.Panic, res.Errs),
					Detail:  map[string]any{"program": p.Text(), "config": cfg.Name}})
				continue
			}
			if n == 0 {
				// The control is a guard against a vacuous generator, not a verdict of this property (that a real annotation
				// is enforced is C01–C05's business). It is recorded and the run goes on: if the analyzers carry state from one
				// program to the next, the annotation-free programs below are where that shows as a C09 violation.
				run.Count("nearmiss_positive_controls_silent", 1)
				run.NotExhaustive(fmt.Sprintf("positive control %s/@%s under %s produced no %s diagnostic: the near-miss programs of that family may be vacuous", ctl.site, ctl.kw, cfg.Name, c09Categories[ctl.kw]))
				continue
			}
			run.Count("nearmiss_positive_controls_fired", 1)
		}
		for i, it := range items {
			p := c09Program(it.site, it.place, it.text)
			if err := c09SelfCheck(p); err != nil {
				common.Fatalf("C09 generator: %s/%s/%s/@%s: %v\n%s", it.site.Name, it.place, it.form, it.kw, err, p.Text())
			}
			res, err := prog.Run(p, prog.Opts{})
			if err != nil {
				common.Fatalf("C09 near-miss program does not compile: %v\n%s", err, p.Text())
			}
			if res.Panic != "" || len(res.Errs) > 0 {
				run.Report(common.Cex{Sig: fmt.Sprintf("nearmiss|site=%s|comment=%s|code=crash", it.site.Name, it.form),
					Summary: fmt.Sprintf("analysis of a program with %q at %s (%s) fails: panic=%q errs=%v", it.text, it.site.Name, cfg.Name, res.Panic, res.Errs),
					Detail:  map[string]any{"program": p.Text(), "config": cfg.Name}})
			}
			codes := map[string]bool{}
			for _, d := range res.Diags {
				codes[d.Code] = true
			}
			var cl []string
			for c := range codes {
				cl = append(cl, c)
			}
			sort.Strings(cl)
			if len(cl) > 0 {
				// second execution before a counterexample is believed
				again, err := prog.Run(p, prog.Opts{})
				if err != nil || strings.Join(prog.Keys(again.Diags), ",") != strings.Join(prog.Keys(res.Diags), ",") {
					common.Fatalf("C09 near-miss counterexample does not reproduce: %v vs %v", prog.Keys(res.Diags), err)
				}
			}
			for _, code := range cl {
				run.Report(common.Cex{Sig: fmt.Sprintf("nearmiss|site=%s|comment=%s|code=%s", it.site.Name, it.form, code),
					Summary: fmt.Sprintf("comment %q (@%s, %s) at %s, place %s, config %s produces %s: %v", it.text, it.kw, it.form, it.site.Name, it.place, cfg.Name, code, prog.Keys(res.Diags)),
					Detail:  map[string]any{"program": p.Text(), "config": cfg.Name, "keyword": it.kw, "place": it.place, "diagnostics": res.Diags}})
			}
			run.State(1, strings.Join(cl, ","), fmt.Sprintf("nearmiss|%s|%s|%s|%s|%s", cfg.Name, it.site.Name, it.place, it.form, it.kw))
			if i%1499 == 7 && cfg.Name == "default" {
				run.Sample(map[string]any{"site": it.site.Name, "place": it.place, "form": it.form, "comment": it.text})
			}
		}
	}
	c09SetInProcessConfig(c09Configs[0])
}

func init() { Register("C09", C09) }

package checks

// C16 — suppression decision = inclusive range + ALL > category > code, nothing more.
//
// Explicit-state search over operation sequences on the real util.IgnoreSet, through its public
// API only (Add, AddModuleIgnore, Contains). The real structure cannot be cloned, so every
// sequence is replayed from scratch on a fresh set; after the last operation every query of the
// query grid is asked and the answers are compared with a reference that is a plain list of
// (token, global?, start, end) scanned linearly with the rule of the statement. The reference
// does not look at the order of the list, so any order dependence of the implementation is a
// disagreement by construction.

import (
	"fmt"
	"go/token"
	"strings"

	"github.com/a14e/gogreement/src/util"

	"verif/mc/internal/common"
)

// ---------------------------------------------------------------------------------------------
// Reference model (the statement, nothing else)

// c16Category is the reference's own table: which category a queried code belongs to. A
// category queried as a code is its own category; the unknown code has none.
var c16Category = map[string]string{
	"IMM01": "IMM", "IMM02": "IMM", "IMM": "IMM",
	"CTOR01": "CTOR", "CTOR02": "CTOR", "CTOR": "CTOR",
	"TONL01": "TONL",
}

// c16Atom is one active suppression: one token, global or scoped to [start, end].
type c16Atom struct {
	tok        string
	global     bool
	start, end int
}

// c16AtomSuppresses: "some suppression token equal to ALL, to c's category or to c itself is
// global or has a range with start <= p <= end".
func c16AtomSuppresses(a c16Atom, code string, p int) bool {
	cat := c16Category[code]
	if a.tok != "ALL" && a.tok != code && (cat == "" || a.tok != cat) {
		return false
	}
	return a.global || (a.start <= p && p <= a.end)
}

// c16RefScan is the boring reference: linear scan of the list of active suppressions.
func c16RefScan(list []c16Atom, code string, p int) bool {
	for _, a := range list {
		if c16AtomSuppresses(a, code, p) {
			return true
		}
	}
	return false
}

// ---------------------------------------------------------------------------------------------
// Operation alphabet and query grid

// c16Mask is a bit vector over the query grid (query = code index * #positions + position index).
type c16Mask [2]uint64

func (m *c16Mask) set(q int)     { m[q>>6] |= 1 << uint(q&63) }
func (m c16Mask) has(q int) bool { return m[q>>6]&(1<<uint(q&63)) != 0 }
func (m c16Mask) or(o c16Mask) c16Mask {
	return c16Mask{m[0] | o[0], m[1] | o[1]}
}

type c16Ann struct {
	codes []string
	s, e  token.Pos
}

func (a *c16Ann) GetCodes() []string     { return a.codes }
func (a *c16Ann) GetStartPos() token.Pos { return a.s }
func (a *c16Ann) GetEndPos() token.Pos   { return a.e }

type c16Op struct {
	name   string
	global bool
	tokens []string
	ann    *c16Ann   // for Add
	atoms  []c16Atom // what the reference appends to its list
	ref    c16Mask   // queries suppressed by this operation's atoms (per the statement)
}

type c16Space struct {
	name   string
	ops    []c16Op
	single []int // indices of the single-token operations
	codes  []string
	pos    []int
	nq     int
	full   c16Mask
}

var (
	c16Tokens     = []string{"ALL", "IMM", "IMM01", "IMM02", "CTOR01", "ZZZ"}
	// multi-token lists of one marker: distinct codes, an unknown next to ALL, the same token twice (also around another
	// one, and for ALL), a code next to its own category in both orders
	c16Pairs = [][]string{{"IMM01", "CTOR01"}, {"ZZZ", "ALL"}, {"IMM01", "IMM01"}, {"IMM01", "IMM02", "IMM01"}, {"ALL", "ALL"}, {"IMM", "IMM01"}, {"IMM01", "IMM"}}
	c16QueryCodes = []string{"IMM01", "IMM02", "IMM", "CTOR01", "CTOR02", "CTOR", "TONL01", "ZZZ"}
)

// c16NewSpace builds the alphabet: Add([t], s, e) for the 6 tokens and lo<=s,e<=hi (both
// orders), Add(pair, s, e) for the two two-token lists, AddModuleIgnore([t]) for the 6 tokens;
// queries = 8 codes x positions qlo..qhi.
func c16NewSpace(name string, lo, hi, qlo, qhi int) *c16Space {
	sp := &c16Space{name: name, codes: c16QueryCodes}
	for p := qlo; p <= qhi; p++ {
		sp.pos = append(sp.pos, p)
	}
	sp.nq = len(sp.codes) * len(sp.pos)
	if sp.nq > 128 {
		common.Fatalf("C16: query grid of %d does not fit the mask", sp.nq)
	}
	for q := 0; q < sp.nq; q++ {
		sp.full.set(q)
	}
	add := func(toks []string, s, e int) {
		op := c16Op{name: fmt.Sprintf("Add(%s,%d,%d)", strings.Join(toks, "+"), s, e), tokens: toks,
			ann: &c16Ann{codes: toks, s: token.Pos(s), e: token.Pos(e)}}
		for _, t := range toks {
			op.atoms = append(op.atoms, c16Atom{tok: t, start: s, end: e})
		}
		sp.ops = append(sp.ops, op)
	}
	for _, t := range c16Tokens {
		for s := lo; s <= hi; s++ {
			for e := lo; e <= hi; e++ {
				sp.single = append(sp.single, len(sp.ops))
				add([]string{t}, s, e)
			}
		}
	}
	for _, pr := range c16Pairs {
		for s := lo; s <= hi; s++ {
			for e := lo; e <= hi; e++ {
				add(pr, s, e)
			}
		}
	}
	for _, t := range c16Tokens {
		sp.single = append(sp.single, len(sp.ops))
		sp.ops = append(sp.ops, c16Op{name: "Global(" + t + ")", global: true, tokens: []string{t},
			atoms: []c16Atom{{tok: t, global: true}}})
	}
	for i := range sp.ops {
		sp.ops[i].ref = sp.scanMask(sp.ops[i].atoms)
	}
	return sp
}

// scanMask evaluates the linear-scan reference on the whole query grid.
func (sp *c16Space) scanMask(list []c16Atom) c16Mask {
	var m c16Mask
	q := 0
	for _, c := range sp.codes {
		for _, p := range sp.pos {
			if c16RefScan(list, c, p) {
				m.set(q)
			}
			q++
		}
	}
	return m
}

func (sp *c16Space) atomsOf(seq []int) []c16Atom {
	var l []c16Atom
	for _, oi := range seq {
		l = append(l, sp.ops[oi].atoms...)
	}
	return l
}

func (sp *c16Space) names(seq []int) []string {
	out := make([]string, len(seq))
	for i, oi := range seq {
		out[i] = sp.ops[oi].name
	}
	return out
}

func (sp *c16Space) query(q int) (string, int) {
	return sp.codes[q/len(sp.pos)], sp.pos[q%len(sp.pos)]
}

// uniformRows: every code has the same answers over the positions.
func (sp *c16Space) uniformRows(m c16Mask) bool {
	n := len(sp.pos)
	for c := 1; c < len(sp.codes); c++ {
		for i := 0; i < n; i++ {
			if m.has(c*n+i) != m.has(i) {
				return false
			}
		}
	}
	return true
}

// rows renders a query vector as one 0/1 string per code (one character per position).
func (sp *c16Space) rows(m c16Mask) map[string]string {
	out := map[string]string{}
	q := 0
	for _, c := range sp.codes {
		var b strings.Builder
		for range sp.pos {
			if m.has(q) {
				b.WriteByte('1')
			} else {
				b.WriteByte('0')
			}
			q++
		}
		out[c] = b.String()
	}
	return out
}

// ---------------------------------------------------------------------------------------------
// Execution on the real code

const (
	c16StartZero = iota // var s util.IgnoreSet (zero value, addressable)
	c16StartPtr         // &util.IgnoreSet{}
	c16StartNil         // (*util.IgnoreSet)(nil)
)

var c16StartNames = []string{"zero", "ptr", "nil"}

// apply performs the operations and asks every query.
func (sp *c16Space) apply(s *util.IgnoreSet, seq []int) (got c16Mask) {
	for _, oi := range seq {
		op := &sp.ops[oi]
		if op.global {
			s.AddModuleIgnore(op.tokens)
		} else {
			s.Add(op.ann)
		}
	}
	return sp.ask(s)
}

func (sp *c16Space) ask(s *util.IgnoreSet) (got c16Mask) {
	q := 0
	for _, c := range sp.codes {
		for _, p := range sp.pos {
			if s.Contains(c, token.Pos(p)) {
				got.set(q)
			}
			q++
		}
	}
	return got
}

// exec replays seq on a fresh set of the given start kind. A panic of the code under test is
// returned, not propagated. On a nil receiver each operation is attempted separately and its
// panics are only counted (the statement speaks about what Contains answers, not about Add).
func (sp *c16Space) exec(start int, seq []int) (got c16Mask, opPanics int, panicked any) {
	defer func() {
		if r := recover(); r != nil {
			panicked = r
		}
	}()
	switch start {
	case c16StartZero:
		var s util.IgnoreSet
		got = sp.apply(&s, seq)
	case c16StartPtr:
		s := &util.IgnoreSet{}
		got = sp.apply(s, seq)
	case c16StartNil:
		var s *util.IgnoreSet
		for _, oi := range seq {
			if c16TryOp(s, &sp.ops[oi]) {
				opPanics++
			}
		}
		got = sp.ask(s)
	}
	return
}

func c16TryOp(s *util.IgnoreSet, op *c16Op) (panicked bool) {
	defer func() {
		if recover() != nil {
			panicked = true
		}
	}()
	if op.global {
		s.AddModuleIgnore(op.tokens)
	} else {
		s.Add(op.ann)
	}
	return false
}

// ---------------------------------------------------------------------------------------------
// Explorer

type c16Explorer struct {
	run *common.Run
	sh  common.Shard
	idx int // work-unit counter, shared by all phases (shard selection)

	seen       map[c16SeenKey]bool // outcome vectors already handed to run.State with their hash
	sampleDue  bool
	reported   int
	reportCap  int
	sequences  int
	nontrivial int
	contains   int
	disagree   int
	nilPanics  int
	perDepth   map[c16DepthKey]int
}

type c16SeenKey struct {
	sp *c16Space
	m  c16Mask
}

type c16DepthKey struct {
	sp        *c16Space
	st, depth int
}

// explore runs every sequence of exactly `depth` operations over alphabet alpha (indices into
// sp.ops) from every start kind in starts. Work unit = first operation (depth 1) or first two
// operations (depth >= 2).
func (e *c16Explorer) explore(sp *c16Space, alpha []int, depth int, starts []int) {
	seq := make([]int, depth)
	switch {
	case depth == 0:
		e.idx++
		if e.sh.Mine(e.idx) {
			e.check(sp, seq, starts)
		}
	case depth == 1:
		for _, a := range alpha {
			e.idx++
			if e.sh.Mine(e.idx) {
				seq[0] = a
				e.check(sp, seq, starts)
			}
		}
	default:
		for _, a := range alpha {
			for _, b := range alpha {
				e.idx++
				if !e.sh.Mine(e.idx) {
					continue
				}
				seq[0], seq[1] = a, b
				e.rec(sp, alpha, seq, 2, starts)
			}
		}
	}
}

func (e *c16Explorer) rec(sp *c16Space, alpha []int, seq []int, k int, starts []int) {
	if k == len(seq) {
		e.check(sp, seq, starts)
		return
	}
	for _, a := range alpha {
		seq[k] = a
		e.rec(sp, alpha, seq, k+1, starts)
	}
}

func (e *c16Explorer) check(sp *c16Space, seq []int, starts []int) {
	var want c16Mask
	for _, oi := range seq {
		want = want.or(sp.ops[oi].ref)
	}
	for _, st := range starts {
		w := want
		if st == c16StartNil {
			w = c16Mask{} // an uninitialised collection never suppresses
		}
		got, opPanics, panicked := sp.exec(st, seq)
		e.nilPanics += opPanics
		e.sequences++
		e.contains += sp.nq
		e.perDepth[c16DepthKey{sp, st, len(seq)}]++
		if panicked != nil {
			e.disagree++
			e.reportPanic(sp, st, seq, panicked)
			e.run.State(len(seq), "", "")
			continue
		}
		mixed := got != (c16Mask{}) && got != sp.full
		if mixed {
			e.nontrivial++
			switch e.nontrivial {
			case 1, 400, 30000, 200000, 500000:
				e.sampleDue = true
			}
			// A sample is the next mixed vector in which the hierarchy shows (not all codes answer alike).
			if e.sampleDue && !sp.uniformRows(got) {
				e.sampleDue = false
				e.run.Sample(map[string]any{"space": sp.name, "start": c16StartNames[st], "ops": sp.names(seq),
					fmt.Sprintf("suppressed_at_positions_%d_to_%d", sp.pos[0], sp.pos[len(sp.pos)-1]): sp.rows(got)})
			}
		}
		// distinct_outcomes / distinct_nontrivial are sets of hashes: hand each vector over once.
		if sk := (c16SeenKey{sp, got}); e.seen[sk] {
			e.run.State(len(seq), "", "")
		} else {
			e.seen[sk] = true
			key := fmt.Sprintf("%s|%016x%016x", sp.name, got[1], got[0])
			nt := ""
			if mixed {
				nt = key
			}
			e.run.State(len(seq), key, nt)
		}
		if got != w {
			e.disagree++
			e.reportDisagreement(sp, st, seq, got, w)
		}
	}
}

func (e *c16Explorer) reportDisagreement(sp *c16Space, st int, seq []int, got, want c16Mask) {
	if e.reported >= e.reportCap {
		return
	}
	// Replay once more and re-derive the expectation with the plain list scan before believing it.
	got2, _, p2 := sp.exec(st, seq)
	if p2 != nil || got2 != got {
		common.Fatalf("C16: non-deterministic replay of %v from %s", sp.names(seq), c16StartNames[st])
	}
	scan := sp.scanMask(sp.atomsOf(seq))
	if st == c16StartNil {
		scan = c16Mask{}
	}
	if scan != want {
		common.Fatalf("C16: reference mask and list scan differ on %v", sp.names(seq))
	}
	first, n := -1, 0
	for q := 0; q < sp.nq; q++ {
		if got.has(q) != want.has(q) {
			if first < 0 {
				first = q
			}
			n++
		}
	}
	code, pos := sp.query(first)
	ops := strings.Join(sp.names(seq), ">")
	if ops == "" {
		ops = "-"
	}
	e.reported++
	e.run.Report(common.Cex{
		Sig: fmt.Sprintf("contains|space=%s|start=%s|ops=%s|q=%s@%d|got=%v|want=%v", sp.name, c16StartNames[st], ops, code, pos, got.has(first), want.has(first)),
		Summary: fmt.Sprintf("after %s on a %s IgnoreSet, Contains(%q, %d) = %v but the statement's rule gives %v (%d of %d queries differ)",
			ops, c16StartNames[st], code, pos, got.has(first), want.has(first), n, sp.nq),
		Detail: map[string]any{"space": sp.name, "start": c16StartNames[st], "ops": sp.names(seq),
			"query": map[string]any{"code": code, "pos": pos}, "got": got.has(first), "want": want.has(first),
			"queries_differing": n, "got_by_code_over_positions": sp.rows(got), "want_by_code_over_positions": sp.rows(want), "positions": sp.pos},
	})
}

func (e *c16Explorer) reportPanic(sp *c16Space, st int, seq []int, p any) {
	if e.reported >= e.reportCap {
		return
	}
	ops := strings.Join(sp.names(seq), ">")
	if ops == "" {
		ops = "-"
	}
	e.reported++
	e.run.Report(common.Cex{
		Sig:     fmt.Sprintf("panic|space=%s|start=%s|ops=%s", sp.name, c16StartNames[st], ops),
		Summary: fmt.Sprintf("panic while replaying %s on a %s IgnoreSet and asking the query grid: %v", ops, c16StartNames[st], p),
		Detail:  map[string]any{"space": sp.name, "start": c16StartNames[st], "ops": sp.names(seq), "panic": fmt.Sprint(p)},
	})
}

// c16SelfCheck: the per-operation reference masks OR-ed together must equal the plain list
// scan; verified on every sequence of <= 2 operations before anything is judged with them.
func c16SelfCheck(sp *c16Space) {
	for a := range sp.ops {
		if sp.ops[a].ref != sp.scanMask(sp.ops[a].atoms) {
			common.Fatalf("C16 self-check: op mask")
		}
		for b := range sp.ops {
			if sp.ops[a].ref.or(sp.ops[b].ref) != sp.scanMask(sp.atomsOf([]int{a, b})) {
				common.Fatalf("C16 self-check: mask OR differs from list scan on %s, %s", sp.ops[a].name, sp.ops[b].name)
			}
		}
	}
}

func C16(tier common.Tier) int {
	run := common.NewRun("C16", tier, "model_checking")
	thorough := tier == "thorough"

	small := c16NewSpace("small", 1, 5, 0, 6)
	all := make([]int, len(small.ops))
	for i := range all {
		all[i] = i
	}
	var wide *c16Space
	bound := fmt.Sprintf("space small: %d operations = Add([t],s,e) for t in {ALL,IMM,IMM01,IMM02,CTOR01,ZZZ} and 1<=s,e<=5 in both orders (150), Add({IMM01,CTOR01}|{ZZZ,ALL},s,e) (50), AddModuleIgnore([t]) (6); "+
		"ALL sequences of 0..3 operations, each replayed on a fresh zero-value IgnoreSet and on a fresh &IgnoreSet{}; all sequences of 0..2 operations attempted on a nil *IgnoreSet; "+
		"after every sequence all %d queries = 8 codes {IMM01,IMM02,IMM,CTOR01,CTOR02,CTOR,TONL01,ZZZ} x positions 0..6", len(small.ops), small.nq)
	if thorough {
		wide = c16NewSpace("wide", 1, 12, 0, 13)
		bound += fmt.Sprintf("; plus ALL sequences of exactly 4 operations over the %d single-token operations on &IgnoreSet{} (shorter ones are contained in the run above); "+
			"plus space wide: same operation shapes with 1<=s,e<=12 (%d operations), ALL sequences of 0..2 operations on both non-nil start values, %d queries = 8 codes x positions 0..13",
			len(small.single), len(wide.ops), wide.nq)
	}
	run.SetRule(
		"state = sequence of operations applied through the public API (Add with a util.IgnoreAnnotation, AddModuleIgnore) to a fresh real util.IgnoreSet (the structure cannot be cloned: every sequence is replayed from scratch); "+
			"sequences are enumerated in order of length, nothing is merged or sorted, so every ordering of the same suppressions is executed separately. After the last operation every query of the grid is answered by the real Contains and compared "+
			"with a reference that keeps a plain list of (token, global?, start, end) and scans it with the rule of the statement (order is not an input of the reference). states = sequences executed (per start value), transitions = operations applied, "+
			"distinct_outcomes = distinct query-answer vectors observed. A state is non-trivial when its vector is mixed (at least one query suppressed and at least one not); distinct_nontrivial counts distinct mixed vectors (conservative: many different histories share a vector; "+
			"extra.nontrivial_sequences counts the histories).",
		bound)
	run.Assume(
		"positions are bare token.Pos integers (no FileSet); the code alphabet {ALL, IMM, IMM01, IMM02, CTOR01, ZZZ=unknown} and query codes incl. CTOR, CTOR02, TONL01 are those of the property's quantifier",
		"the reference's category table (IMM01,IMM02->IMM; CTOR01,CTOR02->CTOR; TONL01->TONL; a category queried as a code is its own category; ZZZ has none) is written out by hand, independent of package codes",
		"the per-operation reference masks OR-ed together equal the linear list scan: verified at start-up on every sequence of <= 2 operations, and again by a plain list scan on every counterexample before it is reported")
	run.NotJudged(
		"Add / AddModuleIgnore on a nil *IgnoreSet: attempted, panics only counted (extra.nil_receiver_op_panics_not_judged) - the statement speaks about what an uninitialised collection answers, not about adding to it",
		"ranges with start or end = token.NoPos (0): not a position of any real @ignore range (MinPos/MaxPos use NoPos as their 'unset' sentinel); query position 0 IS judged",
		"Add with an empty code list; querying the code ALL itself")

	common.Sharded(run, common.NumWorkers(), func(run *common.Run, sh common.Shard) {
		n := sh.N
		if n < 1 {
			n = 1
		}
		e := &c16Explorer{run: run, sh: sh, seen: map[c16SeenKey]bool{}, perDepth: map[c16DepthKey]int{}, reportCap: (200 + n - 1) / n}
		c16SelfCheck(small)
		// Shortest first, so that the counterexamples that fit under the cap are the smallest.
		for d := 0; d <= 3; d++ {
			e.explore(small, all, d, []int{c16StartZero, c16StartPtr})
			if d <= 2 {
				e.explore(small, all, d, []int{c16StartNil})
			}
		}
		if thorough {
			c16SelfCheck(wide)
			wall := make([]int, len(wide.ops))
			for i := range wall {
				wall[i] = i
			}
			for d := 0; d <= 2; d++ {
				e.explore(wide, wall, d, []int{c16StartZero, c16StartPtr})
			}
			e.explore(small, small.single, 4, []int{c16StartPtr})
		}
		run.Count("sequences", e.sequences)
		run.Count("nontrivial_sequences", e.nontrivial)
		run.Count("contains_calls", e.contains)
		run.Count("sequences_disagreeing", e.disagree)
		run.Count("nil_receiver_op_panics_not_judged", e.nilPanics)
		for k, v := range e.perDepth {
			run.Count(fmt.Sprintf("sequences_%s_%s_depth%d", k.sp.name, c16StartNames[k.st], k.depth), v)
		}
	})
	return run.Finish()
}

func init() { Register("C16", C16) }

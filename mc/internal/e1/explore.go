package e1

import (
	"fmt"
	"sort"
	"strings"

	"verif/mc/internal/common"
	"verif/mc/internal/prog"
)

// prevOf names what the walk saw last before block bi (the only thing a stateful walk could
// leak from): the previous block of the same file, else the last block of the preceding file.
func prevOf(s *Spec, bi int) string {
	b := s.Blocks[bi]
	for j := bi - 1; j >= 0; j-- {
		if s.Blocks[j].File == b.File {
			return s.Blocks[j].Encl.String()
		}
	}
	if b.File == 0 {
		if s.Mix.PreludeLast {
			return "file-start"
		}
		return "prelude-func"
	}
	// first block of a later file
	last := ""
	for f := b.File - 1; f >= 0 && last == ""; f-- {
		for j := len(s.Blocks) - 1; j >= 0; j-- {
			if s.Blocks[j].File == f {
				last = s.Blocks[j].Encl.String()
				break
			}
		}
		if last == "" && f == 0 && !s.Mix.PreludeLast {
			last = "prelude-func"
		}
	}
	if last == "" {
		last = "nothing"
	}
	return "newfile-after:" + last
}

func pkgName(inU bool) string {
	if inU {
		return "u"
	}
	return "d"
}

func specJSON(s *Spec) map[string]any {
	var bl []string
	for _, b := range s.Blocks {
		bl = append(bl, b.String())
	}
	m := map[string]any{"pkg": pkgName(s.InU), "mix": s.Mix.String(), "spell": SpellNames[s.Spell], "blocks": bl, "blank_lines": s.BlankLines}
	if s.Single != nil {
		m["single_site"] = s.Sites[s.Single.Site].Tag
		m["single_wrap"] = s.Single.Wrap.String()
	}
	return m
}

// Outcome of checking one spec.
type Outcome struct {
	Expected int // number of expected diagnostics
	Exempt   int // number of sites exempted by constructor / @mutable
	Observed int
}

// CheckSpec renders s, runs the real analyzers and compares the diagnostics of fam's analyzer
// with the reference, site by site. Every disagreement is reported to run.
func CheckSpec(run *common.Run, fam *Family, s *Spec) Outcome {
	rd := Render(s)
	res, err := prog.RunOrder(rd.Prog, prog.Opts{}, s.ReverseParse)
	if err != nil {
		common.Fatalf("generated program does not compile (%v): %v\n%s", specJSON(s), err, rd.Prog.Text())
	}
	var oc Outcome
	seq := func() string {
		var l []string
		for _, b := range s.Blocks {
			l = append(l, b.String())
		}
		return strings.Join(l, ">")
	}
	if res.Panic != "" || len(res.Errs) > 0 {
		msg := res.Panic
		if msg == "" {
			msg = strings.Join(res.Errs, "; ")
		}
		first := ""
		if len(s.Blocks) > 0 {
			first = s.Blocks[0].Encl.String() + "|prev=" + prevOf(s, 0)
		}
		run.Report(common.Cex{
			Sig:     fmt.Sprintf("crash|%s|pkg=%s|first=%s|imm=%v", fam.Name, pkgName(s.InU), first, s.Mix.Imm),
			Summary: fmt.Sprintf("analysis crashed on history %s in package %s: %s", seq(), pkgName(s.InU), firstLine(msg)),
			Detail:  map[string]any{"spec": specJSON(s), "panic_or_error": msg, "program": rd.Prog.Text()},
		})
		run.State(len(s.Blocks), "crash", "")
		return oc
	}
	// observed: file:line -> codes
	obs := map[string][]string{}
	for _, d := range res.Diags {
		if d.Analyzer != fam.Analyzer {
			continue
		}
		k := fmt.Sprintf("%s:%d", d.File, d.Line)
		obs[k] = append(obs[k], d.Code)
		oc.Observed++
	}
	var outcome strings.Builder
	for i := range rd.Sites {
		si := &rd.Sites[i]
		b := s.Blocks[si.Block]
		exp := Expect(fam, si.Site, b.Encl, b.File, s.InU, s.Mix)
		oc.Expected += len(exp)
		if len(exp) == 0 && len(si.Site.Codes) > 0 && si.Site.Subj != SubjTwin && si.Site.Subj != SubjSilent {
			oc.Exempt++
		}
		k := fmt.Sprintf("%s:%d", si.File, si.Line)
		got := obs[k]
		delete(obs, k)
		sort.Strings(got)
		want := append([]string(nil), exp...)
		sort.Strings(want)
		fmt.Fprintf(&outcome, "%d/%s/%d:%s;", si.Block, si.Site.Tag, si.Wrap, strings.Join(got, ","))
		if strings.Join(got, ",") == strings.Join(want, ",") {
			continue
		}
		dir := "missing"
		if len(got) > len(want) {
			dir = "extra"
		} else if len(got) == len(want) {
			dir = "wrongcode"
		}
		run.Report(common.Cex{
			Sig: fmt.Sprintf("site|%s|pkg=%s|encl=%s|prev=%s|file=%d|wrap=%s|site=%s|dir=%s|want=%s|got=%s|spell=%s|mix=%s",
				fam.Name, pkgName(s.InU), b.Encl, prevOf(s, si.Block), b.File, si.Wrap, si.Site.Tag, dir,
				strings.Join(want, "+"), strings.Join(got, "+"), SpellNames[s.Spell], s.Mix),
			Summary: fmt.Sprintf("%s: statement %q in %s (after %s) of package %s, file %s, wrapper %s: expected [%s], reported [%s]",
				dir, si.Site.Tag, b.Encl, prevOf(s, si.Block), pkgName(s.InU), FileNames[b.File], si.Wrap,
				strings.Join(want, ","), strings.Join(got, ",")),
			Detail: map[string]any{"spec": specJSON(s), "file": si.File, "line": si.Line, "expected": want, "observed": got,
				"program": rd.Prog.Text()},
		})
	}
	// diagnostics of this analyzer on lines that are not sites
	var rest []string
	for k, codes := range obs {
		rest = append(rest, k+"="+strings.Join(codes, ","))
	}
	sort.Strings(rest)
	for _, k := range rest {
		run.Report(common.Cex{
			Sig:     fmt.Sprintf("nonsite|%s|pkg=%s|%s", fam.Name, pkgName(s.InU), k[strings.LastIndex(k, "=")+1:]),
			Summary: fmt.Sprintf("diagnostic on a line that is not a candidate site: %s (history %s)", k, seq()),
			Detail:  map[string]any{"spec": specJSON(s), "where": k, "program": rd.Prog.Text()},
		})
	}
	nt := ""
	if oc.Expected > 0 || oc.Exempt > 0 {
		nt = fmt.Sprintf("%v|%s", specJSON(s), fam.Name)
	}
	run.State(len(s.Blocks), outcome.String(), nt)
	run.Count("sites_checked", len(rd.Sites))
	run.Count("diagnostics_expected", oc.Expected)
	run.Count("sites_exempted_by_annotation", oc.Exempt)
	return oc
}

func firstLine(s string) string {
	if i := strings.IndexByte(s, '\n'); i >= 0 {
		return s[:i]
	}
	return s
}

// Alphabet returns the block alphabet for a package and family.
func Alphabet(fam *Family, inU bool, files []int) []Block {
	var out []Block
	for e := EnclKind(0); e < nEncl; e++ {
		if inU && e.onlyInD() {
			continue
		}
		if (e == EPkgVarDirect || e == EPkgVarDirectRev) && fam.Name != "CTOR" {
			continue
		}
		for _, f := range files {
			out = append(out, Block{Encl: e, File: f})
		}
	}
	if inU {
		out = append(out, Block{Encl: EPlain, File: 3}) // a function in a file of u that does not import d
	}
	return out
}

// validHistory rejects histories that would not compile (a fixed function name twice).
func validHistory(h []Block) bool {
	seen := map[string]bool{}
	for _, b := range h {
		if n := b.Encl.fixedName(); n != "" {
			if seen[n] {
				return false
			}
			seen[n] = true
		}
	}
	return true
}

// deviations counts departures of a history from the canonical environment (plain function in
// the first file).
func deviations(h []Block) int {
	n := 0
	for _, b := range h {
		if b.Encl != EPlain {
			n++
		}
		if b.File != 0 {
			n++
		}
		if b.File == 3 {
			n++
		}
	}
	return n
}

// Histories enumerates all valid histories over alpha with 1..depth blocks and at most maxDev
// deviations (maxDev < 0: unbounded), calling f with a stable running index.
func Histories(alpha []Block, depth, maxDev int, f func(idx int, h []Block)) int {
	idx := 0
	var rec func(h []Block)
	rec = func(h []Block) {
		if len(h) > 0 {
			f(idx, h)
			idx++
		}
		if len(h) == depth {
			return
		}
		for _, b := range alpha {
			nh := append(append([]Block(nil), h...), b)
			if !validHistory(nh) {
				continue
			}
			if maxDev >= 0 && deviations(nh) > maxDev {
				continue
			}
			rec(nh)
		}
	}
	rec(nil)
	return idx
}

// Mixes returns the annotation mixes explored at a tier.
func Mixes(full bool) []Mix {
	var out []Mix
	for _, imm := range []bool{true, false} {
		for ctor := 0; ctor <= 7; ctor++ {
			for _, mut := range []bool{false, true} {
				for extra := 0; extra <= 2; extra++ {
					for _, last := range []bool{false, true} {
						m := Mix{Imm: imm, Ctor: ctor, Mut: mut, Extra: extra, PreludeLast: last}
						if !full {
							// quick: the pairwise-interesting corner set
							if extra != 0 && !(imm && ctor == 1 && !mut && !last) {
								continue
							}
							if last && !(imm && ctor == 1 && !mut) {
								continue
							}
							if ctor >= 3 && !(imm && !mut) {
								continue
							}
							if !imm && (mut || ctor == 2) {
								continue
							}
						}
						out = append(out, m)
						// the importing package without any annotated type of its own (relevant for u only)
						if imm && (ctor == 1 || full) && !mut && extra == 0 && !last {
							n := m
							n.NoOwn = true
							out = append(out, n)
						}
					}
				}
			}
		}
	}
	return out
}

// Observation is what the real analyzers said about every site of a spec, keyed by the site's
// identity (block index / tag / wrapper) so that it is comparable across layouts and spellings.
type Observation struct {
	BySite  map[string]string // site identity -> sorted codes joined by ","
	NonSite []string          // diagnostics of the family's analyzer on lines that are not sites
	Crash   string
	Text    string
}

func siteID(si *SiteInst) string { return fmt.Sprintf("%d/%s/%s", si.BlockID, si.Site.Tag, si.Wrap) }

// Observe renders and analyses s and returns the per-site verdicts of fam's analyzer.
func Observe(fam *Family, s *Spec) *Observation {
	rd := Render(s)
	res, err := prog.RunOrder(rd.Prog, prog.Opts{}, s.ReverseParse)
	if err != nil {
		common.Fatalf("generated program does not compile (%v): %v\n%s", specJSON(s), err, rd.Prog.Text())
	}
	o := &Observation{BySite: map[string]string{}, Text: rd.Prog.Text()}
	if res.Panic != "" || len(res.Errs) > 0 {
		o.Crash = res.Panic + strings.Join(res.Errs, "; ")
		return o
	}
	obs := map[string][]string{}
	for _, d := range res.Diags {
		if d.Analyzer != fam.Analyzer {
			continue
		}
		k := fmt.Sprintf("%s:%d", d.File, d.Line)
		obs[k] = append(obs[k], d.Code)
	}
	for i := range rd.Sites {
		si := &rd.Sites[i]
		k := fmt.Sprintf("%s:%d", si.File, si.Line)
		got := obs[k]
		delete(obs, k)
		sort.Strings(got)
		o.BySite[siteID(si)] = strings.Join(got, ",")
	}
	for k, codes := range obs {
		o.NonSite = append(o.NonSite, k+"="+strings.Join(codes, ","))
	}
	sort.Strings(o.NonSite)
	return o
}

func SpecJSON(s *Spec) map[string]any { return specJSON(s) }

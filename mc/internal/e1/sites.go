package e1

import "strings"

// IMMSites is the alphabet of candidate statements for C01. Variables available in every
// encloser: x T, p *T, r *T (the receiver in methods of T), o O, op *O, arr []T, tw P, tp *P,
// y int, rn *N (the receiver in methods of N).
func IMMSites() []Site {
	i1, i2, i3, i4 := []string{"IMM01"}, []string{"IMM02"}, []string{"IMM03"}, []string{"IMM04"}
	return []Site{
		// IMM01: plain assignment, every operand shape
		{Tag: "assign x.F", Stmt: "x.F = 1", Subj: SubjT, Codes: i1, Core: true},
		{Tag: "assign p.F", Stmt: "p.F = 1", Subj: SubjT, Codes: i1},
		{Tag: "assign (*p).F", Stmt: "(*p).F = 1", Subj: SubjT, Codes: i1},
		{Tag: "assign (x).F", Stmt: "(x).F = 1", Subj: SubjT, Codes: i1},
		{Tag: "assign o.In.F", Stmt: "o.In.F = 1", Subj: SubjT, Codes: i1},
		{Tag: "assign op.Pt.F", Stmt: "op.Pt.F = 1", Subj: SubjT, Codes: i1},
		{Tag: "assign arr[0].F", Stmt: "arr[0].F = 1", Subj: SubjT, Codes: i1},
		{Tag: "assign GetP().F", Stmt: "{GetP}().F = 1", Subj: SubjT, Codes: i1},
		{Tag: "assign r.F", Stmt: "r.F = 1", Subj: SubjT, Codes: i1, Core: true},
		{Tag: "assign x.Xs=nil", Stmt: "x.Xs = nil", Subj: SubjT, Codes: i1},
		{Tag: "tuple x.F,y", Stmt: "x.F, y = 1, 2", Subj: SubjT, Codes: i1},
		{Tag: "tuple y,x.F", Stmt: "y, x.F = 1, 2", Subj: SubjT, Codes: i1},
		{Tag: "tuple x.F,p.F", Stmt: "x.F, p.F = 1, 2", Subj: SubjT, Codes: []string{"IMM01", "IMM01"}},
		{Tag: "if-init x.F", Stmt: "if x.F = 1; y > 0 { y = 0 }", Subj: SubjT, Codes: i1},
		{Tag: "for-init x.F", Stmt: "for x.F = 0; y < 0; y++ { }", Subj: SubjT, Codes: i1},
		{Tag: "switch-init x.F", Stmt: "switch x.F = 1; { }", Subj: SubjT, Codes: i1},
		// IMM02: compound assignment
		{Tag: "compound x.F+=", Stmt: "x.F += 1", Subj: SubjT, Codes: i2, Core: true},
		{Tag: "compound p.F-=", Stmt: "p.F -= 1", Subj: SubjT, Codes: i2},
		{Tag: "compound x.F<<=", Stmt: "x.F <<= 1", Subj: SubjT, Codes: i2},
		{Tag: "compound x.F|=", Stmt: "x.F |= 1", Subj: SubjT, Codes: i2},
		{Tag: "compound x.F&^=", Stmt: "x.F &^= 1", Subj: SubjT, Codes: i2},
		{Tag: "compound o.In.F*=", Stmt: "o.In.F *= 2", Subj: SubjT, Codes: i2},
		// IMM03: ++/--
		{Tag: "incdec x.F++", Stmt: "x.F++", Subj: SubjT, Codes: i3, Core: true},
		{Tag: "incdec p.F--", Stmt: "p.F--", Subj: SubjT, Codes: i3},
		{Tag: "for-post x.F++", Stmt: "for ; y < 0; x.F++ { }", Subj: SubjT, Codes: i3},
		// IMM04: element of a field
		{Tag: "index x.Xs[0]", Stmt: "x.Xs[0] = 1", Subj: SubjT, Codes: i4, Core: true},
		{Tag: "index p.Mp[k]", Stmt: `p.Mp["k"] = 1`, Subj: SubjT, Codes: i4},
		{Tag: "index tuple x.Xs[0],y", Stmt: "x.Xs[0], y = 1, 2", Subj: SubjT, Codes: i4},
		{Tag: "index o.In.Xs[0]", Stmt: "o.In.Xs[0] = 1", Subj: SubjT, Codes: i4},
		{Tag: "index defined slice type x.Ls[0]", Stmt: "x.Ls[0] = 1", Subj: SubjT, Codes: i4, Core: true},
		{Tag: "index defined map type p.Pm[k]", Stmt: `p.Pm["k"] = 1`, Subj: SubjT, Codes: i4},
		{Tag: "index defined array type x.Ar[1]", Stmt: "x.Ar[1] = 1", Subj: SubjT, Codes: i4},
		// @mutable fields
		{Tag: "mut assign x.M", Stmt: "x.M = 1", Subj: SubjTMut, Codes: i1, Core: true},
		{Tag: "mut compound p.M+=", Stmt: "p.M += 1", Subj: SubjTMut, Codes: i2},
		{Tag: "mut incdec x.M++", Stmt: "x.M++", Subj: SubjTMut, Codes: i3},
		{Tag: "mut index x.Ms[0]", Stmt: "x.Ms[0] = 1", Subj: SubjTMut, Codes: i4},
		{Tag: "mut second name of a multi-name field x.Mb", Stmt: "x.Mb = 1", Subj: SubjTMut, Codes: i1, Core: true},
		{Tag: "mut first name of a multi-name field x.Ma++", Stmt: "x.Ma++", Subj: SubjTMut, Codes: i3},
		// second annotated type: same field names, opposite @mutable marking, other constructor
		{Tag: "T2 assign x2.M", Stmt: "x2.M = 1", Subj: SubjT2, Codes: i1, Core: true},
		{Tag: "T2 incdec x2.M++", Stmt: "x2.M++", Subj: SubjT2, Codes: i3},
		{Tag: "T2 mut assign x2.F", Stmt: "x2.F = 1", Subj: SubjT2Mut, Codes: i1, Core: true},
		{Tag: "T2 mut compound x2.F+=", Stmt: "x2.F += 1", Subj: SubjT2Mut, Codes: i2},
		// T's fields written through promotion (w.F is w.T.F: the same field of the same immutable value)
		{Tag: "promoted assign wt.F", Stmt: "wt.F = 1", Subj: SubjT, Codes: i1, Core: true},
		{Tag: "promoted explicit wt.T.F", Stmt: "wt.T.F = 1", Subj: SubjT, Codes: i1},
		{Tag: "promoted incdec wpt.F++", Stmt: "wpt.F++", Subj: SubjT, Codes: i3},
		{Tag: "promoted compound wpt.F+=", Stmt: "wpt.F += 1", Subj: SubjT, Codes: i2},
		{Tag: "promoted index wt.Xs[0]", Stmt: "wt.Xs[0] = 1", Subj: SubjT, Codes: i4},
		{Tag: "promoted mut wt.M", Stmt: "wt.M = 1", Subj: SubjTMut, Codes: i1},
		{Tag: "promoted two levels wo.F (outer level embedded by pointer)", Stmt: "wo.F = 1", Subj: SubjT, Codes: i1, Core: true},
		{Tag: "promoted two levels wo.Xs[0], wo.F++", Stmt: "wo.Xs[0] = 1", Subj: SubjT, Codes: i4},
		{Tag: "promoted two levels mut wo.M++", Stmt: "wo.M++", Subj: SubjTMut, Codes: i3},
		{Tag: "promoted through local alias of *WT", Stmt: "{ type LWP = *{WT}; var lw LWP = &wt; lw.F = 1 }", Subj: SubjT, Codes: i1, Core: true},
		{Tag: "promoted through local alias of WT", Stmt: "{ type LW = {WT}; var lw *LW = &wt; lw.F++ }", Subj: SubjT, Codes: i3},
		{Tag: "twin promoted wtw.F", Stmt: "wtw.F = 1; wtw.Xs[0] = 1; wtw.M++", Subj: SubjTwin},
		// the UNEXPORTED annotated type hid, reached through exported functions, variables and embedding
		{Tag: "unexported type via GetHid().F", Stmt: "{q}GetHid().F = 1", Subj: SubjT2, Codes: i1, Core: true},
		{Tag: "unexported type via DefaultHid.F++", Stmt: "{q}DefaultHid.F++", Subj: SubjT2, Codes: i3},
		{Tag: "unexported type via DefaultHid.Xs[0]", Stmt: "{q}DefaultHid.Xs[0] = 1", Subj: SubjT2, Codes: i4},
		{Tag: "unexported type promoted (&WHid{}).F+=", Stmt: "(&{q}WHid{}).F += 1", Subj: SubjT2, Codes: i2},
		{Tag: "unexported type mut GetHid().M", Stmt: "{q}GetHid().M = 1", Subj: SubjT2Mut, Codes: i1},
		// the generic annotated type GT[V] (instantiated as GT[int])
		{Tag: "generic assign gx.F", Stmt: "gx.F = 1", Subj: SubjT2, Codes: i1, Core: true},
		{Tag: "generic compound gp.F+=", Stmt: "gp.F += 1", Subj: SubjT2, Codes: i2},
		{Tag: "generic incdec gp.F++", Stmt: "gp.F++", Subj: SubjT2, Codes: i3},
		{Tag: "generic mut assign gx.M", Stmt: "gx.M = 1", Subj: SubjT2Mut, Codes: i1, Core: true},
		// reached without importing d in the file: through a helper function and an alias declared in a sibling file
		{Tag: "noimport hp().F=1", Stmt: "hp().F = 1", Subj: SubjT, Codes: i1, OnlyInU: true, NoImport: true},
		{Tag: "noimport hp().F+=1", Stmt: "hp().F += 1", Subj: SubjT, Codes: i2, OnlyInU: true, NoImport: true},
		{Tag: "noimport hp().F++", Stmt: "hp().F++", Subj: SubjT, Codes: i3, OnlyInU: true, NoImport: true},
		{Tag: "noimport hp().Xs[0]=1", Stmt: "hp().Xs[0] = 1", Subj: SubjT, Codes: i4, OnlyInU: true, NoImport: true},
		{Tag: "noimport (&LT{}).F=1", Stmt: "(&LT{}).F = 1", Subj: SubjT, Codes: i1, OnlyInU: true, NoImport: true},
		// a second imported package with the same type names and the opposite annotations
		{Tag: "e.T (unannotated namesake) assign", Stmt: "(&e.T{}).F = 1", Subj: SubjSilent, Core: true, OnlyInU: true},
		{Tag: "e.T (unannotated namesake) index", Stmt: "(&e.T{}).Xs[0] = 1", Subj: SubjSilent, OnlyInU: true},
		{Tag: "e.P (annotated namesake of the twin) assign", Stmt: "e.NewT().F = 1", Subj: SubjAlways, Codes: i1, Core: true, OnlyInU: true},
		{Tag: "e.P (annotated namesake of the twin) incdec", Stmt: "e.NewT().F++", Subj: SubjAlways, Codes: i3, OnlyInU: true},
		// the importing package's own same-named type
		{Tag: "own-T assign (&T{}).F", Stmt: "(&T{}).F = 1", Subj: SubjOwnT, Codes: i1, Core: true, OnlyInU: true},
		// undocumented type spec that follows an annotated spec inside one type ( ... ) group
		{Tag: "twin group-sibling u2.F", Stmt: "u2.F = 1", Subj: SubjTwin, Core: true},
		// twin
		{Tag: "twin assign tw.F", Stmt: "tw.F = 1", Subj: SubjTwin, Core: true},
		{Tag: "twin incdec tp.F++", Stmt: "tp.F++", Subj: SubjTwin},
		{Tag: "twin compound tw.F+=", Stmt: "tw.F += 1", Subj: SubjTwin},
		{Tag: "twin index tw.Xs[0]", Stmt: "tw.Xs[0] = 1", Subj: SubjTwin},
		// reads and non-field writes
		{Tag: "read _=x.F", Stmt: "_ = x.F", Subj: SubjSilent, Core: true},
		{Tag: "read y=x.F", Stmt: "y = x.F", Subj: SubjSilent},
		{Tag: "read y=x.Xs[0]", Stmt: "y = x.Xs[0]", Subj: SubjSilent},
		{Tag: "read y+=x.F", Stmt: "y += x.F", Subj: SubjSilent},
		// a function-local type that merely has the name of the package's annotated type
		{Tag: "shadow local type T write", Stmt: "func() { type T struct{ F int }; var t T; t.F = 1; t.F++; (&t).F += 1 }()", Subj: SubjSilent, Core: true},
		{Tag: "shadow local type T2 write", Stmt: "func() { type T2 struct{ M []int }; t := &T2{M: []int{1}}; t.M[0] = 1; t.M = nil }()", Subj: SubjSilent},
		{Tag: "read y=p.Mp[k]", Stmt: `y = p.Mp["k"]`, Subj: SubjSilent},
		{Tag: "write var x=*p", Stmt: "x = *p", Subj: SubjSilent},
		{Tag: "write var p=&x", Stmt: "p = &x", Subj: SubjSilent},
		{Tag: "write y++", Stmt: "y++", Subj: SubjSilent},
		{Tag: "write arr[0]=x", Stmt: "arr[0] = x", Subj: SubjSilent},
		{Tag: "write *p=x", Stmt: "*p = x", Subj: SubjSilent},
		{Tag: "closure param r shadows", Stmt: "func(r {PT}) { *r = x }(p)", Subj: SubjSilent, NotInMethT: true},
		// receiver rules
		{Tag: "recv *r=x", Stmt: "*r = x", Subj: SubjRecvT, Codes: i1, Core: true, NeedPtrR: true},
		{Tag: "recv *rn=5", Stmt: "*rn = 5", Subj: SubjRecvN, Codes: i1},
		{Tag: "recv *rn++", Stmt: "*rn++", Subj: SubjRecvN, Codes: i3, Core: true},
		{Tag: "recv *rn--", Stmt: "*rn--", Subj: SubjRecvN, Codes: i3},
	}
}

// CTORSites is the alphabet of candidate statements for C02.
func CTORSites() []Site {
	c1, c2, c3 := []string{"CTOR01"}, []string{"CTOR02"}, []string{"CTOR03"}
	return []Site{
		{Tag: "lit T{}", Stmt: "_ = {TL}{}", Subj: SubjT, Codes: c1, Core: true, PkgLevel: "var $g = {TL}{}"},
		{Tag: "lit &T{}", Stmt: "_ = &{TL}{}", Subj: SubjT, Codes: c1, PkgLevel: "var $g = &{TL}{}"},
		{Tag: "lit T{F:1}", Stmt: "_ = {TL}{F: 1}", Subj: SubjT, Codes: c1},
		{Tag: "lit []T{{}}", Stmt: "_ = []{T}{{}}", Subj: SubjT, Codes: c1, PkgLevel: "var $g = []{T}{{}}"},
		{Tag: "lit []*T{{}}", Stmt: "_ = []{PT}{{}}", Subj: SubjT, Codes: c1},
		{Tag: "lit map[string]T{k:{}}", Stmt: `_ = map[string]{TL}{"k": {}}`, Subj: SubjT, Codes: c1},
		{Tag: "lit O{In:T{}}", Stmt: "_ = {O}{In: {TL}{}}", Subj: SubjT, Codes: c1},
		{Tag: "lit define v:=T{}", Stmt: "$v := {TL}{}; _ = $v", Subj: SubjT, Codes: c1},
		{Tag: "lit var v=T{}", Stmt: "var $v = {TL}{}; _ = $v", Subj: SubjT, Codes: c1},
		{Tag: "lit arg use(T{})", Stmt: "use({TL}{})", Subj: SubjT, Codes: c1},
		{Tag: "lit assign *p=T{}", Stmt: "*p = {TL}{}", Subj: SubjT, Codes: c1},
		{Tag: "lit two T{},T{}", Stmt: "_, _ = {TL}{}, &{TL}{}", Subj: SubjT, Codes: []string{"CTOR01", "CTOR01"}},
		{Tag: "lit two-elided []T{{},{}}", Stmt: "_ = []{T}{{}, {}}", Subj: SubjT, Codes: []string{"CTOR01", "CTOR01"}},
		// instantiations inside CONSTANT expressions of const and type declarations (len of an array literal is constant)
		{Tag: "lit in const decl len([1]T{{}})", Stmt: "const $v = len([1]{T}{{}}); _ = $v", Subj: SubjT, Codes: c1, Core: true},
		{Tag: "lit in type decl [len([2]T{})]byte", Stmt: "type $v [len([2]{T}{1: {}})]byte; _ = $v{}", Subj: SubjT, Codes: c1},
		{Tag: "lit+new use(T{}, new(T))", Stmt: "use({TL}{}, new({T}))", Subj: SubjT, Codes: []string{"CTOR01", "CTOR02"}},
		{Tag: "lit nested []T{{Xs:nil}} in call", Stmt: "use(len([]{T}{{Xs: nil}}), {TL}{})", Subj: SubjT, Codes: []string{"CTOR01", "CTOR01"}},
		{Tag: "lit nested T{Next:&T{}}", Stmt: "_ = {TL}{Next: &{TL}{}}", Subj: SubjT, Codes: []string{"CTOR01", "CTOR01"}, Core: true},
		{Tag: "lit nested T{Kids:[]T{{},{}}}", Stmt: "_ = {TL}{Kids: []{T}{{}, {}}}", Subj: SubjT, Codes: []string{"CTOR01", "CTOR01", "CTOR01"}},
		{Tag: "lit nested &T{Next:new(T)}", Stmt: "_ = &{TL}{Next: new({T})}", Subj: SubjT, Codes: []string{"CTOR01", "CTOR02"}},
		{Tag: "new(T)", Stmt: "_ = new({T})", Subj: SubjT, Codes: c2, Core: true, PkgLevel: "var $g = new({T})"},
		{Tag: "new var v=new(T)", Stmt: "var $v = new({T}); _ = $v", Subj: SubjT, Codes: c2},
		{Tag: "new arg use(new(T))", Stmt: "use(new({T}))", Subj: SubjT, Codes: c2},
		{Tag: "var v T", Stmt: "var $v {T}; _ = $v", Subj: SubjT, Codes: c3, Core: true, PkgLevel: "var $g {T}"},
		{Tag: "var v,w T", Stmt: "var $v, w$v {T}; _, _ = $v, w$v", Subj: SubjT, Codes: []string{"CTOR03", "CTOR03"}, PkgLevel: "var $g, H$g {T}"},
		// second constructor-restricted type (constructor NewT2, never one of the generated enclosers)
		{Tag: "T2 lit T2{}", Stmt: "_ = {T2}{}", Subj: SubjT2, Codes: c1, Core: true, PkgLevel: "var $g = {T2}{}"},
		{Tag: "T2 new(T2)", Stmt: "_ = new({T2})", Subj: SubjT2, Codes: c2},
		{Tag: "T2 var v T2", Stmt: "var $v {T2}; _ = $v", Subj: SubjT2, Codes: c3},
		{Tag: "unexported type lit HidAlias{}", Stmt: "_ = {q}HidAlias{}", Subj: SubjT2, Codes: c1, Core: true},
		{Tag: "unexported type new(HidAlias)", Stmt: "_ = new({q}HidAlias)", Subj: SubjT2, Codes: c2},
		{Tag: "unexported type var v HidAlias", Stmt: "var $v {q}HidAlias; _ = $v", Subj: SubjT2, Codes: c3},
		{Tag: "unexported type elided HidList{{}}", Stmt: "_ = {q}HidList{{}}", Subj: SubjT2, Codes: c1},
		{Tag: "generic lit GT[int]{}", Stmt: "_ = {GT}[int]{}", Subj: SubjT2, Codes: c1, Core: true, PkgLevel: "var $g = {GT}[int]{}"},
		{Tag: "generic lit &GT[string]{}", Stmt: "_ = &{GT}[string]{}", Subj: SubjT2, Codes: c1},
		{Tag: "generic elided []GT[int]{{}}", Stmt: "_ = []{GT}[int]{{}}", Subj: SubjT2, Codes: c1},
		{Tag: "generic new(GT[int])", Stmt: "_ = new({GT}[int])", Subj: SubjT2, Codes: c2},
		{Tag: "generic var v GT[int]", Stmt: "var $v {GT}[int]; _ = $v", Subj: SubjT2, Codes: c3},
		{Tag: "generic call NewGT(1)", Stmt: "_ = {NewGT}(1)", Subj: SubjSilent},
		{Tag: "shadow local type T instantiation", Stmt: "func() { type T struct{ F int }; _ = T{}; _ = &T{F: 1}; _ = new(T); var t T; _ = t; _ = []T{{}} }()", Subj: SubjSilent, Core: true},
		{Tag: "shadow local type GT instantiation", Stmt: "func() { type GT[V any] struct{ F V }; _ = GT[int]{}; _ = new(GT[int]); var t GT[string]; _ = t }()", Subj: SubjSilent},
		// reached without importing d in the file
		{Tag: "noimport LT{}", Stmt: "_ = LT{}", Subj: SubjT, Codes: c1, OnlyInU: true, NoImport: true},
		{Tag: "noimport new(LT)", Stmt: "_ = new(LT)", Subj: SubjT, Codes: c2, OnlyInU: true, NoImport: true},
		{Tag: "noimport var v LT", Stmt: "var $v LT; _ = $v", Subj: SubjT, Codes: c3, OnlyInU: true, NoImport: true},
		{Tag: "noimport *hp() = LT{}", Stmt: "*hp() = LT{}", Subj: SubjT, Codes: c1, OnlyInU: true, NoImport: true},
		// a second imported package with the same type names and the opposite annotations
		{Tag: "e.T (unannotated namesake) lit", Stmt: "_ = e.T{}", Subj: SubjSilent, Core: true, OnlyInU: true},
		{Tag: "e.T (unannotated namesake) new/var", Stmt: "var $v e.T; _, _ = $v, new(e.T)", Subj: SubjSilent, OnlyInU: true},
		{Tag: "e.P (annotated namesake of the twin) lit", Stmt: "_ = e.P{}", Subj: SubjAlways, Codes: c1, Core: true, OnlyInU: true},
		{Tag: "e.P (annotated namesake of the twin) var", Stmt: "var $v e.P; _ = $v", Subj: SubjAlways, Codes: c3, OnlyInU: true},
		// the importing package's own same-named type
		{Tag: "own-T lit T{}", Stmt: "_ = T{}", Subj: SubjOwnT, Codes: c1, Core: true, OnlyInU: true},
		{Tag: "own-T var v T", Stmt: "var $v T; _ = $v", Subj: SubjOwnT, Codes: c3, OnlyInU: true},
		// grouped var declarations
		{Tag: "vargroup init-before-zero", Lines: []string{"var (", "\ta$v = 1", "\t$v {T}", ")", "_, _ = a$v, $v"}, At: 2, Subj: SubjT, Codes: c3, Core: true,
			PkgLines: []string{"var (", "\tA$g = 1", "\t$g {T}", ")"}, PkgAt: 2},
		{Tag: "vargroup zero-before-init", Lines: []string{"var (", "\t$v {T}", "\tb$v = 2", ")", "_, _ = b$v, $v"}, At: 1, Subj: SubjT, Codes: c3,
			PkgLines: []string{"var (", "\t$g {T}", "\tB$g = 2", ")"}, PkgAt: 1},
		{Tag: "vargroup lit-after-init", Lines: []string{"var (", "\tc$v = 1", "\t$v = {TL}{}", ")", "_, _ = c$v, $v"}, At: 2, Subj: SubjT, Codes: c1,
			PkgLines: []string{"var (", "\tC$g = 1", "\t$g = {TL}{}", ")"}, PkgAt: 2},
		{Tag: "vargroup twin-then-T", Lines: []string{"var (", "\td$v {P}", "\t$v {T}", ")", "_, _ = d$v, $v"}, At: 2, Subj: SubjT, Codes: c3},
		{Tag: "twin group-sibling U2{}", Stmt: "_ = {U2}{}", Subj: SubjTwin, Core: true, PkgLevel: "var $g = {U2}{}"},
		{Tag: "twin group-sibling var U2", Stmt: "var $v {U2}; _ = $v", Subj: SubjTwin},
		// silent forms
		{Tag: "silent var p *T", Stmt: "var $v {PT}; _ = $v", Subj: SubjSilent, Core: true, PkgLevel: "var $g {PT}"},
		{Tag: "silent var p LP (local alias of *T)", Stmt: "{ type LP = {PT}; var $v LP; _ = $v; var $vb, $vc LP; _, _ = $vb, $vc }", Subj: SubjSilent, Core: true},
		{Tag: "silent var p **T, []T, map, chan, func", Stmt: "{ var $v *{PT}; var $vb []{T}; var $vc map[string]{T}; var $vd chan {T}; var $ve func() {T}; use($v, $vb, $vc, $vd, $ve) }", Subj: SubjSilent},
		{Tag: "silent var _ T", Stmt: "var _ {T}", Subj: SubjSilent, PkgLevel: "var _ {T}"},
		{Tag: "silent var v T = x", Stmt: "var $v {T} = x; _ = $v", Subj: SubjSilent},
		{Tag: "silent var v = x", Stmt: "var $v = x; _ = $v", Subj: SubjSilent},
		{Tag: "silent var f func() T", Stmt: "var $v func() {T}; _ = $v", Subj: SubjSilent, PkgLevel: "var $g func() {T}"},
		{Tag: "silent var s []T", Stmt: "var $v []{T}; _ = $v", Subj: SubjSilent, PkgLevel: "var $g []{T}"},
		{Tag: "silent local struct field", Stmt: "type $v struct{ f {T} }", Subj: SubjSilent},
		{Tag: "silent conversion []T(nil)", Stmt: "_ = []{T}(nil)", Subj: SubjSilent},
		{Tag: "silent copy x2:=x", Stmt: "$v := x; _ = $v", Subj: SubjSilent},
		{Tag: "silent new(int)", Stmt: "_ = new(int)", Subj: SubjSilent},
		{Tag: "silent O{}", Stmt: "_ = {O}{}", Subj: SubjSilent},
		{Tag: "silent anon struct{A T}{}", Stmt: "_ = struct{ A {T} }{}", Subj: SubjSilent},
		{Tag: "twin P{}", Stmt: "_ = {P}{}", Subj: SubjTwin, Core: true, PkgLevel: "var $g = {P}{}"},
		{Tag: "twin new(P)", Stmt: "_ = new({P})", Subj: SubjTwin},
		{Tag: "twin var v P", Stmt: "var $v {P}; _ = $v", Subj: SubjTwin, PkgLevel: "var $g {P}"},
	}
}

// Family says which analyzer a site family belongs to.
type Family struct {
	Name     string
	Analyzer string
	Sites    func() []Site
}

var (
	FamIMM  = Family{"IMM", "immutabilitychecker", IMMSites}
	FamCTOR = Family{"CTOR", "constructorchecker", CTORSites}
)

// Expect is the stateless reference: the codes a site must receive, as a function of the site,
// its enclosing declaration, the annotations, the package and the file — never of what precedes it.
func Expect(fam *Family, st *Site, encl EnclKind, file int, inU bool, m Mix) []string {
	if file == 2 { // _test.go under the default configuration: excluded
		return nil
	}
	if st.Subj == SubjTwin || st.Subj == SubjSilent {
		return nil
	}
	if st.Subj == SubjAlways {
		// e.P: annotated independently of the mix; u's function NewT is not e's constructor
		return st.Codes
	}
	if st.Subj == SubjOwnT {
		// annotated independently of the mix; exempt only inside u's own NewT / Alt
		if encl == ECtorNewT || encl == ECtorAlt {
			return nil
		}
		return st.Codes
	}
	inCtorOfT := !inU && contains(m.CtorNames(), encl.fixedName())
	inCtorOfN := !inU && m.Ctor > 0 && encl == ECtorNewN
	// T2's list names Alt too under the two-name list shapes (the other SubjT2 types, hid and GT, have constructors of their own)
	inCtorOfT2 := !inU && m.Ctor >= 2 && encl == ECtorAlt && strings.HasPrefix(st.Tag, "T2 ")
	switch fam.Name {
	case "IMM":
		if !m.Imm {
			return nil
		}
		switch st.Subj {
		case SubjT:
			if inCtorOfT {
				return nil
			}
			return st.Codes
		case SubjTMut:
			if m.Mut || inCtorOfT {
				return nil
			}
			return st.Codes
		case SubjRecvT:
			if encl == EMethTPtr {
				return st.Codes
			}
			return nil
		case SubjRecvN:
			if encl == EMethNPtr {
				return st.Codes
			}
			return nil
		case SubjT2:
			if inCtorOfT2 {
				return nil
			}
			return st.Codes
		case SubjT2Mut:
			if m.Mut || inCtorOfT2 {
				return nil
			}
			return st.Codes
		}
	case "CTOR":
		if m.Ctor == 0 {
			return nil
		}
		if st.Subj == SubjT2 {
			if inCtorOfT2 {
				return nil
			}
			return st.Codes
		}
		if inCtorOfT {
			return nil
		}
		_ = inCtorOfN
		return st.Codes
	}
	return nil
}

func contains(l []string, s string) bool {
	if s == "" {
		return false
	}
	for _, x := range l {
		if x == s {
			return true
		}
	}
	return false
}

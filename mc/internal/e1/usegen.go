package e1

import (
	"fmt"
	"sort"
	"strings"

	"verif/mc/internal/common"
	"verif/mc/internal/prog"
)

// ---------------------------------------------------------------------------------------------
// The "use" universe: package d declares a type, a function and two methods that can carry
// @testonly and/or @packageonly; a using package (d itself or an importer) refers to them in
// statement sequences. Serves C03, C04 and the layout / ignore / spelling checks built on them.

// UsePkg describes the package that contains the uses.
type UsePkg struct {
	Path, Name string
}

var (
	UPkgD  = UsePkg{PathD, "d"}
	UPkgU  = UsePkg{"ex.com/m/u", "u"}
	UPkgXU = UsePkg{"ex.com/m/x/u", "u"}
	UPkgXD = UsePkg{"ex.com/m/x/d", "d"} // another package that is also CALLED d
	UPkgW  = UsePkg{"ex.com/m/w", "w"}
	UPkgVV = UsePkg{"ex.com/m/v2", "vv"}
)

// AllowShapes are the @packageonly annotation line sets (index 0 = no annotation).
var AllowShapes = [][]string{
	nil,
	{"// @packageonly"},
	{"// @packageonly u"},
	{"// @packageonly ex.com/m/u"},
	{"// @packageonly other"},
	{"// @packageonly other, u"},
	{"// @packageonly other", "// @packageonly u"},
	{"// @packageonly u, u"},
	{"// @packageonly ex.com/m/x/u"},
	{"// @packageonly vv"},
	{"// @packageonly v2"},
	{"// @packageonly ex.com/m/x-y.z, w"},
	{"// @packageonly other ,u  and some prose"},
	{"// @packageonly other,"},
	{"// @packageonly zz, zz, u"},
	{"// @packageonly ex.com/m/d, w"},
	{"// @packageonly zz, ex.com/m/d ,zz , ex.com/m/x/u"},
	{"// @packageonly zz, ex.com/m/x-y.z, w"},          // a hyphen in an entry that is not the first
	{"// @packageonly zz,ex.com/m/x_y-z.v2 ,vv,\tu"}, // hyphen, underscore, dot and digits in the middle; a tab before the last entry
}

// allowList is the reference reading of a shape: the union of all names on all lines.
func allowList(shape int) []string {
	switch shape {
	case 2:
		return []string{"u"}
	case 3:
		return []string{"ex.com/m/u"}
	case 4:
		return []string{"other"}
	case 5, 6, 12:
		return []string{"other", "u"}
	case 7:
		return []string{"u"}
	case 8:
		return []string{"ex.com/m/x/u"}
	case 9:
		return []string{"vv"}
	case 10:
		return []string{"v2"}
	case 11:
		return []string{"ex.com/m/x-y.z", "w"}
	case 13:
		return []string{"other"}
	case 14:
		return []string{"zz", "u"}
	case 15:
		return []string{"ex.com/m/d", "w"}
	case 16:
		return []string{"zz", "ex.com/m/d", "ex.com/m/x/u"}
	case 17:
		return []string{"zz", "ex.com/m/x-y.z", "w"}
	case 18:
		return []string{"zz", "ex.com/m/x_y-z.v2", "vv", "u"}
	}
	return nil
}

// Allowed is the reference for C04.
func Allowed(p UsePkg, shape int) bool {
	if shape == 0 || p.Path == PathD {
		return true
	}
	for _, a := range allowList(shape) {
		if a == p.Path || a == p.Name {
			return true
		}
	}
	return false
}

type UseMix struct {
	TestOnly bool // @testonly on Mock, Mock2, Helper, S.Reset, (*S).ResetP
	Allow    int  // AllowShapes index on the same items
	AnnOrder int  // 0: testonly line first; 1: packageonly first, prose between
	Skip     int  // bit mask of items that carry NO annotation: 1 Mock, 2 Mock2, 4 Helper, 8 Reset, 16 ResetP
	DeclOrder int // order of the declarations in package d: 0 types-funcs-methods, 1 reversed, 2 funcs-methods-types, 3 methods-funcs-types
}

func (m UseMix) String() string {
	return fmt.Sprintf("testonly=%v,allow=%d,order=%d,skip=%d,declorder=%d", m.TestOnly, m.Allow, m.AnnOrder, m.Skip, m.DeclOrder)
}

// Item bits for UseMix.Skip.
const (
	ItMock = 1 << iota
	ItMock2
	ItHelper
	ItReset
	ItResetP
)

// itemOf maps a site to the annotated item it refers to.
func itemOf(kind UseKind, typ, tag string) int {
	switch kind {
	case UKFunc:
		return ItHelper
	case UKMethod:
		if strings.Contains(tag, "ResetP") {
			return ItResetP
		}
		return ItReset
	case UKType:
		if typ == "Mock2" {
			return ItMock2
		}
		return ItMock
	}
	return 0
}

// UseKind classifies a use site.
type UseKind int

const (
	UKNone   UseKind = iota // twin / shadowing: never reported
	UKFunc                  // reference to the annotated function
	UKMethod                // reference to an annotated method
	UKType                  // reference to an annotated type
)

type UseSite struct {
	Tag    string
	Stmt   string // {q} qualifier, $v fresh name
	Kind   UseKind
	Type   string // for UKType: Mock or Mock2
	TONL   bool   // judged for @testonly (a call, or a listed kind of type use)
	Core   bool
	OnlyImporter bool // refers to the importing package's OWN unannotated item of the same name; skipped in d
	Refs []UseRef // when set: several references on the line, in textual order (Kind/Type then describe the first)
}

// UseRef is one reference to an annotated item inside a site.
type UseRef struct {
	Kind UseKind
	Type string // for UKType
	Tag  string // only used to tell Reset from ResetP
}

func UseSites() []UseSite {
	return []UseSite{
		{Tag: "call Helper()", Stmt: "{q}Helper()", Kind: UKFunc, TONL: true, Core: true},
		{Tag: "call y=Helper()", Stmt: "y = {q}Helper()", Kind: UKFunc, TONL: true},
		{Tag: "defer Helper()", Stmt: "defer {q}Helper()", Kind: UKFunc, TONL: true},
		{Tag: "go Helper()", Stmt: "go {q}Helper()", Kind: UKFunc, TONL: true},
		{Tag: "mcall s.Reset()", Stmt: "s.Reset()", Kind: UKMethod, TONL: true, Core: true},
		{Tag: "mcall sp.ResetP()", Stmt: "sp.ResetP()", Kind: UKMethod, TONL: true},
		{Tag: "mcall s.ResetP()", Stmt: "s.ResetP()", Kind: UKMethod, TONL: true},
		{Tag: "mcall sp.Reset()", Stmt: "sp.Reset()", Kind: UKMethod, TONL: true},
		{Tag: "mcall s3.Reset() second receiver", Stmt: "s3.Reset()", Kind: UKMethod, TONL: true, Core: true},
		{Tag: "lit Mock{}", Stmt: "_ = {q}Mock{}", Kind: UKType, Type: "Mock", TONL: true, Core: true},
		{Tag: "lit &Mock{}", Stmt: "_ = &{q}Mock{}", Kind: UKType, Type: "Mock", TONL: true},
		{Tag: "var m Mock", Stmt: "var $v {q}Mock; _ = $v", Kind: UKType, Type: "Mock", TONL: true, Core: true},
		{Tag: "var m *Mock", Stmt: "var $v *{q}Mock; _ = $v", Kind: UKType, Type: "Mock", TONL: true},
		{Tag: "var m = Mock{}", Stmt: "var $v = {q}Mock{}; _ = $v", Kind: UKType, Type: "Mock", TONL: true},
		{Tag: "local struct field Mock", Stmt: "type $v struct{ f {q}Mock }", Kind: UKType, Type: "Mock", TONL: true},
		{Tag: "local struct EMBEDDED field Mock", Stmt: "func() { type lw struct{ {q}Mock }; var w lw; _ = w.A }()", Kind: UKType, Type: "Mock", TONL: true, Core: true},
		{Tag: "local struct EMBEDDED pointer field *Mock2", Stmt: "func() { type lw struct{ *{q}Mock2 }; var w lw; _ = w }()", Kind: UKType, Type: "Mock2", TONL: true},
		{Tag: "funclit param Mock", Stmt: "_ = func(m {q}Mock) {}", Kind: UKType, Type: "Mock", TONL: true},
		{Tag: "funclit result *Mock", Stmt: "_ = func() *{q}Mock { return nil }", Kind: UKType, Type: "Mock", TONL: true},
		{Tag: "lit Mock2{}", Stmt: "_ = {q}Mock2{}", Kind: UKType, Type: "Mock2", TONL: true, Core: true},
		{Tag: "var m Mock2", Stmt: "var $v {q}Mock2; _ = $v", Kind: UKType, Type: "Mock2", TONL: true},
		// twins and shadowing
		{Tag: "twin PlainF()", Stmt: "{q}PlainF()", Kind: UKNone, TONL: true, Core: true},
		{Tag: "twin s.Keep()", Stmt: "s.Keep()", Kind: UKNone, TONL: true},
		{Tag: "twin s2.Reset() same name other type", Stmt: "s2.Reset()", Kind: UKNone, TONL: true, Core: true},
		{Tag: "twin s2.ResetP() same name other type", Stmt: "s2.ResetP()", Kind: UKNone, TONL: true},
		{Tag: "twin Plain{}", Stmt: "_ = {q}Plain{}", Kind: UKNone, TONL: true},
		{Tag: "twin group-sibling PlainSib{}", Stmt: "_ = {q}PlainSib{}", Kind: UKNone, TONL: true, Core: true},
		{Tag: "twin group-sibling var PlainSib", Stmt: "var $v {q}PlainSib; _ = $v", Kind: UKNone, TONL: true},
		{Tag: "twin var Plain", Stmt: "var $v {q}Plain; _ = $v", Kind: UKNone, TONL: true},
		{Tag: "shadow local Helper", Stmt: "func() { Helper := func() int { return 0 }; _ = Helper() }()", Kind: UKNone, TONL: true, Core: true},
		{Tag: "shadow param Helper", Stmt: "func(Helper func() int) { _ = Helper() }(nil)", Kind: UKNone, TONL: true},
		{Tag: "shadow local type Helper: a conversion, not a call", Stmt: "func() { type Helper int; _ = Helper(1); _ = (Helper)(2) }()", Kind: UKNone, TONL: true, Core: true},
		{Tag: "shadow local type Mock", Stmt: "func() { type Mock struct{ A int }; _ = Mock{}; var m Mock; _ = m; _ = func(Mock) {} }()", Kind: UKNone, TONL: true, Core: true},
		{Tag: "shadow local type S with Reset", Stmt: "func() { type S struct{ Reset func() }; S{Reset: func() {}}.Reset() }()", Kind: UKNone, TONL: true},
		{Tag: "shadow field-func Reset()", Stmt: "struct{ Reset func() }{Reset: func() {}}.Reset()", Kind: UKNone, TONL: true},
		// elided element literals: the literal itself carries no type expression
		{Tag: "lit elided []Mock{{}}", Stmt: "_ = []{q}Mock{{}}", Kind: UKType, Type: "Mock", TONL: true, Core: true},
		{Tag: "lit elided map[string]*Mock2{k:{}}", Stmt: `_ = map[string]*{q}Mock2{"k": {}}`, Kind: UKType, Type: "Mock2", TONL: true},
		// the annotated method reached through embedding (promoted)
		{Tag: "mcall promoted em.Reset()", Stmt: "em.Reset()", Kind: UKMethod, TONL: true, Core: true},
		{Tag: "mcall promoted local struct{S}.Reset()", Stmt: "func() { type lw struct{ {q}S }; var w lw; w.Reset() }()", Kind: UKMethod, TONL: true},
		{Tag: "mcall promoted through the package's own OwnEmb{}.Reset()", Stmt: "OwnEmb{}.Reset()", Kind: UKMethod, TONL: true, Core: true},
		{Tag: "mcall promoted *Emb ResetP()", Stmt: "(&em).ResetP()", Kind: UKMethod, TONL: true},
		// function-local aliases: the same spelling "LA" denotes the annotated type in one block and the twin in another
		{Tag: "local alias LA=Mock; var v LA", Stmt: "{ type LA = {q}Mock; var $v LA; _ = $v }", Kind: UKType, Type: "Mock", TONL: true, Core: true},
		{Tag: "local alias LA=Plain; var v LA", Stmt: "{ type LA = {q}Plain; var $v LA; _ = $v }", Kind: UKNone, TONL: true, Core: true},
		{Tag: "local alias LA=Mock; field LA", Stmt: "{ type LA = {q}Mock; type $v struct{ f LA } }", Kind: UKType, Type: "Mock", TONL: true},
		{Tag: "local alias LA=Plain; field LA", Stmt: "{ type LA = {q}Plain; type $v struct{ f LA } }", Kind: UKNone, TONL: true},
		// an alias whose target is a POINTER to the annotated type (and a pointer to an alias of it)
		{Tag: "local alias LP=*Mock; var v LP", Stmt: "{ type LP = *{q}Mock; var $v LP; _ = $v }", Kind: UKType, Type: "Mock", TONL: true, Core: true},
		{Tag: "local alias LP=*Mock2; param LP", Stmt: "{ type LP = *{q}Mock2; _ = func(LP) {} }", Kind: UKType, Type: "Mock2", TONL: true},
		{Tag: "local alias LA=Mock; var v *LA", Stmt: "{ type LA = {q}Mock; var $v *LA; _ = $v }", Kind: UKType, Type: "Mock", TONL: true},
		{Tag: "local alias LP=*Plain; var v LP", Stmt: "{ type LP = *{q}Plain; var $v LP; _ = $v }", Kind: UKNone, TONL: true},
		// several uses nested inside one statement
		{Tag: "nested HelperArg(Helper())", Stmt: "{q}HelperArg({q}Helper())", Kind: UKFunc, TONL: true, Core: true,
			Refs: []UseRef{{Kind: UKFunc}, {Kind: UKFunc}}},
		{Tag: "nested HelperArg(Mock2{})", Stmt: "{q}HelperArg({q}Mock2{})", Kind: UKFunc, TONL: true,
			Refs: []UseRef{{Kind: UKFunc}, {Kind: UKType, Type: "Mock2"}}},
		{Tag: "nested HelperArg(s.Reset)", Stmt: "{q}HelperArg(func() int { s.Reset(); return {q}Helper() }())", Kind: UKFunc, TONL: true,
			Refs: []UseRef{{Kind: UKFunc}, {Kind: UKMethod, Tag: "Reset"}, {Kind: UKFunc}}},
		{Tag: "nested use(Helper(), Mock{})", Stmt: "_ = []any{{q}Helper(), {q}Mock{}, {q}Helper()}", Kind: UKFunc, TONL: true,
			Refs: []UseRef{{Kind: UKFunc}, {Kind: UKType, Type: "Mock"}, {Kind: UKFunc}}},
		// uses nested INSIDE a literal of an annotated type, and inside the initialiser of a variable of that type
		{Tag: "nested lit Mock{A: Helper()}", Stmt: "_ = {q}Mock{A: {q}Helper()}", Kind: UKType, Type: "Mock", TONL: true, Core: true,
			Refs: []UseRef{{Kind: UKType, Type: "Mock"}, {Kind: UKFunc}}},
		{Tag: "nested var m Mock = Mock{A: Helper()}", Stmt: "var $v {q}Mock = {q}Mock{A: {q}Helper()}; _ = $v", Kind: UKType, Type: "Mock", TONL: true,
			Refs: []UseRef{{Kind: UKType, Type: "Mock"}, {Kind: UKType, Type: "Mock"}, {Kind: UKFunc}}},
		{Tag: "nested lit []Mock{{A: func..s.Reset()}}", Stmt: "_ = []{q}Mock{{A: func() int { s.Reset(); return 0 }()}}", Kind: UKType, Type: "Mock", TONL: true,
			Refs: []UseRef{{Kind: UKType, Type: "Mock"}, {Kind: UKMethod, Tag: "Reset"}}},
		// an exported annotated method of an UNEXPORTED type, reached through a constructor and through promotion
		{Tag: "mcall NewWorker().Reset() unexported receiver type", Stmt: "{q}NewWorker().Reset()", Kind: UKMethod, TONL: true, Core: true},
		{Tag: "mcall promoted EmbW.Reset() unexported embedded type", Stmt: "{q}EmbW{}.Reset()", Kind: UKMethod, TONL: true},
		// references nested in the RECEIVER of a reported method call
		{Tag: "nested chain MkS().Reset()", Stmt: "{q}MkS().Reset()", Kind: UKFunc, TONL: true, Core: true,
			Refs: []UseRef{{Kind: UKFunc}, {Kind: UKMethod, Tag: "Reset"}}},
		{Tag: "nested receiver map[Mock2]S{}[Mock2{}].Reset()", Stmt: "map[{q}Mock2]{q}S{}[{q}Mock2{}].Reset()", Kind: UKType, Type: "Mock2", TONL: true,
			Refs: []UseRef{{Kind: UKType, Type: "Mock2"}, {Kind: UKMethod, Tag: "Reset"}}},
		{Tag: "nested chain s.Chain().Reset() two methods", Stmt: "s.Chain().Reset()", Kind: UKMethod, TONL: true, Core: true,
			Refs: []UseRef{{Kind: UKMethod, Tag: "Reset"}, {Kind: UKMethod, Tag: "Reset"}}},
		// a local variable with the NAME of the import whose method IS annotated (after a qualified call in the same file)
		{Tag: "shadow import name d := S{}; d.Reset()", Stmt: "func() { d := {q}S{}; d.Reset() }()", Kind: UKMethod, TONL: true, Core: true},
		// the importing package's own, unannotated items that share the names of d's annotated ones
		{Tag: "own Helper()", Stmt: "Helper()", Kind: UKNone, TONL: true, Core: true, OnlyImporter: true},
		{Tag: "own Mock{}", Stmt: "_ = Mock{}", Kind: UKNone, TONL: true, OnlyImporter: true},
		{Tag: "own var Mock", Stmt: "var $v Mock; _ = $v", Kind: UKNone, TONL: true, OnlyImporter: true},
		// a second imported package with unannotated items of the same names
		{Tag: "namesake e.Helper()", Stmt: "e.Helper()", Kind: UKNone, TONL: true, Core: true, OnlyImporter: true},
		{Tag: "namesake e.Mock{}", Stmt: "_ = e.Mock{}", Kind: UKNone, TONL: true, OnlyImporter: true},
		{Tag: "namesake var e.Mock2 (restricted in e)", Stmt: "var $v e.Mock2; _ = $v", Kind: UKType, Type: "eMock2", TONL: true, OnlyImporter: true, Core: true},
		{Tag: "namesake e.S{}.Reset()", Stmt: "e.S{}.Reset()", Kind: UKNone, TONL: true, OnlyImporter: true},
		// a local variable that has the NAME of the import: d.Reset() / d.Helper() are then calls on a value of an unannotated type
		{Tag: "shadow import name d := e.S{}", Stmt: "func() { d := e.S{}; d.Reset(); dd := &d; dd.ResetP() }()", Kind: UKNone, TONL: true, OnlyImporter: true},
		{Tag: "shadow import name d struct{Helper}", Stmt: "func() { d := struct{ Helper func() int }{func() int { return 0 }}; _ = d.Helper() }()", Kind: UKNone, TONL: true, OnlyImporter: true},
		{Tag: "namesake e.HelperArg(e.Mock{})", Stmt: "e.HelperArg(e.Mock{})", Kind: UKNone, TONL: true, OnlyImporter: true},
		// generic items, explicit instantiation, parenthesised callees
		{Tag: "call HelperG(1) inferred", Stmt: "{q}HelperG(1)", Kind: UKFunc, TONL: true, Core: true},
		{Tag: "call HelperG[int](1) instantiated", Stmt: "{q}HelperG[int](1)", Kind: UKFunc, TONL: true, Core: true},
		{Tag: "call (Helper)() parenthesised", Stmt: "({q}Helper)()", Kind: UKFunc, TONL: true, Core: true},
		{Tag: "call (HelperG[string])(..) parenthesised instantiated", Stmt: `({q}HelperG[string])("")`, Kind: UKFunc, TONL: true},
		{Tag: "mcall (s.Reset)() parenthesised", Stmt: "(s.Reset)()", Kind: UKMethod, TONL: true, Core: true},
		{Tag: "mcall gs.Reset() generic receiver", Stmt: "gs.Reset()", Kind: UKMethod, TONL: true, Core: true},
		{Tag: "twin gs.Keep() generic receiver", Stmt: "gs.Keep()", Kind: UKNone, TONL: true},
		{Tag: "twin PlainG[int](1)", Stmt: "{q}PlainG[int](1)", Kind: UKNone, TONL: true},
		{Tag: "lit GMock[int]{}", Stmt: "_ = {q}GMock[int]{}", Kind: UKType, Type: "GMock", TONL: true, Core: true},
		{Tag: "var m GMock[string]", Stmt: "var $v {q}GMock[string]; _ = $v", Kind: UKType, Type: "GMock", TONL: true},
		{Tag: "lit elided []GMock[int]{{}}", Stmt: "_ = []{q}GMock[int]{{}}", Kind: UKType, Type: "GMock", TONL: true},
		{Tag: "twin GPlain[int]{}", Stmt: "_ = {q}GPlain[int]{}", Kind: UKNone, TONL: true},
		// reference kinds the @testonly statement does not list (judged for @packageonly only)
		{Tag: "value Helper", Stmt: "_ = {q}Helper", Kind: UKFunc},
		{Tag: "mvalue s.Reset", Stmt: "_ = s.Reset", Kind: UKMethod},
		{Tag: "mexpr S.Reset", Stmt: "_ = {q}S.Reset", Kind: UKMethod},
		{Tag: "conv Mock(x)", Stmt: "_ = {q}Mock(struct{ A int }{})", Kind: UKType, Type: "Mock"},
		{Tag: "assert x.(Mock)", Stmt: "_, _ = any(y).({q}Mock)", Kind: UKType, Type: "Mock"},
		{Tag: "new(Mock)", Stmt: "_ = new({q}Mock)", Kind: UKType, Type: "Mock"},
		{Tag: "var m []Mock", Stmt: "var $v []{q}Mock; _ = $v", Kind: UKType, Type: "Mock"},
		{Tag: "value HelperG[int]", Stmt: "_ = {q}HelperG[int]", Kind: UKFunc},
		{Tag: "new(GMock[int])", Stmt: "_ = new({q}GMock[int])", Kind: UKType, Type: "GMock"},
	}
}

// UseEncl is the kind of declaration enclosing a statement sequence (or being a site itself).
type UseEncl int

const (
	UEPlain UseEncl = iota
	UETestOnlyFunc
	UETestOnlyMeth
	UEMethQ
	UEPkgVar
	UEParamMock   // func f(m Mock) {}            — the header line is a type-use site
	UEResultMock  // func f() *Mock { return nil } — header line is a site
	UEStructField // type w struct {\n f Mock \n}  — the field line is a site
	UEPkgVarTyped // var g Mock                    — site
	UEPkgVarLit   // var g = Mock{}                — site
	UEMethNamedHelper // func (q *Q) Helper(...) {…}  — a method that merely shares the @testonly function's name
	UEFuncNamedReset  // func Reset(...) {…}          — a function that shares a @testonly method's name
	UEMethQReset      // func (q *Q) Reset(...) {…}   — same method name, other receiver type
	UENoImport        // a function in a file of the importing package that does not import d: calls through helpers of a.go
	nUseEncl
)

var UseEnclNames = []string{"plain-func", "testonly-func", "testonly-method", "method-Q", "pkgvar-closure",
	"func-param-Mock", "func-result-Mock", "struct-field-Mock", "pkgvar-typed-Mock", "pkgvar-lit-Mock",
	"method-named-Helper", "func-named-Reset", "method-Q-named-Reset", "func-in-import-free-file"}

func (e UseEncl) String() string { return UseEnclNames[e] }
func (e UseEncl) hasBody() bool  { return e <= UEPkgVar || (e >= UEMethNamedHelper && e != UENoImport) }
func (e UseEncl) HasBody() bool  { return e.hasBody() }

// FixedName is non-empty for enclosers that can occur once per package.
func (e UseEncl) FixedName() string {
	switch e {
	case UEMethNamedHelper:
		return "Q.Helper"
	case UEFuncNamedReset:
		return "Reset"
	case UEMethQReset:
		return "Q.Reset"
	}
	return ""
}

// ValidUseHistory rejects histories that would declare a fixed name twice.
func ValidUseHistory(h []UseBlock) bool {
	seen := map[string]bool{}
	for _, b := range h {
		if n := b.Encl.FixedName(); n != "" {
			if seen[n] {
				return false
			}
			seen[n] = true
		}
	}
	return true
}
func (e UseEncl) exemptTONL() bool {
	return e == UETestOnlyFunc || e == UETestOnlyMeth
}

type UseBlock struct {
	Encl  UseEncl
	File  int   // 0 a.go, 1 b.go, 2 c_test.go
	Stmts []int // indices into the site alphabet (only for enclosers with a body)
	ID    int   // stable identity across layout transformations (0 = position in the history)
	Trail string // optional trailing comment on the block's first statement / declaration-level site (travels with it)
}

func (b UseBlock) String() string {
	var l []string
	for _, s := range b.Stmts {
		l = append(l, fmt.Sprint(s))
	}
	return fmt.Sprintf("%s@%d[%s]", b.Encl, b.File, strings.Join(l, ","))
}

type UseSpec struct {
	Pkg    UsePkg
	Mix    UseMix
	ReverseParse bool // environment choice of the loader: later files of the package get the LOWER positions
	Spell  Spell // SpDirect, SpLocalAlias, SpThirdAlias (importers only), SpRenamedImp (importers only)
	Blocks []UseBlock
	Sites  []UseSite
	ForTONL bool // omit sites that are not judged for @testonly
	BlankLines bool
	Mangle   int
	IgnoreAt *IgnoreIns // optional @ignore comment insertion (C07/C17)
}

// IgnoreIns inserts one comment line / trailer relative to the k-th recorded site.
type IgnoreIns struct {
	Site      int    // index into rendered sites (render order)
	Placement string // "trail", "above", "prev-trail", "next-trail", "file", "decl"
	Text      string // e.g. "// @ignore TONL01"
}

type UseSiteInst struct {
	Site   *UseSite // nil for encloser-level sites
	Tag    string
	Kind   UseKind
	Type   string
	Block  int
	Ord    int // position of the statement in its block
	File   string
	FileNo int
	Line   int
	Exempt bool // inside a @testonly function/method of the using package
	PKGOOnly bool // an alias declaration: a reference (@packageonly) but none of the uses the @testonly statement lists
	Refs   []UseRef
}

type UseRendered struct {
	Prog  *prog.Program
	Sites []UseSiteInst // in textual order per file, files in order
}

func (m UseMix) ann(w *lineWriter, indent string, item int) {
	if m.Skip&item != 0 {
		return
	}
	var to, po []string
	if m.TestOnly {
		to = []string{"// @testonly"}
	}
	po = AllowShapes[m.Allow]
	if m.AnnOrder == 1 {
		for _, l := range po {
			w.add(indent + l)
		}
		w.add(indent + "// prose between annotations mentioning @testonly mid-line")
		for _, l := range to {
			w.add(indent + l)
		}
		return
	}
	for _, l := range to {
		w.add(indent + l)
	}
	for _, l := range po {
		w.add(indent + l)
	}
}

// SplitD reports whether package d declares Mock2 in a second, later-sorting file (zz_types.go) under this mix: the
// package's annotations are then spread over two files, a function's before a type's.
func (m UseMix) SplitD() bool { return m.AnnOrder == 1 || (m.Allow > 0 && m.Allow%2 == 0) }

func usePreludeD(w0 *lineWriter, m UseMix, w2 *lineWriter) {
	w := w0
	chunk := func(f func()) func() { return f }
	// a grouped import: ONE declaration holding two import specs, in front of the annotated declarations
	w.add("import (")
	w.add("\t\"unsafe\"")
	w.add("\t_ \"unsafe\"")
	w.add(")")
	w.add("")
	tMock := chunk(func() {
		// Mock lives in a type group and is followed by a sibling WITHOUT a doc comment of its own
		w.add("type (")
		w.add("\t// Mock is a test double.")
		m.ann(w, "\t", ItMock)
		w.add("\tMock struct{ A int }")
		w.add("\tPlainSib struct{ A int }")
		w.add(")")
		w.add("")
		w.add("// DMock is an alias this package itself exports for Mock (not a use of it, and it carries no annotation).")
		w.add("type DMock = Mock")
		w.add("")
		w.add("// GMock is a generic test double carrying the same annotations.")
		m.ann(w, "", ItMock)
		w.add("type GMock[V any] struct{ A V }")
		w.add("")
	})
	tMock2 := chunk(func() {
		if w2 != nil {
			w = w2
			defer func() { w = w0 }()
		}
		w.add("// Mock2 is another one.")
		m.ann(w, "", ItMock2)
		w.add("type Mock2 struct{ A int }")
		w.add("")
		w.add("type DMock2 = Mock2")
		w.add("")
	})
	tPlain := chunk(func() {
		w.add("type Plain struct{ A int }")
		w.add("")
		if w2 != nil {
			// the receiver type of the annotated methods lives in the LATER file; the methods stay in this one
			w2.add("type S struct{ K int }")
			w2.add("")
		} else {
			w.add("type S struct{ K int }")
			w.add("")
		}
		w.add("// S2 has methods with the same names as S's annotated ones, without annotations.")
		w.add("type S2 struct{ K int }")
		w.add("")
		w.add("func (s S2) Reset() {}")
		w.add("")
		w.add("func (s *S2) ResetP() {}")
		w.add("")
		w.add("// Emb embeds S: its method set contains S's (annotated) methods by promotion.")
		w.add("type Emb struct{ S }")
		w.add("")
		w.add("// S3 has its own annotated Reset (a second annotated method of the same name on another receiver).")
		w.add("type S3 struct{ K int }")
		w.add("")
		w.add("// worker is unexported; its annotated method is still callable from other packages.")
		w.add("type worker struct{ K int }")
		w.add("")
		w.add("func NewWorker() *worker { return &worker{} }")
		w.add("")
		w.add("type EmbW struct{ *worker }")
		w.add("")
		w.add("// GS is a generic receiver type, GPlain a generic twin without annotations.")
		w.add("type GS[V any] struct{ K V }")
		w.add("")
		w.add("func (GS[V]) Keep() {}")
		w.add("")
		w.add("type GPlain[V any] struct{ A V }")
		w.add("")
	})
	fHelper := chunk(func() {
		w.add("// Helper helps.")
		m.ann(w, "", ItHelper)
		w.add("func Helper() int { return 0 }")
		w.add("")
		w.add("// HelperArg takes an argument, so that other uses can be nested inside a call to it.")
		m.ann(w, "", ItHelper)
		w.add("func HelperArg(x any) int { return 0 }")
		w.add("")
		w.add("func PlainF() int { return 0 }")
		w.add("")
		w.add("// MkS carries the same annotations and returns a value whose methods can be chained onto the call.")
		m.ann(w, "", ItHelper)
		w.add("func MkS() S { return S{} }")
		w.add("")
		w.add("// HelperG is generic and carries the same annotations.")
		m.ann(w, "", ItHelper)
		w.add("func HelperG[V any](v V) int { return 0 }")
		w.add("")
		w.add("func PlainG[V any](v V) int { return 0 }")
		w.add("")
		w.add("// convTP converts through TYPE PARAMETERS named like the annotated functions: no call of either.")
		w.add("func convTP[Helper ~int, HelperG ~int](v int) Helper { _ = HelperG(v); return Helper(v) }")
		w.add("")
	})
	mReset := chunk(func() {
		w.add("// Reset resets.")
		m.ann(w, "", ItReset)
		w.add("func (s S) Reset() {}")
		w.add("")
		w.add("// Chain returns its receiver and carries the same annotations: s.Chain().Reset() holds two restricted methods")
		w.add("// in one expression that starts at one position.")
		m.ann(w, "", ItReset)
		w.add("func (s S) Chain() S { return s }")
		w.add("")
		w.add("// Reset of S3 is annotated whenever S's is, but with an allow-list of its OWN (S3AllowList): two restricted")
		w.add("// items of one name in one package whose verdicts differ for the same using package.")
		if m.Skip&ItReset == 0 {
			if m.TestOnly {
				w.add("// @testonly")
			}
			w.add("// @packageonly " + S3AllowList)
		}
		w.add("func (S3) Reset() {}") // unnamed receiver
		w.add("")
		w.add("// Reset of the UNEXPORTED type worker carries the same annotation; other packages reach it through NewWorker and EmbW.")
		m.ann(w, "", ItReset)
		w.add("func (w *worker) Reset() {}")
		w.add("")
		w.add("// Reset of the generic GS carries the same annotation.")
		m.ann(w, "", ItReset)
		w.add("func (g *GS[V]) Reset() {}")
		w.add("")
	})
	mResetP := chunk(func() {
		w.add("// ResetP resets through a pointer.")
		m.ann(w, "", ItResetP)
		w.add("func (*S) ResetP() {}") // unnamed receiver
		w.add("")
		w.add("func (s S) Keep() {}")
		w.add("")
	})
	var order []func()
	switch m.DeclOrder {
	case 1:
		order = []func(){mResetP, mReset, fHelper, tPlain, tMock2, tMock}
	case 2:
		order = []func(){fHelper, mReset, mResetP, tPlain, tMock, tMock2}
	case 3:
		order = []func(){mReset, mResetP, fHelper, tMock2, tPlain, tMock}
	default:
		order = []func(){tMock, tMock2, tPlain, fHelper, mReset, mResetP}
	}
	for _, f := range order {
		f()
	}
	w.add("var _ unsafe.Pointer")
	w.add("")
}

// trailOf is the trailing comment of a one-line declaration (" // @ignore ..."), if any.
func trailOf(b UseBlock) string {
	if b.Trail == "" {
		return ""
	}
	return " " + b.Trail
}

// OneLiner reports whether the encloser renders as a single-line top-level declaration that is itself a site.
func (e UseEncl) OneLiner() bool {
	return e == UEParamMock || e == UEResultMock || e == UEPkgVarTyped || e == UEPkgVarLit
}

// RenderUse renders the spec.
func RenderUse(s *UseSpec) *UseRendered {
	out := &UseRendered{}
	inD := s.Pkg.Path == PathD
	q := "d."
	if inD {
		q = ""
	} else if s.Spell == SpRenamedImp {
		q = "dd."
	} else if s.Spell == SpDotImport || s.Spell == SpDeclAliasDot {
		q = "" // every exported name of d is in the file scope of each importing file
	}
	dot := !inD && (s.Spell == SpDotImport || s.Spell == SpDeclAliasDot)
	mock, mock2 := q+"Mock", q+"Mock2"
	switch s.Spell {
	case SpDeclAlias, SpDeclAliasDot:
		mock, mock2 = q+"DMock", q+"DMock2"
	case SpLocalAlias, SpMixedAlias:
		mock, mock2 = "AMock", "AMock2"
	case SpThirdAlias:
		mock, mock2 = "c.AMock", "c.AMock2"
	}
	ctr := 0
	substWith := func(stmt, mock, mock2 string) string {
		ctr++
		st := strings.ReplaceAll(stmt, "{q}Mock2", mock2)
		st = strings.ReplaceAll(st, "{q}Mock", mock)
		return strings.NewReplacer("{q}", q, "$v", fmt.Sprintf("v%d", ctr)).Replace(st)
	}
	subst := func(stmt string) string {
		if s.Spell == SpMixedAlias && ctr%2 == 1 {
			return substWith(stmt, q+"Mock", q+"Mock2") // every second statement names the types directly
		}
		return substWith(stmt, mock, mock2)
	}
	files := make([]*lineWriter, 4)
	perFile := make([][]UseSiteInst, 4)
	used := []bool{true, false, false, false}
	for bi := range s.Blocks {
		if s.Blocks[bi].Encl == UENoImport {
			s.Blocks[bi].File = 3
		}
		used[s.Blocks[bi].File] = true
	}
	for i := range files {
		if !used[i] {
			continue
		}
		w := &lineWriter{}
		files[i] = w
		w.add("package " + s.Pkg.Name)
		w.add("")
		if i == 3 {
			continue // the import-free file
		}
		factless := !inD && (s.Mix.Allow%2 == 1 || s.Mix.AnnOrder == 1)
		if factless {
			// an import for which no driver holds a fact, ahead of the annotated package in import order
			w.add(`import "unsafe"`)
		}
		if !inD {
			if s.Spell == SpRenamedImp {
				w.add(`import dd "ex.com/m/d"`)
			} else if dot {
				w.add(`import . "ex.com/m/d"`)
			} else {
				w.add(`import "ex.com/m/d"`)
			}
			if s.Spell == SpThirdAlias {
				w.add(`import "ex.com/m/c"`)
			}
			w.add(`import "ex.com/m/e"`)
			w.add("")
			w.add("var _ = e.Helper")
			if factless {
				w.add("var _ unsafe.Pointer")
			}
			w.add("var _ = " + q + "PlainF")
			if s.Spell == SpThirdAlias {
				w.add("var _ = c.Keep")
			}
			w.add("")
		}
	}
	w0 := files[0]
	var dSecond *lineWriter // package d's second file when the uses are in d itself
	if inD {
		if s.Mix.SplitD() {
			dSecond = &lineWriter{}
			dSecond.add("package d")
			dSecond.add("")
		}
		usePreludeD(w0, s.Mix, dSecond)
	}
	w0.add("type Q struct{ K int }")
	w0.add("")
	w0.add("// QA is an alias of this package's own receiver type: under the alias spellings the @testonly method enclosers")
	w0.add("// name their receiver through it.")
	w0.add("type QA = Q")
	w0.add("")
	w0.add("// hs and hsp hand out values of d's S, so that other files can call its methods without importing d.")
	w0.add("func hs() " + q + "S { return " + q + "S{} }")
	w0.add("")
	w0.add("func hsp() *" + q + "S { return nil }")
	w0.add("")
	w0.add("// OwnEmb is this package's own (package-level) struct; it embeds d's S, whose annotated methods are promoted.")
	w0.add("type OwnEmb struct{ " + q + "S }")
	w0.add("")
	if !inD && !dot {
		w0.add("// Helper and Mock are this package's own, unannotated items; they only share their names with d's.")
		w0.add("func Helper() int { return 0 }")
		w0.add("")
		w0.add("type Mock struct{ A int }")
		w0.add("")
	}
	if s.Spell == SpLocalAlias || s.Spell == SpMixedAlias {
		// the alias declarations themselves mention the types: they are sites (first reference in the file)
		ln := w0.add("type AMock0 = " + q + "Mock // first link of an alias chain")
		perFile[0] = append(perFile[0], UseSiteInst{Tag: "alias-decl Mock", Kind: UKType, Type: "Mock", Block: -1, FileNo: 0, Line: ln, PKGOOnly: true})
		usesMock2 := false
		for _, b := range s.Blocks {
			for _, si := range b.Stmts {
				if s.Sites[si].Type == "Mock2" {
					usesMock2 = true
				}
				for _, ref := range s.Sites[si].Refs {
					if ref.Type == "Mock2" {
						usesMock2 = true
					}
				}
			}
		}
		w0.add("type AMock = AMock0")
		if usesMock2 {
			ln = w0.add("type AMock2 = " + q + "Mock2")
			perFile[0] = append(perFile[0], UseSiteInst{Tag: "alias-decl Mock2", Kind: UKType, Type: "Mock2", Block: -1, FileNo: 0, Line: ln, PKGOOnly: true})
		}
		w0.add("")
	}
	pre := func(w *lineWriter, ind string) {
		if s.BlankLines {
			w.add("")
			w.add(ind + "// an ordinary comment")
		}
	}
	params := "(s " + q + "S, sp *" + q + "S, y int, s2 " + q + "S2, s3 " + q + "S3, em " + q + "Emb, gs *" + q + "GS[int])"
	for bi, b := range s.Blocks {
		w := files[b.File]
		pre(w, "")
		rec := func(st *UseSite, tag string, kind UseKind, typ string, ord, line int) {
			inst := UseSiteInst{Site: st, Tag: tag, Kind: kind, Type: typ, Block: bi, Ord: ord,
				FileNo: b.File, Line: line, Exempt: b.Encl.exemptTONL()}
			if st != nil {
				inst.Refs = st.Refs
			}
			perFile[b.File] = append(perFile[b.File], inst)
		}
		switch b.Encl {
		case UEPlain:
			w.addf("func f%d%s {", bi, params)
		case UETestOnlyFunc:
			w.add("// @testonly")
			w.addf("func tf%d%s {", bi, params)
		case UETestOnlyMeth:
			w.add("// @testonly")
			if s.Spell == SpLocalAlias || s.Spell == SpMixedAlias || s.Spell == SpBodyAlias {
				w.addf("func (q *QA) tm%d%s {", bi, params)
			} else {
				w.addf("func (q *Q) tm%d%s {", bi, params)
			}
		case UEMethQ:
			w.addf("func (q *Q) m%d%s {", bi, params)
		case UEMethNamedHelper:
			w.addf("func (q *Q) Helper%s {", params)
		case UEFuncNamedReset:
			w.addf("func Reset%s {", params)
		case UEMethQReset:
			w.addf("func (q *Q) Reset%s {", params)
		case UEPkgVar:
			w.addf("var _ = func%s int {", params)
		case UENoImport:
			w.addf("func fn%d() {", bi)
			ln := w.add("\ths().Reset()")
			rec(nil, "noimport mcall hs().Reset()", UKMethod, "", 0, ln)
			ln = w.add("\thsp().ResetP()")
			rec(nil, "noimport mcall hsp().ResetP()", UKMethod, "", 1, ln)
			ln = w.add("\ths().Keep()")
			rec(nil, "noimport twin hs().Keep()", UKNone, "", 2, ln)
			w.add("}")
			w.add("")
			continue
		case UEParamMock:
			ln := w.addf("func fp%d(m %s) {}%s", bi, mock, trailOf(b))
			rec(nil, "func param Mock", UKType, "Mock", 0, ln)
			w.add("")
			continue
		case UEResultMock:
			ln := w.addf("func fr%d() *%s { return nil }%s", bi, mock, trailOf(b))
			rec(nil, "func result *Mock", UKType, "Mock", 0, ln)
			w.add("")
			continue
		case UEStructField:
			w.addf("type w%d struct {", bi)
			ln := w.add("\tf " + mock)
			rec(nil, "struct field Mock", UKType, "Mock", 0, ln)
			w.add("}")
			w.add("")
			continue
		case UEPkgVarTyped:
			ln := w.addf("var g%d %s%s", bi, mock, trailOf(b))
			rec(nil, "pkgvar typed Mock", UKType, "Mock", 0, ln)
			w.add("")
			continue
		case UEPkgVarLit:
			ln := w.addf("var g%d = %s{}%s", bi, mock, trailOf(b))
			rec(nil, "pkgvar lit Mock", UKType, "Mock", 0, ln)
			w.add("")
			continue
		}
		bodyAlias := s.Spell == SpBodyAlias
		if bodyAlias {
			// function-local aliases for the types this body mentions; the declarations are references themselves
			for ti, typ := range []string{"Mock", "Mock2"} {
				used := false
				for _, si := range b.Stmts {
					if s.Sites[si].Type == typ {
						used = true
					}
					for _, ref := range s.Sites[si].Refs {
						if ref.Type == typ {
							used = true
						}
					}
				}
				if used {
					ln := w.add("\ttype B" + typ + " = " + q + typ)
					inst := UseSiteInst{Tag: "body-alias-decl " + typ, Kind: UKType, Type: typ, Block: bi, Ord: -1 - ti,
						FileNo: b.File, Line: ln, Exempt: b.Encl.exemptTONL(), PKGOOnly: true}
					perFile[b.File] = append(perFile[b.File], inst)
				}
			}
		}
		for ord, si := range b.Stmts {
			st := &s.Sites[si]
			if st.OnlyImporter && (inD || (dot && strings.HasPrefix(st.Tag, "own "))) {
				continue // under a dot import the package cannot declare its own Helper / Mock
			}
			pre(w, "\t")
			text := "\t" + subst(st.Stmt)
			if bodyAlias {
				ctr--
				text = "\t" + substWith(st.Stmt, "BMock", "BMock2")
			}
			if ord == 0 && b.Trail != "" {
				text += " " + b.Trail
			}
			ln := w.add(text)
			rec(st, st.Tag, st.Kind, st.Type, ord, ln)
		}
		if b.Encl == UEPkgVar {
			w.add("\treturn 0")
		}
		w.add("}")
		w.add("")
	}

	p := &prog.Program{}
	if !inD {
		// a second imported package declaring UNANNOTATED items with the same names as d's annotated ones
		p.Pkgs = append(p.Pkgs, prog.Pkg{Path: "ex.com/m/e", Files: []prog.File{{Name: "e.go", Src: `package e

func Helper() int { return 0 }

func HelperArg(x any) int { return 0 }

type Mock struct{ A int }

// Mock2 has the NAME of d's second annotated type and is restricted itself (always, independently of the mix).
// @packageonly nowhere
type Mock2 struct{ A int }

type S struct{ K int }

func (s S) Reset() {}

func (s *S) ResetP() {}
`}}})
		wd := &lineWriter{}
		wd.add("package d")
		wd.add("")
		var wd2 *lineWriter
		if s.Mix.SplitD() {
			wd2 = &lineWriter{}
			wd2.add("package d")
			wd2.add("")
		}
		usePreludeD(wd, s.Mix, wd2)
		dFiles := []prog.File{{Name: "a.go", Src: wd.b.String()}}
		if wd2 != nil {
			dFiles = append(dFiles, prog.File{Name: "zz_types.go", Src: wd2.b.String()})
		}
		p.Pkgs = append(p.Pkgs, prog.Pkg{Path: PathD, Files: dFiles})
		if s.Spell == SpThirdAlias {
			p.Pkgs = append(p.Pkgs, prog.Pkg{Path: PathC, Files: []prog.File{{Name: "c.go",
				Src: "package c\n\nimport \"ex.com/m/d\"\n\ntype AMock = d.Mock\ntype AMock2 = d.Mock2\n\nfunc Keep() {}\n"}}})
		}
	}
	pk := prog.Pkg{Path: s.Pkg.Path}
	for i, w := range files {
		if w == nil {
			continue
		}
		pk.Files = append(pk.Files, prog.File{Name: FileNames[i], Src: Mangle(s.Mangle, w.b.String())})
		for _, si := range perFile[i] {
			si.File = s.Pkg.Path + "/" + FileNames[i]
			out.Sites = append(out.Sites, si)
		}
	}
	if dSecond != nil {
		pk.Files = append(pk.Files, prog.File{Name: "zz_types.go", Src: dSecond.b.String()})
	}
	p.Pkgs = append(p.Pkgs, pk)
	out.Prog = p
	return out
}

// S3AllowList is the fixed allow-list of (S3).Reset: the package name u and the import path of w.
const S3AllowList = "u, ex.com/m/w"

func s3Allowed(p UsePkg) bool {
	return p.Path == PathD || p.Name == "u" || p.Path == "ex.com/m/w"
}

// ExpectUse is the reference for C03 (fam "TONL") and C04 (fam "PKGO"): expected codes per
// rendered site, applying the once-per-file-and-type rule in textual order.
func ExpectUse(fam string, s *UseSpec, rd *UseRendered) [][]string {
	exp := make([][]string, len(rd.Sites))
	seen := map[string]bool{} // file|type
	for i := range rd.Sites {
		si := &rd.Sites[i]
		if si.FileNo == 2 { // _test.go: excluded under the default configuration
			continue
		}
		if fam == "TONL" && si.PKGOOnly {
			continue
		}
		refs := si.Refs
		if len(refs) == 0 {
			refs = []UseRef{{Kind: si.Kind, Type: si.Type, Tag: si.Tag}}
		}
		for _, ref := range refs {
			if ref.Type == "eMock2" {
				// e's own Mock2: @packageonly nowhere, whatever the mix says about d's items; never @testonly
				if fam == "PKGO" {
					if k := si.File + "|eMock2"; !seen[k] {
						seen[k] = true
						exp[i] = append(exp[i], "PKGO01")
					}
				}
				continue
			}
			if s.Mix.Skip&itemOf(ref.Kind, ref.Type, ref.Tag) != 0 {
				continue // the item carries no annotation
			}
			var pre string
			switch fam {
			case "TONL":
				if !s.Mix.TestOnly || si.Exempt {
					continue
				}
				pre = "TONL"
			case "PKGO":
				if strings.Contains(ref.Tag, "s3.Reset") {
					if s3Allowed(s.Pkg) {
						continue
					}
				} else if Allowed(s.Pkg, s.Mix.Allow) {
					continue
				}
				pre = "PKGO"
			}
			switch ref.Kind {
			case UKFunc:
				exp[i] = append(exp[i], pre+"02")
			case UKMethod:
				exp[i] = append(exp[i], pre+"03")
			case UKType:
				k := si.File + "|" + ref.Type
				if !seen[k] {
					seen[k] = true
					exp[i] = append(exp[i], pre+"01")
				}
			}
		}
		sort.Strings(exp[i])
	}
	return exp
}

var UseAnalyzer = map[string]string{"TONL": "testonlychecker", "PKGO": "packageonlychecker"}

// CheckUseSpec renders, analyses and compares one state of the use universe.
func CheckUseSpec(run *common.Run, fam string, s *UseSpec) {
	rd := RenderUse(s)
	res, err := prog.RunOrder(rd.Prog, prog.Opts{}, s.ReverseParse)
	if err != nil {
		common.Fatalf("generated program does not compile (%s): %v\n%s", useSpecString(s), err, rd.Prog.Text())
	}
	trans := 0
	for _, b := range s.Blocks {
		trans += 1 + len(b.Stmts)
	}
	if res.Panic != "" || len(res.Errs) > 0 {
		run.Report(common.Cex{Sig: fmt.Sprintf("crash|%s|pkg=%s", fam, s.Pkg.Path),
			Summary: fmt.Sprintf("analysis crashed on %s: %s%s", useSpecString(s), firstLine(res.Panic), strings.Join(res.Errs, ";")),
			Detail:  map[string]any{"spec": useSpecString(s), "program": rd.Prog.Text()}})
		run.State(trans, "crash", "")
		return
	}
	exp := ExpectUse(fam, s, rd)
	obs := map[string][]string{}
	for _, d := range res.Diags {
		if d.Analyzer != UseAnalyzer[fam] {
			continue
		}
		if d.Pkg == PathC {
			continue // the helper package that declares the third-package aliases references d's types itself; not the subject here
		}
		k := fmt.Sprintf("%s:%d", d.File, d.Line)
		obs[k] = append(obs[k], d.Code)
	}
	var outcome strings.Builder
	nExp := 0
	for i := range rd.Sites {
		si := &rd.Sites[i]
		k := fmt.Sprintf("%s:%d", si.File, si.Line)
		got := obs[k]
		delete(obs, k)
		sort.Strings(got)
		want := exp[i]
		nExp += len(want)
		outcome.WriteString(strings.Join(got, ",") + ";")
		if strings.Join(got, ",") == strings.Join(want, ",") {
			continue
		}
		dir := "missing"
		if len(got) > len(want) {
			dir = "extra"
		} else if len(got) == len(want) {
			dir = "wrongcode"
		}
		encl, pos := "prelude", "-"
		if si.Block >= 0 {
			encl = s.Blocks[si.Block].Encl.String()
			pos = fmt.Sprintf("blk%d.stmt%d", si.Block, si.Ord)
		}
		// is this the first reference to the type in its file?
		first := "n/a"
		if si.Kind == UKType {
			first = "first"
			for j := 0; j < i; j++ {
				if rd.Sites[j].File == si.File && rd.Sites[j].Kind == UKType && rd.Sites[j].Type == si.Type {
					first = "later"
				}
			}
		}
		run.Report(common.Cex{
			Sig: fmt.Sprintf("use|%s|pkg=%s/%s|encl=%s|file=%d|site=%s|typeuse=%s|dir=%s|want=%s|got=%s|spell=%s|%s",
				fam, s.Pkg.Path, s.Pkg.Name, encl, si.FileNo, si.Tag, first, dir, strings.Join(want, "+"), strings.Join(got, "+"), SpellNames[s.Spell], s.Mix),
			Summary: fmt.Sprintf("%s: %q (%s, %s) in package %s [%s]: expected [%s], reported [%s]; history %s",
				dir, si.Tag, encl, pos, s.Pkg.Path, s.Mix, strings.Join(want, ","), strings.Join(got, ","), useSpecString(s)),
			Detail: map[string]any{"spec": useSpecString(s), "file": si.File, "line": si.Line, "program": rd.Prog.Text()}})
	}
	var rest []string
	for k, c := range obs {
		rest = append(rest, k+"="+strings.Join(c, ","))
	}
	sort.Strings(rest)
	for _, k := range rest {
		run.Report(common.Cex{Sig: fmt.Sprintf("nonsite|%s|pkg=%s|%s|%s", fam, s.Pkg.Path, k[strings.LastIndex(k, "=")+1:], s.Mix),
			Summary: fmt.Sprintf("diagnostic on a line that is not a candidate site: %s; %s", k, useSpecString(s)),
			Detail:  map[string]any{"spec": useSpecString(s), "program": rd.Prog.Text()}})
	}
	nt := ""
	if nExp > 0 {
		nt = useSpecString(s) + fam
	}
	run.State(trans, outcome.String(), nt)
	run.Count("sites_checked", len(rd.Sites))
	run.Count("diagnostics_expected", nExp)
}

func useSpecString(s *UseSpec) string {
	var l []string
	for _, b := range s.Blocks {
		bs := b.Encl.String() + "@" + FileNames[b.File]
		if b.Encl.hasBody() {
			var st []string
			for _, i := range b.Stmts {
				st = append(st, s.Sites[i].Tag)
			}
			bs += "{" + strings.Join(st, " | ") + "}"
		}
		l = append(l, bs)
	}
	return fmt.Sprintf("pkg=%s mix=[%s] spell=%s blocks=%s", s.Pkg.Path, s.Mix, SpellNames[s.Spell], strings.Join(l, " ; "))
}

func UseSpecString(s *UseSpec) string { return useSpecString(s) }

// UseObserve returns per-site verdicts keyed by site identity for metamorphic comparisons.
func UseObserve(fam string, s *UseSpec) (map[string]string, []string, string, string) {
	rd := RenderUse(s)
	res, err := prog.RunOrder(rd.Prog, prog.Opts{}, s.ReverseParse)
	if err != nil {
		common.Fatalf("generated program does not compile (%s): %v\n%s", useSpecString(s), err, rd.Prog.Text())
	}
	if res.Panic != "" || len(res.Errs) > 0 {
		return nil, nil, res.Panic + strings.Join(res.Errs, ";"), rd.Prog.Text()
	}
	obs := map[string][]string{}
	for _, d := range res.Diags {
		if d.Analyzer != UseAnalyzer[fam] {
			continue
		}
		k := fmt.Sprintf("%s:%d", d.File, d.Line)
		obs[k] = append(obs[k], d.Code)
	}
	by := map[string]string{}
	for i := range rd.Sites {
		si := &rd.Sites[i]
		k := fmt.Sprintf("%s:%d", si.File, si.Line)
		got := obs[k]
		delete(obs, k)
		sort.Strings(got)
		id := si.Block + 1
		if si.Block >= 0 && s.Blocks[si.Block].ID != 0 {
			id = s.Blocks[si.Block].ID
		}
		by[fmt.Sprintf("%d.%d/%s", id, si.Ord, si.Tag)] = strings.Join(got, ",")
	}
	var rest []string
	for k, c := range obs {
		rest = append(rest, k+"="+strings.Join(c, ","))
	}
	sort.Strings(rest)
	return by, rest, "", rd.Prog.Text()
}

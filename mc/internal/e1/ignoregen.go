package e1

import (
	"fmt"
	"go/ast"
	"go/parser"
	"go/token"
	"strings"

	"verif/mc/internal/prog"
)

// ---------------------------------------------------------------------------------------------
// Base programs for the @ignore checks (C07, C17): every one of the 16 codes, anchored at the
// start and in the middle of statements, at function level, nested, and at package level, in two
// files of the using package and in the declaring package.

// IgLine is one source line of a base program with what the reference needs to know about it.
type IgLine struct {
	Text string
	// Once lists once-per-file candidates on this line: "TONL01:Mock", "PKGO01:PT" …
	// (the line is a listed use of that type; the first unsuppressed one in the file is reported).
	Once []string
}

type IgFile struct {
	Pkg   string // import path
	Name  string
	Lines []IgLine
}

func (f *IgFile) Src() string {
	var b strings.Builder
	for _, l := range f.Lines {
		b.WriteString(l.Text)
		b.WriteByte('\n')
	}
	return b.String()
}

type IgBase struct {
	Name  string
	Files []*IgFile // dependency order of packages preserved
}

func (b *IgBase) Program() *prog.Program {
	p := &prog.Program{}
	for _, f := range b.Files {
		var pk *prog.Pkg
		for i := range p.Pkgs {
			if p.Pkgs[i].Path == f.Pkg {
				pk = &p.Pkgs[i]
			}
		}
		if pk == nil {
			p.Pkgs = append(p.Pkgs, prog.Pkg{Path: f.Pkg})
			pk = &p.Pkgs[len(p.Pkgs)-1]
		}
		pk.Files = append(pk.Files, prog.File{Name: f.Name, Src: f.Src()})
	}
	return p
}

func (b *IgBase) Clone() *IgBase {
	c := &IgBase{Name: b.Name}
	for _, f := range b.Files {
		nf := &IgFile{Pkg: f.Pkg, Name: f.Name, Lines: append([]IgLine(nil), f.Lines...)}
		c.Files = append(c.Files, nf)
	}
	return c
}

func lines(f *IgFile, text string, once ...string) {
	for i, l := range strings.Split(strings.TrimRight(text, "\n"), "\n") {
		il := IgLine{Text: l}
		if i == 0 {
			il.Once = once
		}
		f.Lines = append(f.Lines, il)
	}
}

// IgRealMarked returns the base with REAL @ignore markers in it: a category before a function, a file-level
// list, a trailing category, @ignore ALL before a function, and one exact code on an early one-line declaration.
// Its own unrestricted run is the reference for whatever is layered on top (exclude-checks in C08, a further
// appended marker in C17).
func IgRealMarked(base *IgBase) *IgBase {
	real := base.Clone()
	for _, f := range real.Files {
		var out []IgLine
		for i, l := range f.Lines {
			switch {
			case f.Pkg == PathU && f.Name == "a.go" && strings.HasPrefix(l.Text, "func f1("):
				out = append(out, IgLine{Text: "// @ignore IMM"})
			case f.Pkg == PathU && f.Name == "b.go" && i == 0:
				out = append(out, IgLine{Text: "// @ignore TONL, PKGO01"}, IgLine{Text: ""})
			case f.Pkg == PathD && l.Text == "\t_ = T{}":
				l.Text += " // @ignore CTOR"
			case f.Pkg == PathU && f.Name == "a.go" && strings.HasPrefix(l.Text, "func f2("):
				out = append(out, IgLine{Text: "// @ignore ALL"})
			case f.Pkg == PathU && f.Name == "a.go" && l.Text == "var G1 = d.T{}":
				l.Text += " // @ignore CTOR01"
			}
			out = append(out, l)
		}
		f.Lines = out
	}
	return real
}

// IgBases returns the base programs.
func IgBases() []*IgBase {
	d := &IgFile{Pkg: PathD, Name: "a.go"}
	lines(d, `package d

// T is immutable and constructor-restricted.
// @immutable
// @constructor NewT, NewT2
type T struct {
	F  int
	Xs []int
}

func NewT() *T { return &T{} }

// NewT2 fills the value in after creating it: only its being a listed constructor keeps these writes legal.
func NewT2() *T {
	t := new(T)
	t.F = 1
	t.F++
	t.Xs = []int{1}
	t.Xs[0] = 2
	return t
}

// Mock is test-only and restricted.
// @testonly
// @packageonly zz
type Mock struct{ A int }

// Helper is test-only and restricted.
// @testonly
// @packageonly zz
func Helper() int { return 0 }

// Wrap is test-only and takes an argument, so that other uses can be nested inside a call to it.
// @testonly
func Wrap(x ...any) any { return x }

type S struct{ K int }

// Reset is test-only.
// @testonly
func (s S) Reset() {}

// PT is restricted.
// @packageonly zz
type PT struct{ A int }

// PF is restricted.
// @packageonly zz
func PF() int { return 0 }

// PT2 is restricted; the using package mentions it exactly once per file.
// @packageonly zz
type PT2 struct{ A int }

// PM is restricted.
// @packageonly zz
func (s S) PM() {}

// MkS is test-only; a method call can be chained onto its result.
// @testonly
func MkS() S { return S{} }

// PF2 is restricted and takes arguments, so that other uses can be nested inside a call to it.
// @packageonly zz
func PF2(x ...any) int { return 0 }

// PM2 is restricted and takes arguments.
// @packageonly zz
func (s S) PM2(x ...any) {}

type Iface interface{ Do() }

type Other struct{ A int }
`)
	lines(d, `// DI claims an interface it does not implement.
// @implements Iface
type DI struct {
	A int
}

// DI2 names a missing interface.
// @implements Missing
type DI2 int

func own(x *T, s S, y int) {
	x.F = 1
	y, x.F = 1, 2
	x.Xs[0] = 1
	_ = T{}
	Helper()
	s.Reset()
	if y > 0 {
		x.F++
	}
}
`)
	d.Lines = append(d.Lines, IgLine{Text: "var DG1 = Mock{}", Once: []string{"TONL01:Mock"}})
	d.Lines = append(d.Lines, IgLine{Text: ""})
	d.Lines = append(d.Lines, IgLine{Text: "var DG2 Mock", Once: []string{"TONL01:Mock"}})
	d.Lines = append(d.Lines, IgLine{Text: ""})
	d.Lines = append(d.Lines, IgLine{Text: "var DG3 = T{}"}) // the last declaration of the file is a one-liner with a diagnostic

	ua := &IgFile{Pkg: PathU, Name: "a.go"}
	lines(ua, `package u

import "ex.com/m/d"

// IT does not implement d.Iface.
// @implements d.Iface
type IT struct{}

// IT2 names a package that is not imported.
// @implements zz.Nope
type IT2 struct {
	A int
}

// IT3 names a missing interface.
// @implements d.Missing
type IT3 int

// IT4 carries two failing contracts: two diagnostics of different codes at one position.
// @implements zz.Nope
// @implements d.Iface
type IT4 struct{}

// IT5 likewise, with the other pair of codes.
// @implements d.Missing
// @implements d.Iface
type IT5 struct{}

var G1 = d.T{}

var G2 d.T
`)
	lines(ua, `var G3 d.Mock`, "TONL01:Mock", "PKGO01:Mock")
	lines(ua, `
var G4 = d.Other{}

func f1(x d.T, p *d.T, s d.S, y int) {
	x.F = 1
	y, x.F = 1, 2
	x.F += 1
	x.F++
	x.Xs[0] = 1
	_ = d.T{}
	z := d.T{}
	_ = z
	*p = d.T{}
	_ = new(d.T)
	var v d.T
	_ = v
	d.Helper()
	_ = d.Helper()
	s.Reset()
	d.PF()
	_ = d.PF()
	s.PM()`)
	lines(ua, `	_ = d.PT{}`, "PKGO01:PT")
	lines(ua, `	_ = d.Mock{}`, "TONL01:Mock", "PKGO01:Mock")
	lines(ua, `	_ = d.PT2{}`, "PKGO01:PT2")
	lines(ua, `	_ = d.Wrap(d.Helper())
	d.Wrap(
		d.Helper(),
		new(d.T),
	)
	d.Wrap(func() int {
		x.F = 14
		return d.Helper()
	})`)
	lines(ua, `	_ = d.Wrap(d.Mock{})`, "TONL01:Mock", "PKGO01:Mock")
	// diagnostics of DIFFERENT codes of one analyzer nested inside one another on one line
	lines(ua, `	d.MkS().Reset()
	s.PM2(d.PF())
	x.Xs[func() int { x.F = 15; return 0 }()] = 1
	x.F = func() int { x.F++; return 1 }()
	_ = d.T{F: new(d.T).F}
	_ = d.T{F: func() int { var q d.T; return q.F }()}
	d.MkS().
		Reset()
	s.
		PM()
	x.F = 16 /* reset */
	_ = new(d.T) /* scratch */ /* twice */
	ws2 := []d.T{
		{
			F: 1,
		},
		{
			F: 2},
	}
	_ = ws2`)
	lines(ua, `	if y > 0 {
		x.F = 2
		_ = d.T{}
		d.Helper()
	}
	for i := 0; i < 1; i++ {
		x.F = 3
	}
	func() {
		x.F = 4
		_ = new(d.T)
	}()
	use(
		d.T{},
		y,
	)
	ws := []d.T{
		{},
		{F: 1},
	}
	_ = ws
	switch y {
	case 1:
		x.F = 8
		d.Helper()
	default:
		_ = new(d.T)
	}
	if y > 1 {
		x.F = 9
	} else {
		x.F = 10
	}
	defer func() {
		x.F = 11
	}()
	var (
		lv d.T
		lp *d.T
	)
	_, _ = lv, lp
	select {
	default:
		x.F = 12
	}
	y = 5
}

func use(...any) {}

var (
	GA = d.T{}
	GB d.T
)

func f2(x d.T) {
	x.F = 6`)
	lines(ua, `	var w d.PT`, "PKGO01:PT")
	lines(ua, `	_ = w
}
`)
	ub := &IgFile{Pkg: PathU, Name: "b.go"}
	lines(ub, `package u

import "ex.com/m/d"

// g0 and holder spread their parameter / field lists over several lines.
func g0(`)
	lines(ub, `	m d.Mock,`, "TONL01:Mock", "PKGO01:Mock")
	lines(ub, `	x d.T,
) {
	x.F = 20
	d.Helper()
}

type holder struct {
	k int`)
	lines(ub, `	pt d.PT`, "PKGO01:PT")
	lines(ub, `	x  d.T
}

func g1(x d.T, s d.S) {
	x.F = 7
	_ = d.T{}
	d.Helper()
	s.Reset()`)
	lines(ub, `	_ = d.Wrap(d.Mock{})`, "TONL01:Mock", "PKGO01:Mock") // the file's first use of Mock sits inside a reported call
	lines(ub, `	_ = d.PF2(d.PT{})`, "PKGO01:PT")
	lines(ub, `	_ = d.PT2{}`, "PKGO01:PT2")
	lines(ub, `	_ = d.Mock{}`, "TONL01:Mock", "PKGO01:Mock")
	lines(ub, `	var m d.Mock`, "TONL01:Mock", "PKGO01:Mock")
	lines(ub, `	_ = m
}

var GZ = new(d.T)
`)
	// c.go mirrors b.go line for line (other names): every diagnostic of b.go has a namesake with the
	// same code on the same line NUMBER of another file of the package
	uc := &IgFile{Pkg: PathU, Name: "c.go"}
	for _, l := range ub.Lines {
		t := strings.NewReplacer("g1(", "k1(", "GZ", "KZ", "g0(", "k0(", "type holder ", "type holder2 ").Replace(l.Text)
		uc.Lines = append(uc.Lines, IgLine{Text: t, Once: l.Once})
	}
	// package v contains no comment at all (its diagnostics come from d's annotations only)
	va := &IgFile{Pkg: "ex.com/m/v", Name: "a.go"}
	lines(va, `package v

import "ex.com/m/d"

func bare(x *d.T, s d.S) {
	x.F = 31
	x.Xs[0] = 32
	_ = d.T{}
	d.Helper()
	s.PM()
}
`)
	// a generated file (standard header): diagnostics in it are reported and suppressible like anywhere else
	ug := &IgFile{Pkg: PathU, Name: "zz_generated.go"}
	lines(ug, `// Code generated by protoc-gen-go. DO NOT EDIT.

package u

import "ex.com/m/d"

func gen1(x *d.T, s d.S) {
	x.F = 41
	_ = d.T{}
	s.Reset()
	d.PF()
}

var GG = d.T{}
`)
	return []*IgBase{{Name: "all16", Files: []*IgFile{d, ua, ub, uc, va, ug}}}
}

// ---------------------------------------------------------------------------------------------
// Reference scope computation (from go/parser on the variant source; independent of gogreement)

// ScopeKind of an inserted comment.
type IgPlacement string

const (
	PlFile      IgPlacement = "file-level"   // own line before the package clause
	PlFileDetached IgPlacement = "file-level-detached" // before the package clause, separated from it by a blank line and a header comment
	PlDecl      IgPlacement = "before-decl"  // own line before the enclosing top-level declaration
	PlStmt      IgPlacement = "before-stmt"  // own line before the statement (or package-level declaration) carrying the diagnostic
	PlOuterStmt IgPlacement = "before-outer" // own line before the outermost nested statement that contains the diagnostic (if any)
	PlTrail     IgPlacement = "trailing"     // at the end of the diagnostic's line
	PlPrevTrail IgPlacement = "trailing-prev-line"
	PlNextTrail IgPlacement = "trailing-next-line"
	PlSibling   IgPlacement = "before-next-sibling"
	PlOtherFile IgPlacement = "other-file-level"
	PlField     IgPlacement = "before-field" // own line before the parameter / result / struct field that carries the diagnostic, inside a multi-line list
	// Placements with NO following node (not in IgPlacements; C07 judges them with a weaker oracle, see there):
	PlDangling IgPlacement = "dangling-end-of-body" // own line just before the closing brace of the function body containing the diagnostic
	PlEOF      IgPlacement = "dangling-end-of-file" // own line after the last declaration of the diagnostic's file
)

var IgPlacements = []IgPlacement{PlFile, PlFileDetached, PlDecl, PlStmt, PlOuterStmt, PlTrail, PlPrevTrail, PlNextTrail, PlSibling, PlOtherFile, PlField}

// FileInfo is the parsed structure of one base file used to place comments and compute scopes.
type FileInfo struct {
	fset  *token.FileSet
	file  *ast.File
	nline int
}

func ParseInfo(src string) (*FileInfo, error) {
	fset := token.NewFileSet()
	f, err := parser.ParseFile(fset, "x.go", src, parser.ParseComments)
	if err != nil {
		return nil, err
	}
	return &FileInfo{fset: fset, file: f, nline: strings.Count(src, "\n")}, nil
}

func (fi *FileInfo) line(p token.Pos) int { return fi.fset.Position(p).Line }

// DeclSpan returns the line span of the top-level declaration containing line (0,0 if none).
func (fi *FileInfo) DeclSpan(line int) (int, int) {
	for _, d := range fi.file.Decls {
		s, e := fi.line(d.Pos()), fi.line(d.End())
		if line >= s && line <= e {
			return s, e
		}
	}
	return 0, 0
}

// stmtsContaining returns, outermost first, the statements (not block bodies themselves) whose
// line span contains line.
func (fi *FileInfo) stmtsContaining(line int) []ast.Stmt {
	var out []ast.Stmt
	ast.Inspect(fi.file, func(n ast.Node) bool {
		if n == nil {
			return false
		}
		if st, ok := n.(ast.Stmt); ok {
			if _, isBlock := st.(*ast.BlockStmt); !isBlock {
				s, e := fi.line(st.Pos()), fi.line(st.End())
				if line >= s && line <= e {
					out = append(out, st)
				}
			}
		}
		return true
	})
	return out
}

// StmtSpan: span of the innermost statement that STARTS on its own line and contains line;
// falls back to the declaration span at package level.
func (fi *FileInfo) StmtSpan(line int) (int, int) {
	sts := fi.stmtsContaining(line)
	for i := len(sts) - 1; i >= 0; i-- {
		s, e := fi.line(sts[i].Pos()), fi.line(sts[i].End())
		if fi.startsLine(sts[i]) {
			return s, e
		}
	}
	return fi.DeclSpan(line)
}

// FieldSpan: line span of the parameter, result or struct field that starts on the given line inside a
// field list spread over several lines (0,0 if the line does not start such a field).
func (fi *FileInfo) FieldSpan(line int) (int, int) {
	bs, be := 0, 0
	ast.Inspect(fi.file, func(n ast.Node) bool {
		fl, ok := n.(*ast.FieldList)
		if !ok || fl == nil || !fl.Opening.IsValid() || fi.line(fl.Opening) == fi.line(fl.Closing) {
			return true
		}
		for _, f := range fl.List {
			if s := fi.line(f.Pos()); s == line && s != fi.line(fl.Opening) {
				bs, be = s, fi.line(f.End())
			}
		}
		return true
	})
	return bs, be
}

// OuterStmtSpan: span of the outermost statement inside the function body containing line, if it
// is different from StmtSpan (i.e. the diagnostic is nested).
func (fi *FileInfo) OuterStmtSpan(line int) (int, int, bool) {
	sts := fi.stmtsContaining(line)
	if len(sts) == 0 {
		return 0, 0, false
	}
	s, e := fi.line(sts[0].Pos()), fi.line(sts[0].End())
	is, ie := fi.StmtSpan(line)
	if s == is && e == ie {
		return 0, 0, false
	}
	if !fi.startsLine(sts[0]) {
		return 0, 0, false
	}
	return s, e, true
}

// NextSiblingStart: first line of the statement (or declaration) that follows the statement
// span containing line within the same block / file; 0 if none.
func (fi *FileInfo) NextSiblingStart(line int) int {
	_, e := fi.StmtSpan(line)
	best := 0
	consider := func(n ast.Node) {
		s := fi.line(n.Pos())
		if s > e && (best == 0 || s < best) {
			best = s
		}
	}
	sts := fi.stmtsContaining(line)
	if len(sts) == 0 {
		for _, d := range fi.file.Decls {
			consider(d)
		}
		return best
	}
	// siblings: statements of the block that directly contains the innermost own-line statement
	var target ast.Stmt
	for i := len(sts) - 1; i >= 0; i-- {
		if fi.startsLine(sts[i]) {
			target = sts[i]
			break
		}
	}
	ast.Inspect(fi.file, func(n ast.Node) bool {
		var list []ast.Stmt
		switch b := n.(type) {
		case *ast.BlockStmt:
			list = b.List
		case *ast.CaseClause:
			list = b.Body
		case *ast.CommClause:
			list = b.Body
		}
		for i, st := range list {
			if st == target && i+1 < len(list) {
				best = fi.line(list[i+1].Pos())
			}
		}
		return true
	})
	return best
}

func (fi *FileInfo) startsLine(n ast.Node) bool {
	// a statement starts its line when no other statement on that line starts before it
	p := fi.fset.Position(n.Pos())
	first := true
	ast.Inspect(fi.file, func(m ast.Node) bool {
		if m == nil || !first {
			return false
		}
		if st, ok := m.(ast.Stmt); ok {
			q := fi.fset.Position(st.Pos())
			if _, isBlock := st.(*ast.BlockStmt); !isBlock && q.Line == p.Line && q.Column < p.Column {
				first = false
			}
		}
		return true
	})
	return first
}

func (fi *FileInfo) PackageLine() int { return fi.line(fi.file.Package) }

// IgVariant is a base program with one comment inserted.
type IgVariant struct {
	Base      *IgBase
	File      int // file index the comment went into
	Inserted  int // 1-based line number of an inserted own-line comment in the variant (0 for trailing)
	TrailLine int // base line number that received a trailing comment (0 otherwise)
	// reference scope in VARIANT line numbers of file File: [From,To]; From==0 means nothing in scope
	From, To int
	Desc     string
	insertedN int // number of inserted lines (default 1)
	// DeclFrom..DeclTo (variant lines): the declaration a dangling comment sits in (PlDangling only)
	DeclFrom, DeclTo int
}

// MakeVariant inserts comment per placement relative to the diagnostic at (file fi, base line).
// ok=false when the placement does not exist for that line.
func MakeVariant(b *IgBase, fidx, line int, pl IgPlacement, comment string) (*IgVariant, *IgBase, bool) {
	f := b.Files[fidx]
	info, err := ParseInfo(f.Src())
	if err != nil {
		panic(err)
	}
	nb := b.Clone()
	v := &IgVariant{Base: b, File: fidx}
	insertBefore := func(file, at int, indent string) {
		nf := nb.Files[file]
		nl := append([]IgLine(nil), nf.Lines[:at-1]...)
		nl = append(nl, IgLine{Text: indent + comment})
		nl = append(nl, nf.Lines[at-1:]...)
		nf.Lines = nl
		v.Inserted = at
	}
	indentOf := func(l int) string {
		t := f.Lines[l-1].Text
		return t[:len(t)-len(strings.TrimLeft(t, "\t "))]
	}
	trailing := func(l int) bool {
		if l < 1 || l > len(f.Lines) {
			return false
		}
		t := strings.TrimSpace(f.Lines[l-1].Text)
		if t == "" || strings.HasPrefix(t, "//") || strings.Contains(t, "//") {
			return false
		}
		nb.Files[fidx].Lines[l-1].Text += " " + comment
		v.TrailLine = l
		return true
	}
	switch pl {
	case PlFile:
		insertBefore(fidx, info.PackageLine(), "")
		v.From, v.To = 1, len(nb.Files[fidx].Lines)+1
	case PlFileDetached:
		// comment, blank line, an ordinary header comment, blank line, package clause
		at := info.PackageLine()
		nf := nb.Files[fidx]
		nl := append([]IgLine(nil), nf.Lines[:at-1]...)
		nl = append(nl, IgLine{Text: comment}, IgLine{Text: ""}, IgLine{Text: "// Package header comment, not a doc comment."}, IgLine{Text: ""})
		nl = append(nl, nf.Lines[at-1:]...)
		nf.Lines = nl
		v.Inserted, v.insertedN = at, 4
		v.From, v.To = 1, len(nf.Lines)+1
	case PlOtherFile:
		other := -1
		for i, of := range b.Files {
			if i != fidx && of.Pkg == f.Pkg {
				other = i
			}
		}
		if other < 0 {
			return nil, nil, false
		}
		oi, _ := ParseInfo(b.Files[other].Src())
		v.File = other
		insertBefore(other, oi.PackageLine(), "")
		v.From, v.To = 0, 0 // nothing of the diagnostic's file is in scope; everything of the other file is
		v.Desc = "other"
	case PlDecl:
		s, e := info.DeclSpan(line)
		if s == 0 {
			return nil, nil, false
		}
		// place above the doc comment if any, so that it "stands alone before the declaration"
		at := s
		for at-2 >= 0 && strings.HasPrefix(strings.TrimSpace(f.Lines[at-2].Text), "//") {
			at--
		}
		insertBefore(fidx, at, "")
		v.From, v.To = at, e+1
	case PlStmt:
		s, e := info.StmtSpan(line)
		if s == 0 {
			return nil, nil, false
		}
		at := s
		if ds, _ := info.DeclSpan(line); ds == s { // package-level declaration: go above its doc comment
			for at-2 >= 0 && strings.HasPrefix(strings.TrimSpace(f.Lines[at-2].Text), "//") {
				at--
			}
		}
		insertBefore(fidx, at, indentOf(s))
		v.From, v.To = at, e+1
	case PlOuterStmt:
		s, e, ok := info.OuterStmtSpan(line)
		if !ok {
			return nil, nil, false
		}
		insertBefore(fidx, s, indentOf(s))
		v.From, v.To = s, e+1
	case PlTrail:
		if !trailing(line) {
			return nil, nil, false
		}
		v.From, v.To = line, line
	case PlPrevTrail:
		if !trailing(line - 1) {
			return nil, nil, false
		}
		v.From, v.To = line-1, line-1
	case PlNextTrail:
		if !trailing(line + 1) {
			return nil, nil, false
		}
		v.From, v.To = line+1, line+1
	case PlDangling:
		s, e := info.DeclSpan(line)
		if s == 0 || e <= s || strings.TrimSpace(f.Lines[e-1].Text) != "}" || !strings.HasPrefix(f.Lines[s-1].Text, "func ") {
			return nil, nil, false
		}
		insertBefore(fidx, e, "\t")
		v.From, v.To = 0, 0
		v.DeclFrom, v.DeclTo = s, e+1
	case PlEOF:
		insertBefore(fidx, len(f.Lines)+1, "")
		v.From, v.To = 0, 0
	case PlField:
		s, e := info.FieldSpan(line)
		if s == 0 {
			return nil, nil, false
		}
		insertBefore(fidx, s, indentOf(s))
		v.From, v.To = s, e+1
	case PlSibling:
		ns := info.NextSiblingStart(line)
		if ns == 0 {
			return nil, nil, false
		}
		s2, e2 := info.StmtSpan(ns)
		if s2 != ns {
			return nil, nil, false
		}
		at := ns
		if ds, _ := info.DeclSpan(ns); ds == ns {
			for at-2 >= 0 && strings.HasPrefix(strings.TrimSpace(f.Lines[at-2].Text), "//") {
				at--
			}
		}
		insertBefore(fidx, at, indentOf(ns))
		v.From, v.To = at, e2+1
	}
	if v.Desc == "" {
		v.Desc = fmt.Sprintf("%s@%s:%d", pl, f.Name, line)
	}
	return v, nb, true
}

// MapLine converts a base line number of file fidx into the variant's numbering.
func (v *IgVariant) MapLine(fidx, line int) int {
	if fidx == v.File && v.Inserted != 0 && line >= v.Inserted {
		if v.insertedN > 0 {
			return line + v.insertedN
		}
		return line + 1
	}
	return line
}

// InScope reports whether a variant line of file fidx lies in the comment's reference scope.
func (v *IgVariant) InScope(fidx, vline int) bool {
	if v.Desc == "other" {
		return fidx == v.File
	}
	return fidx == v.File && v.From != 0 && vline >= v.From && vline <= v.To
}

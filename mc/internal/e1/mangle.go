package e1

import (
	"go/format"
	"regexp"
	"strings"

	"verif/mc/internal/common"
)

// Mangle applies a line-preserving, semantics-preserving text transformation.
//
//	1: whitespace perturbation whose gofmt image equals gofmt of the original
//	   (indentation with spaces, extra blanks around operators and after commas)
//	2: consistent renaming of local variables, parameters and receivers
func Mangle(kind int, src string) string {
	switch kind {
	case 1:
		lines := strings.Split(src, "\n")
		for i, l := range lines {
			t := strings.TrimLeft(l, "\t")
			ind := len(l) - len(t)
			if strings.HasPrefix(t, "//") || strings.Contains(l, "\"") {
				lines[i] = strings.Repeat("    ", ind) + t
				continue
			}
			t = strings.ReplaceAll(t, " = ", "  =   ")
			t = strings.ReplaceAll(t, ", ", " ,  ")
			t = strings.ReplaceAll(t, " := ", "   :=  ")
			lines[i] = strings.Repeat("   ", ind) + t + "  "
		}
		out := strings.Join(lines, "\n")
		a, err1 := format.Source([]byte(src))
		b, err2 := format.Source([]byte(out))
		if err1 != nil || err2 != nil || string(a) != string(b) {
			common.Fatalf("whitespace mangle is not a gofmt pre-image (%v %v)\n%s", err1, err2, out)
		}
		// gofmt also rewrites doc comments: "//@immutable" becomes "// @immutable". Every column-0 annotation
		// comment is written without the blank wherever that is a gofmt pre-image (it is for doc comments of
		// top-level declarations and of the package clause; it is not for detached or nested comments).
		for i, l := range lines {
			if !strings.HasPrefix(l, "// @") {
				continue
			}
			lines[i] = "//@" + l[4:]
			c, err := format.Source([]byte(strings.Join(lines, "\n")))
			if err != nil || string(c) != string(a) {
				lines[i] = l
			}
		}
		return strings.Join(lines, "\n")
	case 2:
		lines := strings.Split(src, "\n")
		for i, l := range lines {
			if strings.HasPrefix(strings.TrimSpace(l), "//") || strings.HasPrefix(l, "import ") {
				continue
			}
			lines[i] = renameRe.ReplaceAllString(l, "${1}_rn")
		}
		return strings.Join(lines, "\n")
	}
	return src
}

var renameRe = regexp.MustCompile(`\b(x|p|r|o|op|arr|tw|tp|y|rn|s|sp|m|q|i)\b`)

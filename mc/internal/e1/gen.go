// Package e1 is the history explorer for the AST-walk checkers: it enumerates sequences of
// top-level declarations ("blocks"), renders them to Go source in one or two packages, runs the
// real analyzers and compares every candidate line ("site") with a stateless reference.
package e1

import (
	"fmt"
	"strings"

	"verif/mc/internal/prog"
)

const (
	PathD = "ex.com/m/d"
	PathU = "ex.com/m/u"
	PathC = "ex.com/m/c"
)

// Mix is the combination of annotations on the subject types of package d.
type Mix struct {
	Imm   bool // @immutable on T and N
	Ctor  int  // 0 none; 1 "@constructor NewT" (and NewN on N); 2 "@constructor NewT, Alt"; 3 two lines "NewT" + "Alt"; 4 "NewT,<TAB>Alt"; 5 "<TAB>NewT ,Alt," (blanks other than one space around the commas, trailing comma); 6 "NewT, Alt, Créer" and 7 "Créer, NewT, Alt" (a name with a non-ASCII letter, last / first; d declares func Créer)
	Mut   bool // @mutable on T.M and T.Ms
	Extra int  // 0 none; 1 prose lines around and annotations in reverse order; 2 type inside a grouped type(...) declaration
	PreludeLast bool // type declarations after the blocks of file a.go
	NoOwn       bool // the importing package declares NO annotated type of its own (by default it has its own T)
}

func (m Mix) String() string {
	return fmt.Sprintf("imm=%v,ctor=%d,mut=%v,extra=%d,last=%v,noown=%v", m.Imm, m.Ctor, m.Mut, m.Extra, m.PreludeLast, m.NoOwn)
}

func (m Mix) CtorNames() []string {
	switch m.Ctor {
	case 1:
		return []string{"NewT"}
	case 2, 3, 4, 5:
		return []string{"NewT", "Alt"}
	case 6, 7:
		return []string{"NewT", "Alt", "Créer"}
	}
	return nil
}

// Spell selects how the subject types are written at use sites (C13).
type Spell int

const (
	SpDirect      Spell = iota // T / d.T
	SpLocalAlias               // type AT = d.T declared in the using package
	SpThirdAlias               // c.AT where package c declares type AT = d.T
	SpRenamedImp               // import dd "ex.com/m/d"; dd.T   (u only)
	SpParen                    // (T) / (d.T) where a parenthesised type is admissible
	SpPtrAlias                 // type APT = *d.T used where a pointer is written
	SpDotImport                // import . "ex.com/m/d"; T   (importing packages of the use universe only)
	SpBodyAlias                // type BMock = d.Mock declared INSIDE each function body that uses it (use universe only)
	SpDeclAlias                // DMock / d.DMock: an alias the DECLARING package itself exports for its annotated type (use universe only)
	SpDeclAliasDot             // the same alias named bare under a dot import of d (importing packages of the use universe only)
	SpMixedAlias               // local aliases as under SpLocalAlias, but every second statement names the type directly: two spellings of one type in one file (use universe only)
)

var SpellNames = []string{"direct", "local-alias", "third-pkg-alias", "renamed-import", "paren", "ptr-alias", "dot-import", "body-alias", "decl-alias", "decl-alias-dot", "mixed-alias"}

// EnclKind is the kind of top-level declaration that encloses a group of sites.
type EnclKind int

const (
	EPlain EnclKind = iota
	ECtorNewT
	ECtorAlt
	ECtorNewN
	EInit
	EMethTPtr
	EMethTVal
	EMethNPtr
	EMethQ
	EPkgVarClosure
	EPkgVarDirect
	EPkgVarDirectRev // the same package-level declarations in reverse order (zero-value forms first)
	EFillerType
	EFillerVar
	nEncl
)

var EnclNames = []string{"plain-func", "func-NewT", "func-Alt", "func-NewN", "init", "method-ptrT", "method-valT",
	"method-ptrN", "method-Q", "pkgvar-closure", "pkgvar-direct", "pkgvar-direct-reversed", "filler-type", "filler-var"}

func (e EnclKind) String() string { return EnclNames[e] }

// fixedName returns the function name of enclosers that can occur once per package.
func (e EnclKind) fixedName() string {
	switch e {
	case ECtorNewT:
		return "NewT"
	case ECtorAlt:
		return "Alt"
	case ECtorNewN:
		return "NewN"
	}
	return ""
}

func (e EnclKind) onlyInD() bool { return e == EMethTPtr || e == EMethTVal || e == EMethNPtr }

// Wrapper is the statement nesting around a group of sites.
type Wrapper int

const (
	WNone Wrapper = iota
	WIf
	WFor
	WSwitch
	WSelect
	WClosure
	WDefer
	WGo
	WNested
	WBlock
	WAssignClosure   // fn := func() { S }
	WAssignCallRHS   // y = func() int { S; return 0 }()
	WVarClosure      // var fn = func() { S }
	WArgClosure      // use(func() { S })
	WLitClosure      // _ = []func(){func() { S }}
	WCompoundRHS     // y += func() int { S; return 0 }()
	WIfCondClosure   // if func() bool { S; return true }() { }
	WRangeClosure    // for range func() []int { S; return nil }() { }
	WElse            // if y > 0 { } else { S }
	WLabeled         // L: for { S; break L }
	WTypeSwitch      // switch any(y).(type) { case int: S }
	WReturnedClosure // _ = func() func() { return func() { S } }
	nWrap
)

var WrapNames = []string{"none", "if", "for", "switch", "select", "closure", "defer", "go", "nested", "block",
	"assigned-closure", "closure-call-in-assign-rhs", "var-closure", "closure-argument", "closure-in-literal", "closure-call-in-compound-rhs",
	"closure-in-if-condition", "closure-in-range-expr", "else", "labeled", "type-switch", "returned-closure"}

func (w Wrapper) String() string { return WrapNames[w] }

// Subject of a site: what decides whether its codes are expected.
type Subj int

const (
	SubjT      Subj = iota // non-mutable field of T / instantiation of T
	SubjTMut               // @mutable field of T
	SubjTwin               // unannotated twin P: never reported
	SubjSilent             // reads, non-field writes, silent declaration forms: never reported
	SubjRecvT              // *r = …  : reported only when r is the pointer receiver of a method of T
	SubjRecvN              // *rn = … / *rn++ : only when rn is the pointer receiver of a method of N
	SubjT2                 // non-mutable field of T2 / instantiation of T2: never exempt in any generated encloser
	SubjT2Mut              // field F of T2, @mutable exactly when T's M is
	SubjAlways             // annotated in every mix and never exempt in any generated encloser (e.P)
	SubjOwnT               // u's OWN type T (@immutable, @constructor NewT, Alt) that merely shares the name of d.T
)

// Site is one candidate statement, alone on its line.
type Site struct {
	Tag   string
	Stmt  string // placeholders: {T} {P} {O} {N} {GetP} $v (fresh variable)
	Subj  Subj
	Codes []string // codes reported on the line when the subject applies
	Core  bool     // also placed under every wrapper
	NeedPtrR bool  // needs r to be a pointer (omitted in value-receiver methods of T)
	NotInMethT bool // omitted in methods of T (would shadow the receiver; not judged)
	NoImport   bool // the only sites rendered in the import-free file n.go (they use hp() and LT only)
	OnlyInU    bool // rendered only in the importing package (refers to u's own same-named type T)
	PkgLevel string // for EPkgVarDirect: the declaration form (CTOR family only)
	Lines []string // multi-line form (instead of Stmt): the site is line Lines[At]
	At    int
	PkgLines []string // multi-line package-level form; the site is PkgLines[PkgAt]
	PkgAt    int
}

// Block is one element of a history.
type Block struct {
	Encl EnclKind
	File int // 0 = a.go (with the type declarations in package d), 1 = b.go, 2 = c_test.go
	ID   int // stable identity across layout transformations (0 = use the position in the history)
	Ignore string // optional stand-alone comment placed directly before the declaration (travels with it)
}

func (b Block) String() string { return fmt.Sprintf("%s@%d", b.Encl, b.File) }

var FileNames = []string{"a.go", "b_test.pb_Test.go", "c_test.go", "n.go"} // b_Test.go: a REGULAR file (the test suffix is case-sensitive); // n.go: a file of the importing package that does not import d itself

// SiteInst is a rendered site.
type SiteInst struct {
	Site    *Site
	BlockID int // Block.ID if set, else index+1
	Block   int // index into the history
	Wrap    Wrapper
	File    string // pkgpath/base
	Line    int
}

// Rendered is a program plus the map from lines to sites.
type Rendered struct {
	Prog  *prog.Program
	Sites []SiteInst
	byLine map[string]int // "file:line" -> index in Sites
}

func (r *Rendered) SiteAt(file string, line int) *SiteInst {
	if i, ok := r.byLine[fmt.Sprintf("%s:%d", file, line)]; ok {
		return &r.Sites[i]
	}
	return nil
}

// Spec is the abstract program: where the history lives and what surrounds it.
type Spec struct {
	InU    bool // blocks live in package u (importing d) rather than in d
	Mix    Mix
	Spell  Spell
	ReverseParse bool // environment choice of the loader: later files of a package get the LOWER positions
	Blocks []Block
	Sites  []Site  // site family (IMM or CTOR)
	Single *Single // when set: render only this one site under this wrapper in every block
	BlankLines bool // layout perturbation: blank line + plain comment before every declaration and statement
	Mangle     int  // text-level layout transformation applied to every file: see Mangle
	FileIgnore string // optional comment placed before the package clause of every file
}

type Single struct {
	Site int
	Wrap Wrapper
}

type lineWriter struct {
	b    strings.Builder
	line int
}

func (w *lineWriter) add(s string) int {
	w.line++
	w.b.WriteString(s)
	w.b.WriteByte('\n')
	return w.line
}

func (w *lineWriter) addf(format string, a ...any) int { return w.add(fmt.Sprintf(format, a...)) }

type renderer struct {
	spec  *Spec
	q     string // qualifier for d's names: "" or "d." / "dd."
	tName, pName, oName, nName, ptName string // spelled type names
	tLit string // spelling of T where it heads a composite literal (no parentheses allowed there)
	ctr   int
	out   *Rendered
}

func annLinesT(m Mix) []string {
	var l []string
	imm := "// @immutable"
	var ctor []string
	switch m.Ctor {
	case 1:
		ctor = []string{"// @constructor NewT"}
	case 2:
		ctor = []string{"// @constructor NewT, Alt"}
	case 3:
		ctor = []string{"// @constructor NewT", "// @constructor Alt"}
	case 4:
		ctor = []string{"// @constructor NewT,\tAlt"}
	case 5:
		ctor = []string{"// @constructor\tNewT ,Alt,"}
	case 6:
		ctor = []string{"// @constructor NewT, Alt, Créer"}
	case 7:
		ctor = []string{"// @constructor Créer, NewT, Alt"}
	}
	if m.Extra == 1 {
		l = append(l, "// T is the subject type; the word @immutable in the middle of a line means nothing.")
		// the trailing text of an annotation line may mention OTHER keywords
		for _, c := range ctor {
			l = append(l, c+" (the type also @implements nothing; see @immutable, @testonly and @packageonly)")
		}
		l = append(l, "// some prose between the annotations")
		if m.Imm {
			l = append(l, imm+" because it is shared - fields are only set by the @constructor functions, which @implements nothing")
		}
		return l
	}
	l = append(l, "// T is the subject type.")
	if m.Imm {
		l = append(l, imm)
	}
	l = append(l, ctor...)
	return l
}

func annLinesN(m Mix) []string {
	l := []string{"// N is a named numeric type."}
	if m.Imm {
		l = append(l, "// @immutable")
	}
	if m.Ctor > 0 {
		l = append(l, "// @constructor NewN")
	}
	return l
}

func preludeD(w *lineWriter, m Mix) {
	mut := func() {
		if m.Mut {
			w.add("\t// @mutable")
		}
	}
	body := func(ind string) {
		w.add(ind + "F  int")
		mut()
		w.add(ind + "M  int // counts lookups (an ordinary trailing comment next to the doc comment above)")
		mut()
		w.add(ind + "Ms []int")
		mut()
		w.add(ind + "Ma, Mb int") // one @mutable doc comment over two names
		w.add(ind + "Xs []int")
		w.add(ind + "Mp map[string]int")
		w.add(ind + "Next *T")
		w.add(ind + "Kids []T")
		w.add(ind + "Ls Labels // a field whose type is a DEFINED slice type")
		w.add(ind + "Pm Props")
		w.add(ind + "Ar Triple")
	}
	if m.Extra == 2 {
		w.add("type (")
		for _, s := range annLinesT(m) {
			w.add("\t" + s)
		}
		w.add("\tT struct {")
		body("\t\t")
		w.add("\t}")
		w.add("")
		for _, s := range annLinesN(m) {
			w.add("\t" + s)
		}
		w.add("\tN int")
		w.add(")")
	} else {
		for _, s := range annLinesT(m) {
			w.add(s)
		}
		w.add("type T struct {")
		body("\t")
		w.add("}")
		w.add("")
		for _, s := range annLinesN(m) {
			w.add(s)
		}
		w.add("type N int")
	}
	w.add("")
	w.add("// P is the unannotated twin of T.")
	w.add("type P struct {")
	w.add("\tF  int")
	w.add("\tM  int")
	w.add("\tMs []int")
	w.add("\tXs []int")
	w.add("\tMp map[string]int")
	w.add("}")
	w.add("")
	w.add("type (")
	w.add("\t// T2 is a second annotated type whose field names coincide with T's but whose")
	w.add("\t// @mutable marking is the other way round; its constructor is NewT2.")
	if m.Imm {
		w.add("\t// @immutable")
	}
	if m.Ctor >= 2 {
		w.add("\t// @constructor NewT2, Alt") // Alt is a constructor of T as well: one function named by two types
	} else if m.Ctor > 0 {
		w.add("\t// @constructor NewT2")
	}
	w.add("\tT2 struct {")
	if m.Mut {
		w.add("\t\t// @mutable")
	}
	w.add("\t\tF int")
	w.add("\t\tM int")
	w.add("\t}")
	w.add("\tU2 struct{ F int }") // no doc comment of its own: must not inherit the previous spec's
	w.add(")")
	w.add("")
	w.add("// GT is a generic annotated type (same marking as T: M is the @mutable field); its constructor is generic too.")
	if m.Imm {
		w.add("// @immutable")
	}
	if m.Ctor > 0 {
		w.add("// @constructor NewGT")
	}
	w.add("type GT[V any] struct {")
	w.add("\tF V")
	if m.Mut {
		w.add("\t// @mutable")
	}
	w.add("\tM int")
	w.add("}")
	w.add("")
	if m.Ctor >= 6 {
		w.add("// Créer is listed as a constructor of T: what it does is exempt.")
		w.add("func Créer() *T {")
		w.add("\tt := &T{}")
		w.add("\tt.F = 1")
		w.add("\tvar z T")
		w.add("\t_ = z")
		w.add("\treturn t")
		w.add("}")
		w.add("")
	}
	w.add("func NewGT[V any](v V) *GT[V] {")
	w.add("\tg := &GT[V]{}")
	if m.Ctor > 0 {
		w.add("\tg.F = v") // a write inside the (generic) constructor: exempt only because NewGT is listed
	}
	w.add("\treturn g")
	w.add("}")
	w.add("")
	w.add("// hid is UNEXPORTED and annotated like GT; other packages reach it through GetHid, DefaultHid, WHid (embedding),")
	w.add("// HidAlias (an exported alias) and HidList (an exported container).")
	if m.Imm {
		w.add("// @immutable")
	}
	if m.Ctor > 0 {
		w.add("// @constructor newHid")
	}
	w.add("type hid struct {")
	w.add("\tF int")
	if m.Mut {
		w.add("\t// @mutable")
	}
	w.add("\tM  int")
	w.add("\tXs []int")
	w.add("}")
	w.add("")
	w.add("func newHid() *hid { return &hid{} }")
	w.add("")
	w.add("var DefaultHid = newHid()")
	w.add("")
	w.add("func GetHid() *hid { return DefaultHid }")
	w.add("")
	w.add("type WHid struct{ hid }")
	w.add("")
	w.add("type HidAlias = hid")
	w.add("")
	w.add("type HidList []hid")
	w.add("")
	w.add("// WT and WPT embed T (by value / by pointer): T's fields are promoted; WTw embeds the unannotated twin.")
	w.add("type WT struct{ T }")
	w.add("")
	w.add("type WPT struct{ *T }")
	w.add("")
	w.add("type WTw struct{ P }")
	w.add("")
	w.add("// WOut reaches T through two levels of embedding, the outer one by pointer.")
	w.add("type WMid struct{ T }")
	w.add("")
	w.add("type WOut struct{ *WMid }")
	w.add("")
	w.add("// Labels, Props and Triple are defined collection types (fields of T are declared with them).")
	w.add("type Labels []int")
	w.add("")
	w.add("type Props map[string]int")
	w.add("")
	w.add("type Triple [3]int")
	w.add("")
	w.add("// O is a plain struct holding T.")
	w.add("type O struct {")
	w.add("\tIn T")
	w.add("\tPt *T")
	w.add("}")
	w.add("")
	w.add("func GetP() *T { return nil }")
	w.add("")
	w.add("func Env() (x T, p *T, r *T, o O, op *O, arr []T, tw P, tp *P, y int, rn *N, x2 T2, u2 U2, gx GT[int], gp *GT[int], wt WT, wpt *WPT, wtw WTw, wo WOut) { return }")
	w.add("")
}

// Render turns the spec into a program.
func Render(s *Spec) *Rendered {
	out := &Rendered{byLine: map[string]int{}}
	r := &renderer{spec: s, out: out}
	pkgPath := PathD
	pkgName := "d"
	if s.InU {
		pkgPath, pkgName = PathU, "u"
		if s.Mix.Ctor == 2 || s.Mix.PreludeLast {
			pkgName = "d" // the using package is CALLED like the declaring one (its path stays ex.com/m/u)
		}
		r.q = "d."
		if s.Spell == SpRenamedImp {
			r.q = "dd."
		}
		if s.Spell == SpDotImport {
			if !s.Mix.NoOwn {
				panic("SpDotImport needs Mix.NoOwn: the using package cannot declare its own T next to a dot import of d")
			}
			r.q = ""
		}
	} else if s.Spell == SpDotImport {
		panic("SpDotImport needs InU")
	}
	r.tName, r.pName, r.oName, r.nName = r.q+"T", r.q+"P", r.q+"O", r.q+"N"
	r.ptName = "*" + r.tName
	r.tLit = r.tName
	switch s.Spell {
	case SpLocalAlias:
		r.tName, r.nName = "AT", "AN"
		r.ptName = "*AT"
		r.tLit = "AT"
	case SpThirdAlias:
		r.tName, r.nName = "c.AT", "c.AN"
		r.ptName = "*c.AT"
		r.tLit = "c.AT"
	case SpParen:
		r.tName = "(" + r.q + "T)"
		r.ptName = "*(" + r.q + "T)"
	case SpPtrAlias:
		r.ptName = "APT"
	}

	files := make([]*lineWriter, 4)
	used := make([]bool, 4)
	used[0] = true
	for _, b := range s.Blocks {
		used[b.File] = true
	}
	for i := range files {
		if !used[i] {
			continue
		}
		w := &lineWriter{}
		files[i] = w
		if s.FileIgnore != "" {
			w.add(s.FileIgnore)
			if s.BlankLines {
				w.add("") // the blank-line layout also detaches the header comment from the package clause
				w.add("// an ordinary comment")
			}
		}
		w.add("package " + pkgName)
		w.add("")
		if i == 3 {
			continue // no imports at all: everything it touches is declared in a.go
		}
		if s.InU {
			if s.Mix.Mut {
				// an import for which no driver holds a fact, ahead of the annotated package in import order
				w.add(`import "unsafe"`)
			}
			if s.Spell == SpRenamedImp {
				w.add(`import dd "ex.com/m/d"`)
			} else if s.Spell == SpDotImport {
				w.add(`import . "ex.com/m/d"`)
			} else {
				w.add(`import "ex.com/m/d"`)
			}
			w.add(`import "ex.com/m/e"`)
			if s.Spell == SpThirdAlias {
				w.add(`import "ex.com/m/c"`)
				w.add("var _ c.AN")
			}
			w.add("var _ e.T")
			if s.Mix.Mut {
				w.add("var _ unsafe.Pointer")
			}
			w.add("")
			w.add("var _ = " + r.q + "GetP")
			w.add("")
		} else if s.Spell == SpThirdAlias {
			// package d cannot import c (c imports d): third-package aliases exist only for u.
			panic("SpThirdAlias needs InU")
		}
	}
	head := func(w *lineWriter) {
		if !s.InU {
			preludeD(w, s.Mix)
		}
		w.add("type Q struct{ K int }")
		w.add("")
		w.add("func use(...any) {}")
		w.add("")
		if s.InU {
			w.add("// hp and LT let a file of this package reach d's annotated type without importing d itself.")
			w.add("func hp() *" + r.q + "T { return " + r.q + "GetP() }")
			w.add("")
			w.add("type LT = " + r.q + "T")
			w.add("")
			if !s.Mix.NoOwn {
				w.add("// T is this package's own type; it merely shares its name (and constructor names) with d.T.")
				w.add("// @immutable")
				w.add("// @constructor NewT, Alt")
				w.add("type T struct{ F int }")
				w.add("")
			}
		}
		switch s.Spell {
		case SpLocalAlias:
			w.add("type AT0 = " + r.q + "T // first link of an alias chain")
			w.add("type AT = AT0")
			w.add("type AN = " + r.q + "N")
			w.add("")
		case SpPtrAlias:
			w.add("type APT = *" + r.q + "T")
			w.add("type APW = *" + r.q + "WPT // the operand through which T's promoted fields are written")
			w.add("")
		}
	}
	if !s.Mix.PreludeLast {
		head(files[0])
	}
	for bi, b := range s.Blocks {
		r.block(files[b.File], pkgPath, bi, b)
	}
	if s.Mix.PreludeLast {
		head(files[0])
	}

	p := &prog.Program{}
	if s.InU {
		// a second imported package whose types have the SAME NAMES as d's but the opposite annotations:
		// e.T carries nothing, e.P (d's unannotated twin) is @immutable with constructor NewT
		p.Pkgs = append(p.Pkgs, prog.Pkg{Path: "ex.com/m/e", Files: []prog.File{{Name: "e.go", Src: `package e

// T has the name of d's annotated type but carries no annotation.
type T struct {
	F  int
	M  int
	Xs []int
}

// P has the name of d's unannotated twin but is annotated here.
// @immutable
// @constructor NewT
type P struct {
	F  int
	Xs []int
}

func NewT() *P { return &P{} }
`}}})
		wd := &lineWriter{}
		wd.add("package d")
		wd.add("")
		preludeD(wd, s.Mix)
		p.Pkgs = append(p.Pkgs, prog.Pkg{Path: PathD, Files: []prog.File{{Name: "a.go", Src: wd.b.String()}}})
		if s.Spell == SpThirdAlias {
			p.Pkgs = append(p.Pkgs, prog.Pkg{Path: PathC, Files: []prog.File{{Name: "c.go", Src: "package c\n\nimport \"ex.com/m/d\"\n\ntype AT = d.T\ntype AN = d.N\n"}}})
		}
	}
	pk := prog.Pkg{Path: pkgPath}
	for i, w := range files {
		if w != nil {
			pk.Files = append(pk.Files, prog.File{Name: FileNames[i], Src: Mangle(s.Mangle, w.b.String())})
		}
	}
	p.Pkgs = append(p.Pkgs, pk)
	out.Prog = p
	return out
}

// recvName is how the receiver base type of a method on T is written: in the declaring package the
// spelling under test applies to receivers too (an alias of T, a parenthesised T); in the using
// package the methods belong to its own T.
func (r *renderer) recvName() string {
	if r.spec.InU {
		return "T"
	}
	switch r.spec.Spell {
	case SpLocalAlias:
		return "AT"
	case SpParen:
		return "(T)"
	}
	return "T"
}

func (r *renderer) wptName() string {
	if r.spec.Spell == SpPtrAlias {
		return "APW"
	}
	return "*" + r.q + "WPT"
}

func (r *renderer) subst(stmt string) string {
	r.ctr++
	rep := strings.NewReplacer("{TL}", r.tLit, "{T}", r.tName, "{PT}", r.ptName, "{P}", r.pName, "{O}", r.oName, "{N}", r.nName,
		"{GetP}", r.q+"GetP", "{Env}", r.q+"Env", "{T2}", r.q+"T2", "{U2}", r.q+"U2", "{GT}", r.q+"GT", "{NewGT}", r.q+"NewGT", "{WT}", r.q+"WT", "{q}", r.q, "$v", fmt.Sprintf("v%d", r.ctr))
	return rep.Replace(stmt)
}

func (r *renderer) params(skip string) string {
	all := []struct{ n, t string }{
		{"x", r.tName}, {"p", r.ptName}, {"r", r.ptName}, {"o", r.oName}, {"op", "*" + r.oName},
		{"arr", "[]" + r.tName}, {"tw", r.pName}, {"tp", "*" + r.pName}, {"y", "int"}, {"rn", "*" + r.nName}, {"x2", r.q + "T2"}, {"u2", r.q + "U2"}, {"gx", r.q + "GT[int]"}, {"gp", "*" + r.q + "GT[int]"}, {"wt", r.q + "WT"}, {"wpt", r.wptName()}, {"wtw", r.q + "WTw"}, {"wo", r.q + "WOut"},
	}
	var parts []string
	for _, a := range all {
		if a.n == skip {
			continue
		}
		parts = append(parts, a.n+" "+a.t)
	}
	return strings.Join(parts, ", ")
}

func (r *renderer) pre(w *lineWriter, indent string) {
	if r.spec.BlankLines {
		w.add("")
		w.add(indent + "// an ordinary comment")
	}
}

func (r *renderer) block(w *lineWriter, pkgPath string, bi int, b Block) {
	file := pkgPath + "/" + FileNames[b.File]
	if b.File == 3 {
		// a function in the import-free file: only the sites that need nothing but hp() and LT
		r.pre(w, "")
		w.addf("func fn%d() {", bi)
		for si := range r.spec.Sites {
			st := &r.spec.Sites[si]
			if !st.NoImport {
				continue
			}
			r.pre(w, "\t")
			ln := w.add("\t" + r.subst(st.Stmt))
			r.record(st, bi, WNone, file, ln)
		}
		w.add("}")
		w.add("")
		return
	}
	r.pre(w, "")
	if b.Ignore != "" && b.Encl != EPkgVarDirect && b.Encl != EPkgVarDirectRev {
		w.add(b.Ignore)
	}
	ptrR := true
	switch b.Encl {
	case EPlain:
		w.addf("func f%d(%s) {", bi, r.params(""))
	case ECtorNewT, ECtorAlt, ECtorNewN:
		w.addf("func %s(%s) {", b.Encl.fixedName(), r.params(""))
	case EInit:
		w.add("func init() {")
		w.add("\tx, p, r, o, op, arr, tw, tp, y, rn, x2, u2, gx, gp, wt, wpt, wtw, wo := " + r.subst("{Env}") + "()")
		w.add("\tuse(x, p, r, o, op, arr, tw, tp, y, rn, x2, u2, gx, gp, wt, wpt, wtw, wo)")
	case EMethTPtr:
		w.addf("func (r *%s) m%d(%s) {", r.recvName(), bi, r.params("r"))
	case EMethTVal:
		w.addf("func (r %s) m%d(%s) {", r.recvName(), bi, r.params("r"))
		ptrR = false
	case EMethNPtr:
		w.addf("func (rn *N) m%d(%s) {", bi, r.params("rn"))
	case EMethQ:
		w.addf("func (q *Q) m%d(%s) {", bi, r.params(""))
	case EPkgVarClosure:
		w.addf("var _ = func(%s) int {", r.params(""))
	case EPkgVarDirect, EPkgVarDirectRev:
		order := make([]int, 0, len(r.spec.Sites))
		if b.Encl == EPkgVarDirectRev {
			// zero-value declarations of the annotated type first, then everything else in reverse order
			for k := range r.spec.Sites {
				if st := &r.spec.Sites[k]; st.Subj == SubjT && len(st.Codes) > 0 && st.Codes[0] == "CTOR03" && st.PkgLevel != "" {
					order = append(order, k)
				}
			}
			for k := len(r.spec.Sites) - 1; k >= 0; k-- {
				if st := &r.spec.Sites[k]; !(st.Subj == SubjT && len(st.Codes) > 0 && st.Codes[0] == "CTOR03" && st.PkgLevel != "") {
					order = append(order, k)
				}
			}
		} else {
			for k := range r.spec.Sites {
				order = append(order, k)
			}
		}
		for _, si := range order {
			st := &r.spec.Sites[si]
			if st.PkgLevel == "" && len(st.PkgLines) == 0 {
				continue
			}
			if r.spec.Single != nil && r.spec.Single.Site != si {
				continue
			}
			r.pre(w, "")
			if len(st.PkgLines) > 0 {
				text := strings.ReplaceAll(strings.Join(st.PkgLines, "\n"), "$g", fmt.Sprintf("G%d_$v", bi))
				for li, l := range strings.Split(r.subst(text), "\n") {
					ln := w.add(l)
					if li == st.PkgAt {
						r.record(st, bi, WNone, file, ln)
					}
				}
				continue
			}
			ln := w.add(r.subst(strings.ReplaceAll(st.PkgLevel, "$g", fmt.Sprintf("G%d_$v", bi))))
			r.record(st, bi, WNone, file, ln)
		}
		w.add("")
		return
	case EFillerType:
		w.addf("type ft%d struct{ A int }", bi)
		w.add("")
		return
	case EFillerVar:
		w.addf("var fv%d = 1", bi)
		w.add("")
		return
	}
	for wr := WNone; wr < nWrap; wr++ {
		if r.spec.Single != nil && r.spec.Single.Wrap != wr {
			continue
		}
		r.section(w, file, bi, wr, ptrR, b.Encl == EMethTPtr || b.Encl == EMethTVal)
	}
	if b.Encl == EPkgVarClosure {
		w.add("\treturn 0")
	}
	w.add("}")
	w.add("")
}

func (r *renderer) section(w *lineWriter, file string, bi int, wr Wrapper, ptrR, inMethT bool) {
	ind := "\t"
	var closeLines []string
	r.pre(w, "\t")
	switch wr {
	case WNone:
	case WIf:
		w.add("\tif y > 0 {")
		ind, closeLines = "\t\t", []string{"\t}"}
	case WFor:
		w.add("\tfor i := 0; i < 1; i++ {")
		ind, closeLines = "\t\t", []string{"\t}"}
	case WSwitch:
		w.add("\tswitch y {")
		w.add("\tcase 1:")
		ind, closeLines = "\t\t", []string{"\t}"}
	case WSelect:
		w.add("\tselect {")
		w.add("\tdefault:")
		ind, closeLines = "\t\t", []string{"\t}"}
	case WClosure:
		w.add("\tfunc() {")
		ind, closeLines = "\t\t", []string{"\t}()"}
	case WDefer:
		w.add("\tdefer func() {")
		ind, closeLines = "\t\t", []string{"\t}()"}
	case WGo:
		w.add("\tgo func() {")
		ind, closeLines = "\t\t", []string{"\t}()"}
	case WNested:
		w.add("\tfor y < 1 {")
		w.add("\t\tif y > 0 {")
		w.add("\t\t\tfunc() {")
		ind, closeLines = "\t\t\t\t", []string{"\t\t\t}()", "\t\t}", "\t\ty++", "\t}"}
	case WBlock:
		w.add("\t{")
		ind, closeLines = "\t\t", []string{"\t}"}
	case WAssignClosure:
		r.ctr++
		fn := fmt.Sprintf("fn%d", r.ctr)
		w.add("\t" + fn + " := func() {")
		ind, closeLines = "\t\t", []string{"\t}", "\t_ = " + fn}
	case WAssignCallRHS:
		w.add("\ty = func() int {")
		ind, closeLines = "\t\t", []string{"\t\treturn 0", "\t}()"}
	case WVarClosure:
		r.ctr++
		fn := fmt.Sprintf("fn%d", r.ctr)
		w.add("\tvar " + fn + " = func() {")
		ind, closeLines = "\t\t", []string{"\t}", "\t_ = " + fn}
	case WArgClosure:
		w.add("\tuse(func() {")
		ind, closeLines = "\t\t", []string{"\t})"}
	case WLitClosure:
		w.add("\t_ = []func(){func() {")
		ind, closeLines = "\t\t", []string{"\t}}"}
	case WCompoundRHS:
		w.add("\ty += func() int {")
		ind, closeLines = "\t\t", []string{"\t\treturn 0", "\t}()"}
	case WIfCondClosure:
		w.add("\tif func() bool {")
		ind, closeLines = "\t\t", []string{"\t\treturn true", "\t}() {", "\t}"}
	case WRangeClosure:
		w.add("\tfor range func() []int {")
		ind, closeLines = "\t\t", []string{"\t\treturn nil", "\t}() {", "\t}"}
	case WElse:
		w.add("\tif y > 0 {")
		w.add("\t} else {")
		ind, closeLines = "\t\t", []string{"\t}"}
	case WLabeled:
		r.ctr++
		lb := fmt.Sprintf("L%d", r.ctr)
		w.add("\t" + lb + ":")
		w.add("\tfor {")
		ind, closeLines = "\t\t", []string{"\t\tbreak " + lb, "\t}"}
	case WTypeSwitch:
		w.add("\tswitch any(y).(type) {")
		w.add("\tcase int:")
		ind, closeLines = "\t\t", []string{"\t}"}
	case WReturnedClosure:
		w.add("\t_ = func() func() {")
		w.add("\t\treturn func() {")
		ind, closeLines = "\t\t\t", []string{"\t\t}", "\t}"}
	}
	for si := range r.spec.Sites {
		st := &r.spec.Sites[si]
		if st.Stmt == "" && len(st.Lines) == 0 {
			continue
		}
		if r.spec.Single != nil {
			if r.spec.Single.Site != si {
				continue
			}
		} else if wr != WNone && !st.Core {
			continue
		}
		if st.NeedPtrR && !ptrR {
			continue
		}
		if st.NotInMethT && inMethT {
			continue
		}
		if st.OnlyInU && !r.spec.InU {
			continue
		}
		if st.Subj == SubjOwnT && r.spec.Mix.NoOwn {
			continue
		}
		r.pre(w, ind)
		if len(st.Lines) > 0 {
			for li, l := range strings.Split(r.subst(strings.Join(st.Lines, "\n")), "\n") {
				ln := w.add(ind + l)
				if li == st.At {
					r.record(st, bi, wr, file, ln)
				}
			}
			continue
		}
		ln := w.add(ind + r.subst(st.Stmt))
		r.record(st, bi, wr, file, ln)
	}
	for _, c := range closeLines {
		w.add(c)
	}
}

func (r *renderer) record(st *Site, bi int, wr Wrapper, file string, line int) {
	r.out.byLine[fmt.Sprintf("%s:%d", file, line)] = len(r.out.Sites)
	id := r.spec.Blocks[bi].ID
	if id == 0 {
		id = bi + 1
	}
	r.out.Sites = append(r.out.Sites, SiteInst{Site: st, BlockID: id, Block: bi, Wrap: wr, File: file, Line: line})
}

// NumWrappers is the number of wrapper kinds.
func NumWrappers() Wrapper { return nWrap }

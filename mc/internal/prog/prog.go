// Package prog turns an in-memory multi-package Go program into go/packages values and runs the
// real GoGreement analyzers on it through checker.Analyze — the function the shipped binary's
// driver calls after packages.Load.
package prog

import (
	"fmt"
	"go/ast"
	"go/parser"
	"go/token"
	"go/types"
	"regexp"
	"sort"
	"strings"

	"github.com/a14e/gogreement/src/analyzer"
	"golang.org/x/tools/go/analysis"
	"golang.org/x/tools/go/analysis/checker"
	"golang.org/x/tools/go/packages"
)

// Root is the fake absolute directory under which generated files pretend to live. It must not
// contain any exclude-paths entry.
const Root = "/mcsrc/"

type File struct {
	Name string // base name, e.g. "a.go"
	Src  string
}

type Pkg struct {
	Path  string // import path, e.g. "ex.com/m/d"
	Dir   string // optional directory override (relative to Root); default = Path
	Files []File
}

// Program lists packages in dependency order (imports first).
type Program struct {
	Pkgs []Pkg
}

func (p *Program) Text() string {
	var b strings.Builder
	for _, pk := range p.Pkgs {
		for _, f := range pk.Files {
			fmt.Fprintf(&b, "// ---- %s/%s\n%s\n", pk.Path, f.Name, f.Src)
		}
	}
	return b.String()
}

// Diag is one normalised diagnostic.
type Diag struct {
	Pkg      string `json:"pkg"`
	File     string `json:"file"` // pkgpath/base
	Line     int    `json:"line"`
	Col      int    `json:"col"`
	Analyzer string `json:"analyzer"`
	Code     string `json:"code"`
	Message  string `json:"message,omitempty"`
}

func (d Diag) Key() string { return fmt.Sprintf("%s:%d:%s", d.File, d.Line, d.Code) }

type Loaded struct {
	Fset *token.FileSet
	Pkgs []*packages.Package // same order as Program.Pkgs
	By   map[string]*packages.Package
}

type mapImporter map[string]*types.Package

func (m mapImporter) Import(path string) (*types.Package, error) {
	if path == "unsafe" {
		return types.Unsafe, nil
	}
	if p, ok := m[path]; ok {
		return p, nil
	}
	return nil, fmt.Errorf("package %q not in program", path)
}

// Load parses and type-checks the program. An error here is a generator bug, never a verdict.
func Load(p *Program) (*Loaded, error) { return LoadOrder(p, false) }

// LoadOrder is Load with control over the order in which the files of a package are added to
// the FileSet. go/packages parses files concurrently, so which file receives the lower position
// range is a scheduling accident of the loader; reverseParse gives later-listed files the LOWER
// positions while pass.Files keeps the listed order.
func LoadOrder(p *Program, reverseParse bool) (*Loaded, error) {
	fset := token.NewFileSet()
	imp := mapImporter{}
	ld := &Loaded{Fset: fset, By: map[string]*packages.Package{}}
	sizes := types.SizesFor("gc", "amd64")
	for _, pk := range p.Pkgs {
		dir := pk.Dir
		if dir == "" {
			dir = pk.Path
		}
		files := make([]*ast.File, len(pk.Files))
		names := make([]string, len(pk.Files))
		for k := range pk.Files {
			i := k
			if reverseParse {
				i = len(pk.Files) - 1 - k
			}
			f := pk.Files[i]
			fn := Root + dir + "/" + f.Name
			af, err := parser.ParseFile(fset, fn, f.Src, parser.ParseComments)
			if err != nil {
				return nil, fmt.Errorf("parse %s: %v", fn, err)
			}
			files[i] = af
			names[i] = fn
		}
		info := &types.Info{
			Types:        map[ast.Expr]types.TypeAndValue{},
			Defs:         map[*ast.Ident]types.Object{},
			Uses:         map[*ast.Ident]types.Object{},
			Implicits:    map[ast.Node]types.Object{},
			Instances:    map[*ast.Ident]types.Instance{},
			Scopes:       map[ast.Node]*types.Scope{},
			Selections:   map[*ast.SelectorExpr]*types.Selection{},
			FileVersions: map[*ast.File]string{},
		}
		conf := types.Config{Importer: imp, Sizes: sizes}
		tp, err := conf.Check(pk.Path, fset, files, info)
		if err != nil {
			return nil, fmt.Errorf("typecheck %s: %v", pk.Path, err)
		}
		imp[pk.Path] = tp
		pp := &packages.Package{
			ID: pk.Path, Name: tp.Name(), PkgPath: pk.Path,
			GoFiles: names, CompiledGoFiles: names,
			Imports: map[string]*packages.Package{},
			Types:   tp, Fset: fset, Syntax: files, TypesInfo: info, TypesSizes: sizes,
		}
		for _, ip := range tp.Imports() {
			if ip.Path() == "unsafe" {
				continue // no package to analyse, no facts: as in the real drivers' vet mode
			}
			dep, ok := ld.By[ip.Path()]
			if !ok {
				return nil, fmt.Errorf("%s imports %s which is not loaded before it", pk.Path, ip.Path())
			}
			pp.Imports[ip.Path()] = dep
		}
		ld.Pkgs = append(ld.Pkgs, pp)
		ld.By[pk.Path] = pp
	}
	return ld, nil
}

type Opts struct {
	Roots       []string // package paths analysed as roots; nil = all
	Parallel    bool     // free-running parallel driver (panics are then fatal to the process)
	SanityCheck bool     // gob round trip of every inherited fact
}

type Result struct {
	Diags  []Diag
	Errs   []string // action errors
	Panic  string   // recovered panic (sequential mode only)
	Graph  *checker.Graph
	Loaded *Loaded
}

var codeRe = regexp.MustCompile(`\[([A-Z]+[0-9]+)\]`)

// Analyze runs all GoGreement analyzers over the loaded program.
func Analyze(ld *Loaded, o Opts) (res *Result) {
	res = &Result{Loaded: ld}
	var roots []*packages.Package
	if o.Roots == nil {
		roots = ld.Pkgs
	} else {
		for _, r := range o.Roots {
			roots = append(roots, ld.By[r])
		}
	}
	defer func() {
		if r := recover(); r != nil {
			res.Panic = fmt.Sprint(r)
		}
	}()
	g, err := checker.Analyze(analyzer.AllAnalyzers(), roots, &checker.Options{Sequential: !o.Parallel, SanityCheck: o.SanityCheck})
	if err != nil {
		res.Errs = append(res.Errs, err.Error())
		return res
	}
	res.Graph = g
	for act := range g.All() {
		if act.Err != nil {
			res.Errs = append(res.Errs, fmt.Sprintf("%s: %v", act, act.Err))
		}
		if !act.IsRoot {
			continue
		}
		for _, d := range act.Diagnostics {
			res.Diags = append(res.Diags, MkDiag(ld.Fset, act.Package.PkgPath, act.Analyzer, d))
		}
	}
	SortDiags(res.Diags)
	sort.Strings(res.Errs)
	return res
}

func MkDiag(fset *token.FileSet, pkgPath string, a *analysis.Analyzer, d analysis.Diagnostic) Diag {
	pos := fset.Position(d.Pos)
	code := ""
	if m := codeRe.FindStringSubmatch(firstLine(d.Message)); m != nil {
		code = m[1]
	}
	return Diag{Pkg: pkgPath, File: strings.TrimPrefix(pos.Filename, Root), Line: pos.Line, Col: pos.Column,
		Analyzer: a.Name, Code: code, Message: d.Message}
}

func firstLine(s string) string {
	if i := strings.IndexByte(s, '\n'); i >= 0 {
		return s[:i]
	}
	return s
}

func SortDiags(ds []Diag) {
	sort.Slice(ds, func(i, j int) bool {
		a, b := ds[i], ds[j]
		if a.File != b.File {
			return a.File < b.File
		}
		if a.Line != b.Line {
			return a.Line < b.Line
		}
		if a.Code != b.Code {
			return a.Code < b.Code
		}
		if a.Col != b.Col {
			return a.Col < b.Col
		}
		return a.Message < b.Message
	})
}

// Run = Load + Analyze; a load error is returned as error.
func Run(p *Program, o Opts) (*Result, error) {
	ld, err := Load(p)
	if err != nil {
		return nil, err
	}
	return Analyze(ld, o), nil
}

// RunOrder = LoadOrder + Analyze: reverseParse gives later-listed files of a package the LOWER positions.
func RunOrder(p *Program, o Opts, reverseParse bool) (*Result, error) {
	ld, err := LoadOrder(p, reverseParse)
	if err != nil {
		return nil, err
	}
	return Analyze(ld, o), nil
}

// Keys returns the sorted multiset of file:line:code keys of ds restricted to analyzers in only
// (all analyzers when only is empty).
func Keys(ds []Diag, only ...string) []string {
	var out []string
	for _, d := range ds {
		if len(only) > 0 {
			ok := false
			for _, a := range only {
				if d.Analyzer == a {
					ok = true
				}
			}
			if !ok {
				continue
			}
		}
		out = append(out, d.Key())
	}
	sort.Strings(out)
	return out
}

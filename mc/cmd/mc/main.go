// Command mc runs one property check: mc <ID> <quick|thorough>.
package main

import (
	"fmt"
	"os"

	"verif/mc/internal/checks"
	"verif/mc/internal/common"
)

var table = map[string]func(common.Tier) int{
	"C01": checks.C01,
	"C02": checks.C02,
}

func main() {
	if len(os.Args) < 2 {
		fmt.Fprintln(os.Stderr, "usage: mc <ID> [quick|thorough]")
		os.Exit(2)
	}
	f, ok := table[os.Args[1]]
	if !ok {
		fmt.Fprintf(os.Stderr, "unknown check %q\n", os.Args[1])
		os.Exit(2)
	}
	tier := common.Tier("quick")
	if len(os.Args) > 2 {
		tier = common.ParseTier(os.Args[2])
	} else if t := os.Getenv("VERIF_TIER"); t != "" {
		tier = common.ParseTier(t)
	}
	os.Exit(f(tier))
}

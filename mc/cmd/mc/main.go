// Command mc runs one property check: mc <ID> <quick|thorough>.
package main

import (
	"fmt"
	"os"

	"verif/mc/internal/checks"
	"verif/mc/internal/common"
)


func main() {
	if len(os.Args) < 2 {
		fmt.Fprintln(os.Stderr, "usage: mc <ID> [quick|thorough]")
		os.Exit(2)
	}
	f, ok := checks.Table[os.Args[1]]
	if !ok {
		fmt.Fprintf(os.Stderr, "unknown check %q\n", os.Args[1])
		os.Exit(2)
	}
	tier := common.Tier("quick")
	if len(os.Args) > 2 {
		tier = common.ParseTier(os.Args[2])
	} else if t := os.Getenv("VERIF_TIER"); t != "" {
		tier = common.ParseTier(t)
	}
	os.Exit(f(tier))
}
